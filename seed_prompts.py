#!/usr/bin/env python3
# usage: seed_prompts.py <round letter> [Cxx ...]   -> writes /tmp/seed/prompt_<Cxx><letter>.txt for every claimed property and
# creates the scratch worktrees /tmp/seed/<Cxx><letter>.  A sub-agent gets only its prompt file: the property text,
# its worktree, and the names of functions earlier seeds already changed (so that it looks elsewhere).
import json,glob,os,re,sys,subprocess
rnd=sys.argv[1]
tmpl='''You are helping test a verification effort by producing a realistic regression ("seeded bug") for an open-source Go project, Tencent/LuaHelper (a Lua language server). You work ONLY inside the git worktree {wt} (the Go module is in {wt}/luahelper-lsp). Do not read or write anything under /verif or /repo.

The property that your change must BREAK:

  id: {id}
  title: {title}
  statement: {statement}
  quantifier: {quant}
  relevant files (hints): {files}

Your job: make a small, realistic source change (the kind of slip a developer could make in a refactor or "optimisation": an off-by-one, a dropped case, a swapped comparison, a missing guard, a wrong key, two sites that each look fine alone...) to the NON-TEST Go code under {wt}/luahelper-lsp such that:
 1. the module still compiles, and the existing test suite still passes unedited:
      cd {wt}/luahelper-lsp && GOFLAGS=-mod=mod GOPROXY=off GOSUMDB=off GOTOOLCHAIN=local go test -vet=off -count=1 ./...
    (there is no network; run exactly with those env vars);
 2. the property above is violated by the changed code, but only under something specific (an unusual input, a particular position, a multi-step sequence, a particular configuration...) - NOT something ordinary use or the existing tests would expose at once;
 3. you provide a demonstration: a Go test file (put it next to the code it exercises, named zz_seed_demo_test.go, in-package so it can reach unexported functions) that FAILS with your change and PASSES without it (verify both: use `git stash` / `git stash pop` or `git diff > p.diff; git checkout -- .; ...; git apply p.diff`). The demo test must not be part of the patch.
{extra}
Deliver, in the worktree root {wt}:
  - patch.diff : `git diff` of your source change only (no test files), applying with `git apply` from the worktree root;
  - the demo test file left in place (untracked) AND a copy at {wt}/demo_test.go.txt with a first-line comment saying in which package directory it belongs;
  - notes.md : 5-10 lines: what you changed, why it breaks the property, what specific circumstance is needed to manifest it, the exact commands you ran and their outcomes (tests pass with patch; demo fails with patch; demo passes without).
{avoid}Keep the change minimal (ideally 1-10 lines, at most two sites). Do not touch test files, go.mod, or anything outside the Go sources. Do not commit. When done, reply with the contents of notes.md.'''
props={}
for l in open('/verif/properties.jsonl'):
    d=json.loads(l); props[d['id']]=d
claimed=[c['property_id'] for c in json.load(open('/verif/MANIFEST.json'))['checks']]
touched={}
for d in sorted(glob.glob('/verif/seeded/*/')):
    if os.path.basename(d.rstrip('/')).startswith('_'): continue
    try: prop=json.load(open(d+'meta.json'))['property']
    except Exception: continue
    patch=open(d+'patch.diff').read()
    touched.setdefault(prop,set()).update(re.findall(r'@@.*@@ func (?:\([^)]*\) )?(\w+)',patch))
os.makedirs('/tmp/seed',exist_ok=True)
only=set(sys.argv[2:])
for pid in sorted(set(claimed)):
    if only and pid not in only: continue
    d=props[pid]; name=pid+rnd; wt='/tmp/seed/'+name
    av=', '.join(sorted(touched.get(pid,[])))
    avoid=('Other testers already covered changes to these functions: %s; put your change in a different function. '%av) if av else ''
    t=tmpl.format(wt=wt,id=pid,title=d['title'],statement=d['statement'],quant=d['quantifier']['text'],files=', '.join(d['anchors']['files']),extra='',avoid=avoid)
    open('/tmp/seed/prompt_%s.txt'%name,'w').write(t)
    if not os.path.exists(wt):
        subprocess.run(['/verif/mkseedwt.sh',name],stdout=subprocess.DEVNULL,check=True)
    print(name, av)
