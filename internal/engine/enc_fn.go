package engine

import (
	"fmt"
	"go/ast"
	"go/types"
	"os"
	"sort"
	"strings"

	"golang.org/x/tools/go/ssa"
)

// Encode builds the event list for the VC's function (re-running until the heap key set is stable).
func (vc *VC) Encode() (err error) {
	defer func() {
		if r := recover(); r != nil {
			if ee, ok := r.(encError); ok {
				err = fmt.Errorf("%s: %s", FuncKey(vc.Fn), string(ee))
				return
			}
			panic(r)
		}
	}()
	for pass := 0; pass < 6; pass++ {
		vc.reset()
		e := vc.newFnEnc(vc.Fn, "", true)
		e.runTop()
		if !vc.newKey {
			for cl, why := range e.stepSkipped {
				if !e.stepDone[cl] {
					return fmt.Errorf("%s: loop step clause %q could not be evaluated on any back edge: %s", FuncKey(vc.Fn), cl.Src, why)
				}
			}
			return nil
		}
	}
	return fmt.Errorf("%s: heap key set did not stabilise", FuncKey(vc.Fn))
}

type encError string

func (e *fnEnc) fail(format string, args ...interface{}) {
	panic(encError(fmt.Sprintf(format, args...)))
}

func copyMap(m map[string]string) map[string]string {
	n := make(map[string]string, len(m))
	for k, v := range m {
		n[k] = v
	}
	return n
}

func (e *fnEnc) runTop() {
	vc := e.vc
	if e.fn.Blocks == nil {
		e.fail("no body")
	}
	e.analyseCFG()
	if c := e.contract; c != nil && c.Snaps == nil {
		c.collectSnaps()
		if c.Snaps == nil {
			c.Snaps = map[string][]SExpr{}
		}
	}
	if c := e.contract; c != nil {
		// a loop clause that names no loop of the function would silently check nothing
		for _, set := range [][]*Clause{c.Invs, c.Decs, c.Assumes, c.Steps, c.Exits} {
			for _, cl := range set {
				if n := e.clauseLoop(cl); n != allLoops && (n < 0 || n >= len(e.loops)) {
					e.fail("loop clause %q (%s:%d) names no loop of %s", cl.Src, cl.File, cl.Line, e.fn.Name())
				}
			}
		}
	}
	if c := e.contract; c != nil {
		// likewise a site clause (at call NAME#k ..., hits("NAME#k"), lastresult("NAME#k")) whose call site is gone
		sites := e.allSiteNames()
		named := func(site, what string) {
			if strings.HasSuffix(site, "#*") || !strings.Contains(site, "#") || strings.Contains(site, "@") {
				return
			}
			if !sites[site] {
				e.fail("%s names call site %s, which %s does not have", what, site, e.fn.Name())
			}
		}
		for _, cl := range c.AtCalls {
			named(cl.Site, fmt.Sprintf("at-call clause %q (%s:%d)", cl.Src, cl.File, cl.Line))
		}
		// (hits("NAME#k") may deliberately name a site the function does not have: hits(...) == 0 says "never called")
		for site := range c.ResSites {
			named(site, "a lastresult() term of the contract")
		}
	}
	e.cur = map[string]string{}
	for _, k := range vc.sortedKeyNames() {
		e.cur[k] = vc.decl("H0!"+k, vc.keys[k].Sort)
	}
	vc.assume(fmt.Sprintf("(>= %s 0)", e.heap(clockKey)))
	if e.contract != nil {
		for site := range e.contract.HitSites {
			vc.assume(sEq(e.heap(hitsKey(site)), "0"))
		}
		for site := range e.contract.ResSites {
			// registered up front (unconstrained initial value) so that loop heads havoc it like any other cell
			if T := e.resultTypeOfSite(site); T != nil {
				e.heap(resKey(site, e.S().SortOf(T)))
			}
		}
	}
	// parameters
	var ptrParams []string
	for _, p := range e.fn.Params {
		n := vc.decl(e.name(p), e.S().SortOf(p.Type()))
		e.val[p] = n
		vc.assume(e.typeFacts(n, p.Type(), 2))
		e.params[p.Name()] = TV{n, e.S().SortOf(p.Type()), p.Type()}
		if _, ok := p.Type().Underlying().(*types.Pointer); ok {
			ptrParams = append(ptrParams, n)
		}
	}
	for _, p := range e.fn.FreeVars {
		n := vc.decl(e.name(p), e.S().SortOf(p.Type()))
		e.val[p] = n
		vc.assume("(> " + n + " 0)")
		ptrParams = append(ptrParams, n)
	}
	_ = ptrParams
	// implicit precondition: a pointer receiver is non-nil (checked as nil:recv at static call sites)
	if e.fn.Signature.Recv() != nil && len(e.fn.Params) > 0 {
		if _, ok := e.fn.Params[0].Type().Underlying().(*types.Pointer); ok {
			vc.assume(fmt.Sprintf("(not (= %s 0))", e.val[e.fn.Params[0]]))
		}
	}
	// lock discipline: helpers that touch guarded state are entered with the mutex held, handlers without
	if vc.Opt.SafetyKinds["lock"] && len(e.fn.Params) > 0 {
		if pt, ok := e.fn.Params[0].Type().Underlying().(*types.Pointer); ok {
			if g := vc.P.guardFor(pt.Elem()); g != nil {
				if li := vc.P.Lock[e.fn]; li != nil {
					h := e.heldTerm(pt.Elem(), g, e.val[e.fn.Params[0]])
					if li.needs {
						vc.assume(h)
					} else {
						vc.assume(sNot(h))
					}
					e.lockAtEntry = h
				}
			}
		}
	}
	e.entryHeap = copyMap(e.cur)
	for _, p := range e.fn.Params {
		for _, f := range e.typeInvFormulas(e.val[p], p.Type(), e.entryHeap) {
			vc.assume(f.f)
		}
	}
	// preconditions
	if c := e.contract; c != nil {
		env := e.entryEnv()
		for _, r := range c.Requires {
			tv, err := env.Bool(r.Expr)
			if err != nil {
				e.fail("requires %q: %v", r.Src, err)
			}
			vc.assume(tv)
		}
		vc.oblige(&Obligation{Name: FuncKey(e.fn) + "#cover:requires", Kind: "cover", Guard: "true", Cond: "true", Cover: true, Props: c.AllProps(), Src: "requires satisfiable"})
	}
	for _, b := range e.order {
		e.block(b, "true")
	}
	if e.contract != nil && len(e.contract.Panics) == 0 {
		var gs []string
		for _, r := range e.rets {
			gs = append(gs, r.guard)
		}
		vc.oblige(&Obligation{Name: FuncKey(e.fn) + "#cover:return", Kind: "cover", Guard: sOr(gs...), Cond: "true", Cover: true, Props: e.contract.AllProps(), Src: "some return reachable"})
	}
}

func (e *fnEnc) entryEnv() *specEnv {
	env := e.newEnv()
	env.heapAt = e.entryHeap
	env.oldHeap = e.entryHeap
	env.lookup = func(name string) (TV, bool) {
		if tv, ok := e.params[name]; ok {
			return tv, true
		}
		return e.freeVarByName(name, e.entryHeap)
	}
	return env
}

func (e *fnEnc) freeVarByName(name string, heap map[string]string) (TV, bool) {
	for _, fv := range e.fn.FreeVars {
		if fv.Name() == name {
			T := fv.Type().Underlying().(*types.Pointer).Elem()
			saved := e.cur
			e.cur = heap
			t := e.loadPtr(e.val[fv], T)
			e.cur = saved
			return TV{t, e.S().SortOf(T), T}, true
		}
	}
	return TV{}, false
}

func (e *fnEnc) newEnv() *specEnv {
	pk := ""
	if e.fn.Pkg != nil {
		pk = e.fn.Pkg.Pkg.Path()
	} else if e.fn.Parent() != nil && e.fn.Parent().Pkg != nil {
		pk = e.fn.Parent().Pkg.Pkg.Path()
	}
	return &specEnv{e: e, pkg: pk, bound: map[string]TV{}}
}

func (e *fnEnc) edgeCond(p, s *ssa.BasicBlock) string {
	rp := e.reach[p]
	if rp == "" {
		return "false"
	}
	if len(p.Instrs) == 0 {
		return rp
	}
	if iff, ok := p.Instrs[len(p.Instrs)-1].(*ssa.If); ok {
		c := e.term(iff.Cond)
		if p.Succs[0] == s && p.Succs[1] == s {
			return rp
		}
		if p.Succs[0] == s {
			return sAnd(rp, c)
		}
		return sAnd(rp, sNot(c))
	}
	return rp
}

func (e *fnEnc) block(b *ssa.BasicBlock, entryGuard string) {
	vc := e.vc
	e.curBlk = b
	li := e.loops[b]
	// reachability and heap at entry
	if b == e.fn.Blocks[0] {
		e.reach[b] = entryGuard
	} else {
		var edges []string
		var preds []*ssa.BasicBlock
		for _, p := range b.Preds {
			if e.isBack[[2]*ssa.BasicBlock{p, b}] {
				continue
			}
			if _, ok := e.reach[p]; !ok {
				continue // unreachable predecessor
			}
			preds = append(preds, p)
			edges = append(edges, e.edgeCond(p, b))
		}
		r := vc.decl(fmt.Sprintf("%sreach!%d", e.prefix, b.Index), "Bool")
		vc.def(sEq(r, sOr(edges...)))
		e.reach[b] = r
		// early-exit obligations: an edge from inside a loop's body to this block outside it
		if e.top && e.contract != nil && len(e.contract.Exits) > 0 && !e.inlineAssume {
			e.earlyExitObligations(b, preds, edges)
		}
		// loop entry obligations use the predecessor states
		if li != nil {
			for i, p := range preds {
				e.cur = copyMap(e.heapOut[p])
				e.loopObligations(li, p, edges[i], "inv-entry")
			}
		}
		// heap merge
		e.cur = map[string]string{}
		for _, k := range vc.sortedKeyNames() {
			var vers []string
			same := true
			for _, p := range preds {
				v := e.heapOut[p][k]
				if v == "" {
					v = "H0!" + k
					vc.decl(v, vc.keys[k].Sort)
				}
				vers = append(vers, v)
				if v != vers[0] {
					same = false
				}
			}
			if len(vers) == 0 {
				e.cur[k] = vc.decl("H0!"+k, vc.keys[k].Sort)
				continue
			}
			if same {
				e.cur[k] = vers[0]
				continue
			}
			n := vc.fresh("H!"+k, vc.keys[k].Sort)
			for i := range preds {
				vc.def(sImp(edges[i], sEq(n, vers[i])))
			}
			e.cur[k] = n
		}
		// phis
		for _, in := range b.Instrs {
			phi, ok := in.(*ssa.Phi)
			if !ok {
				break
			}
			n := vc.decl(e.name(phi), e.S().SortOf(phi.Type()))
			e.val[phi] = n
			if li != nil {
				vc.assume(sImp(r, e.typeFacts(n, phi.Type(), 1)))
				continue // havocked: constrained only by the invariant
			}
			for i, p := range preds {
				idx := predIndex(b, p)
				vc.def(sImp(edges[i], sEq(n, e.term(phi.Edges[idx]))))
			}
		}
		if li != nil {
			if e.loopEntryHeap == nil {
				e.loopEntryHeap = map[*ssa.BasicBlock]map[string]string{}
			}
			e.loopEntryHeap[b] = copyMap(e.cur) // the state in which the loop is entered (before the havoc)
			preLoop := copyMap(e.cur)
			keepMaps := func() {
				// maps made by this function, not yet visible to any other function at the loop and not
				// updated by the loop's own instructions, keep their contents through the loop-head havoc
				for _, mk := range e.localMaps {
					t, ok := e.val[mk]
					if !ok || len(li.head.Instrs) == 0 || !e.mapUnescapedAt(mk, li.head.Instrs[0]) || e.loopUpdatesMap(li, mk) {
						continue
					}
					mt := mk.Type().Underlying().(*types.Map)
					for _, hk := range []HeapKey{e.S().MapHasKey(mt), e.S().MapValKey(mt)} {
						if o, n := preLoop[hk.Name], e.cur[hk.Name]; o != "" && n != "" && o != n {
							vc.def(fmt.Sprintf("(= (select %s %s) (select %s %s))", n, t, o, t))
						}
					}
				}
			}
			if li.all {
				e.havocSummary(nil, true)
			} else {
				var ks []string
				for k := range li.writes {
					ks = append(ks, k)
				}
				sort.Strings(ks)
				for _, k := range ks {
					if strings.HasPrefix(k, "HITS!") {
						continue // havocked below, with the fact that counters only grow
					}
					e.havoc(k)
				}
			}
			keepMaps()
			// ghost call-site counters bumped inside the loop are havocked too (they only grow)
			for _, site := range e.hitSitesIn(li) {
				hk := hitsKey(site)
				vc.key(hk)
				before := e.heap(hk)
				e.havoc(hk.Name)
				vc.assume(sImp(r, fmt.Sprintf("(>= %s %s)", e.cur[hk.Name], before)))
			}
			// allocation clock: havocked but never behind any entry edge
			hc := vc.fresh("clockh", "Int")
			for i, p := range preds {
				pc := e.heapOut[p][clockKey.Name]
				if pc != "" {
					vc.assume(sImp(edges[i], fmt.Sprintf("(>= %s %s)", hc, pc)))
				}
			}
			e.cur[clockKey.Name] = hc
			for _, in := range b.Instrs {
				phi, ok := in.(*ssa.Phi)
				if !ok {
					break
				}
				vc.assume(sImp(r, e.typeFacts(e.val[phi], phi.Type(), 1)))
			}
			e.headHeap[b] = copyMap(e.cur)
			e.assumeInvariants(li)
		}
	}
	for _, in := range b.Instrs {
		if _, ok := in.(*ssa.Phi); ok {
			continue
		}
		e.instr(in)
	}
	e.heapOut[b] = copyMap(e.cur)
	// back edges leaving this block
	for _, s := range b.Succs {
		if e.isBack[[2]*ssa.BasicBlock{b, s}] {
			e.loopObligations(e.loops[s], b, e.edgeCond(b, s), "inv-preserve")
			// a break / continue of an INNER loop that lands directly on the head of an enclosing loop is a back
			// edge of the enclosing loop and an early exit of the inner one
			if e.top && e.contract != nil && len(e.contract.Exits) > 0 && !e.inlineAssume {
				e.earlyExitObligations(s, []*ssa.BasicBlock{b}, []string{e.edgeCond(b, s)})
			}
		}
	}
}

func predIndex(b, p *ssa.BasicBlock) int {
	for i, q := range b.Preds {
		if q == p {
			return i
		}
	}
	return -1
}

// loopClauses returns the invariant and variant clauses for loop li (declared and inferred).
func (e *fnEnc) loopClauses(li *loopInfo) (invs, decs []*Clause) {
	if c := e.contract; c != nil {
		for _, cl := range c.Invs {
			if n := e.clauseLoop(cl); n == li.ordinal || n == allLoops {
				if e.top && os.Getenv("LHV_FOREIGN_INV") == "" && e.foreignClause(cl) {
					// an invariant tagged for other properties only is proved in their runs; this run neither proves nor uses it
					continue
				}
				invs = append(invs, cl)
			}
		}
		for _, cl := range c.Decs {
			if e.clauseLoop(cl) == li.ordinal {
				decs = append(decs, cl)
			}
		}
	}
	if e.top {
		invs = append(invs, e.vc.Opt.CandidateInvs[li.ordinal]...)
	}
	return
}

// loopEnv resolves source variable names at the head of loop li; from != nil substitutes the
// values flowing along the edge from -> head for the header phis.
func (e *fnEnc) loopEnv(li *loopInfo, from *ssa.BasicBlock, heap map[string]string) *specEnv {
	env := e.newEnv()
	env.heapAt = heap
	env.oldHeap = e.entryHeap
	env.lookup = func(name string) (TV, bool) {
		return e.varAt(name, li.head, from, heap)
	}
	env.lookupOld = func(name string) (TV, bool) {
		if tv, ok := e.params[name]; ok {
			return tv, true
		}
		return e.freeVarByName(name, e.entryHeap)
	}
	if from == nil || li.body[from] {
		env.loopEntryHeap = e.loopEntryHeap[li.head] // nil while the head has not been reached
	} else {
		env.loopEntryHeap = heap // inv-entry: the state on the entering edge IS the entry state
	}
	// the loop's own iterator: a Next inside the loop whose Range was created outside it
	for b := range li.body {
		for _, in := range b.Instrs {
			if nx, ok := in.(*ssa.Next); ok {
				if rng, ok := nx.Iter.(*ssa.Range); ok && !li.body[rng.Block()] {
					env.iterKey = "ITER!" + e.prefix + rng.Name()
				}
			}
		}
	}
	if os.Getenv("LHV_DEBUG") != "" {
		fmt.Fprintf(os.Stderr, "loopEnv ord=%d head=%d body=%d iterKey=%q\n", li.ordinal, li.head.Index, len(li.body), env.iterKey)
	}
	return env
}

// varAt finds the SSA value of source variable name at the entry of block at.
func (e *fnEnc) varAt(name string, at, from *ssa.BasicBlock, heap map[string]string) (TV, bool) {
	return e.varAtIdx(name, at, -1, from, heap)
}

// varAtIdx resolves a source variable just before instruction index upto of block at (upto < 0: at block entry, after the phis).
func (e *fnEnc) varAtIdx(name string, at *ssa.BasicBlock, upto int, from *ssa.BasicBlock, heap map[string]string) (TV, bool) {
	// address-taken locals live in memory: always read the cell (value snapshots in DebugRefs are stale)
	// (two locals of the same name - an inner one shadowing an outer one: the one declared last among those whose
	// declaration dominates the point is the one in scope there)
	var best *ssa.Alloc
	for _, b := range e.fn.Blocks {
		for _, in := range b.Instrs {
			if al, ok := in.(*ssa.Alloc); ok && al.Comment == name && (b == at || b.Dominates(at)) {
				if _, seen := e.val[al]; seen && (best == nil || al.Pos() > best.Pos()) {
					best = al
				}
			}
		}
	}
	if best != nil {
		T := best.Type().Underlying().(*types.Pointer).Elem()
		return e.loadVia(best, T, heap), true
	}
	for blk := at; blk != nil; blk = blk.Idom() {
		instrs := blk.Instrs
		end := len(instrs)
		if blk == at {
			end = 0
			for end < len(instrs) {
				if _, ok := instrs[end].(*ssa.Phi); !ok {
					break
				}
				end++
			}
			if upto >= 0 {
				end = upto
			}
		}
		for i := end - 1; i >= 0; i-- {
			switch in := instrs[i].(type) {
			case *ssa.Phi:
				if in.Comment == name {
					if blk == at && from != nil {
						v := in.Edges[predIndex(at, from)]
						return TV{e.term(v), e.S().SortOf(v.Type()), v.Type()}, true
					}
					return TV{e.term(in), e.S().SortOf(in.Type()), in.Type()}, true
				}
			case *ssa.DebugRef:
				if in.Object() != nil && in.Object().Name() == name {
					if _, isVar := in.Object().(*types.Var); !isVar {
						continue
					}
					if in.IsAddr {
						T := in.X.Type().Underlying().(*types.Pointer).Elem()
						return e.loadVia(in.X, T, heap), true
					}
					// the reference at the declaring identifier itself may still carry the zero value (the initial
					// store has been lifted away): use the single value every other reference of the variable agrees on
					if c, isConst := in.X.(*ssa.Const); isConst && in.Pos() == in.Object().Pos() && (c.Value == nil || c.IsNil()) {
						if v := e.singleValueOf(in.Object(), at); v != nil {
							return TV{e.term(v), e.S().SortOf(v.Type()), v.Type()}, true
						}
						continue // ambiguous: do not guess (the name stays unresolved unless a nearer definition exists)
					}
					return TV{e.term(in.X), e.S().SortOf(in.X.Type()), in.X.Type()}, true
				}
			case *ssa.Alloc:
				if in.Comment == name {
					T := in.Type().Underlying().(*types.Pointer).Elem()
					return e.loadVia(in, T, heap), true
				}
			}
		}
	}
	if tv, ok := e.params[name]; ok {
		return tv, true
	}
	return e.freeVarByName(name, heap)
}

func (e *fnEnc) loadVia(addr ssa.Value, T types.Type, heap map[string]string) TV {
	saved := e.cur
	e.cur = heap
	defer func() { e.cur = saved }()
	if lv, ok := e.lvOf(addr); ok {
		return TV{e.load(lv), e.S().SortOf(T), T}
	}
	return TV{e.loadPtr(e.term(addr), T), e.S().SortOf(T), T}
}

func (e *fnEnc) assumeInvariants(li *loopInfo) {
	invs, decs := e.loopClauses(li)
	env := e.loopEnv(li, nil, e.cur)
	for _, cl := range invs {
		f, err := env.Bool(cl.Expr)
		if err != nil {
			if cl.Cand {
				continue
			}
			e.fail("loop %d invariant %q: %v", li.ordinal, cl.Src, err)
		}
		e.vc.assume(sImp(e.reach[li.head], f))
	}
	if c := e.contract; c != nil {
		for _, cl := range c.Assumes {
			if e.clauseLoop(cl) != li.ordinal {
				continue
			}
			f, err := env.Bool(cl.Expr)
			if err != nil {
				e.fail("loop %d assume %q: %v", li.ordinal, cl.Src, err)
			}
			e.vc.assume(sImp(e.reach[li.head], f))
			e.vc.note("ASSUMED (not proved) at loop %d of %s: %s", li.ordinal, FuncKey(e.fn), cl.Src)
		}
	}
	for _, cl := range decs {
		tv, err := env.Term(cl.Expr)
		if err != nil {
			e.fail("loop %d decreases %q: %v", li.ordinal, cl.Src, err)
		}
		n := e.vc.fresh(fmt.Sprintf("%svariant!%d", e.prefix, li.ordinal), "Int")
		e.vc.def(sEq(n, tv.T))
		e.decAtHead[li.head] = append(e.decAtHead[li.head], n)
	}
	if e.top && e.contract != nil {
		e.vc.oblige(&Obligation{Name: fmt.Sprintf("%s#cover:loop%d", FuncKey(e.fn), li.ordinal), Kind: "cover", Guard: e.reach[li.head], Cond: "true", Cover: true, Props: e.contract.AllProps(), Src: "loop head reachable under its invariant"})
	}
}

func (e *fnEnc) loopObligations(li *loopInfo, from *ssa.BasicBlock, guard, kind string) {
	if e.inlineAssume {
		return
	}
	invs, decs := e.loopClauses(li)
	env := e.loopEnv(li, from, e.cur)
	for i, cl := range invs {
		f, err := env.Bool(cl.Expr)
		if err != nil {
			if cl.Cand {
				continue
			}
			e.fail("loop %d invariant %q: %v", li.ordinal, cl.Src, err)
		}
		props := cl.Props
		if len(props) == 0 && e.contract != nil {
			props = e.contract.AllProps()
		}
		if cl.Cand {
			props = nil
		}
		tag := cl.Tag
		if tag == "" {
			tag = fmt.Sprintf("i%d", i)
		}
		name := fmt.Sprintf("%s#%s:loop%d.%s.from%d", FuncKey(e.fn), kind, li.ordinal, tag, e.edgeOrdinal(li, from))
		e.vc.oblige(&Obligation{Name: name, Kind: kind, Guard: guard, Cond: f, Props: props, Src: cl.Src, Pos: e.loopPos(li.head), CandOf: candOf(cl)})
	}
	if kind == "inv-preserve" && e.contract != nil && e.headHeap[li.head] != nil {
		hh := e.headHeap[li.head]
		for i, cl := range e.contract.Steps {
			if e.clauseLoop(cl) != li.ordinal {
				continue
			}
			env.prevHeap = hh
			cur := e.cur
			env.lookupPrev = func(name string) (TV, bool) {
				if tv, ok := e.varAt(name, li.head, nil, hh); ok {
					return tv, true
				}
				// a local of the body (not carried around the loop): its value in this iteration
				return e.varAtIdx(name, from, len(from.Instrs), nil, cur)
			}
			env.lookup = func(name string) (TV, bool) {
				tv, ok := e.varAtIdx(name, from, len(from.Instrs), nil, cur)
				if os.Getenv("LHV_DEBUG") != "" {
					fmt.Fprintf(os.Stderr, "step lookup %s from=%d -> %q %v\n", name, from.Index, tv.T, ok)
				}
				return tv, ok
			}
			f, err := env.Bool(cl.Expr)
			if err != nil {
				if strings.Contains(err.Error(), "unknown name") {
					// a local of the body is not defined on this way round the loop (an early "continue"): the relation
					// says nothing about such an iteration. The clause must still be evaluable on some back edge.
					if e.stepSkipped == nil {
						e.stepSkipped = map[*Clause]string{}
					}
					e.stepSkipped[cl] = err.Error()
					continue
				}
				e.fail("loop %d step %q: %v", li.ordinal, cl.Src, err)
			}
			if e.stepDone == nil {
				e.stepDone = map[*Clause]bool{}
			}
			e.stepDone[cl] = true
			props := cl.Props
			if len(props) == 0 {
				props = e.contract.AllProps()
			}
			tag := cl.Tag
			if tag == "" {
				tag = fmt.Sprintf("s%d", i)
			}
			name := fmt.Sprintf("%s#step:loop%d.%s.from%d", FuncKey(e.fn), li.ordinal, tag, e.edgeOrdinal(li, from))
			e.vc.oblige(&Obligation{Name: name, Kind: "step", Guard: guard, Cond: f, Props: props, Src: cl.Src, Pos: e.loopPos(li.head)})
		}
	}
	if kind == "inv-preserve" {
		for i, cl := range decs {
			tv, err := env.Term(cl.Expr)
			if err != nil {
				e.fail("loop %d decreases %q: %v", li.ordinal, cl.Src, err)
			}
			if i >= len(e.decAtHead[li.head]) {
				continue
			}
			h := e.decAtHead[li.head][i]
			props := cl.Props
			if len(props) == 0 && e.contract != nil {
				props = e.contract.AllProps()
			}
			name := fmt.Sprintf("%s#variant:loop%d.from%d", FuncKey(e.fn), li.ordinal, e.edgeOrdinal(li, from))
			e.vc.oblige(&Obligation{Name: name, Kind: "variant", Guard: guard, Cond: fmt.Sprintf("(and (>= %s 0) (< %s %s))", h, tv.T, h), Props: props, Src: "decreases " + cl.Src, Pos: e.loopPos(li.head)})
		}
	}
}

// edgeOrdinal numbers the edges into a loop head in a layout-independent way (by position among preds).
func (e *fnEnc) edgeOrdinal(li *loopInfo, from *ssa.BasicBlock) int {
	return predIndex(li.head, from)
}

// resultEnv resolves names at a return instruction.
func (e *fnEnc) resultEnv(vals []string, heap map[string]string) *specEnv {
	return e.resultEnvAt(vals, heap, nil)
}

// resultEnvAt: ret != nil additionally resolves local variables whose definition dominates that return.
func (e *fnEnc) resultEnvAt(vals []string, heap map[string]string, ret *ssa.Return) *specEnv {
	env := e.newEnv()
	env.heapAt = heap
	env.oldHeap = e.entryHeap
	res := e.fn.Signature.Results()
	env.lookup = func(name string) (TV, bool) {
		for i := 0; i < res.Len(); i++ {
			if res.At(i).Name() == name && name != "" && name != "_" {
				return TV{vals[i], e.S().SortOf(res.At(i).Type()), res.At(i).Type()}, true
			}
		}
		if name == "result" && res.Len() >= 1 {
			return TV{vals[0], e.S().SortOf(res.At(0).Type()), res.At(0).Type()}, true
		}
		if strings.HasPrefix(name, "result") {
			var i int
			if _, err := fmt.Sscanf(name, "result%d", &i); err == nil && i < res.Len() {
				return TV{vals[i], e.S().SortOf(res.At(i).Type()), res.At(i).Type()}, true
			}
		}
		if tv, ok := e.params[name]; ok {
			return tv, true
		}
		if ret != nil {
			b := ret.Block()
			for k, in := range b.Instrs {
				if in == ssa.Instruction(ret) {
					return e.varAtIdx(name, b, k, nil, heap)
				}
			}
		}
		return e.freeVarByName(name, heap)
	}
	return env
}

func candOf(cl *Clause) *Clause {
	if cl.Cand {
		return cl
	}
	return nil
}

type invFormula struct {
	f  string
	cl *Clause
	tn string
}

// typeInvFormulas instantiates the declared type invariants of *T for the object t (self := t) in the given heap.
func (e *fnEnc) typeInvFormulas(t string, T types.Type, heap map[string]string) []invFormula {
	pt, ok := T.Underlying().(*types.Pointer)
	if !ok {
		return nil
	}
	named, ok := pt.Elem().(*types.Named)
	if !ok || named.Obj().Pkg() == nil {
		return nil
	}
	key := named.Obj().Pkg().Path() + "." + named.Obj().Name()
	cls := e.vc.P.Contracts.TypeInvs[key]
	if len(cls) == 0 {
		return nil
	}
	var out []invFormula
	for _, cl := range cls {
		env := &specEnv{e: e, pkg: named.Obj().Pkg().Path(), bound: map[string]TV{"self": {t, "Int", T}}, heapAt: heap, oldHeap: e.entryHeap}
		f, err := env.Bool(cl.Expr)
		if err != nil {
			e.fail("typeinv %s: %v", key, err)
		}
		out = append(out, invFormula{sImp(fmt.Sprintf("(not (= %s 0))", t), f), cl, named.Obj().Name()})
	}
	return out
}

// writesType reports whether fn itself (its own instructions, not its callees: they answer for themselves)
// writes a field of the struct type behind pointer type T.
func (e *fnEnc) writesType(T types.Type) bool {
	pt, ok := T.Underlying().(*types.Pointer)
	if !ok {
		return false
	}
	s := e.vc.P.Summ[e.fn]
	if s == nil {
		return true
	}
	prefix := "F!" + e.S().typeID(pt.Elem()) + "!"
	for k := range s.direct {
		if strings.HasPrefix(k, prefix) {
			return true
		}
	}
	return false
}

// allLoops: the selector "all" attaches an invariant to every loop of the function.
const allLoops = -3

// clauseLoop resolves the loop a clause is attached to: a plain ordinal, or a selector naming the
// ranged-over expression ("range:EXPR#k") or the loop condition ("for:COND#k") as written in the source.
func (e *fnEnc) clauseLoop(cl *Clause) int {
	if cl.LoopSel == "" {
		return cl.Loop
	}
	if cl.LoopSel == "all" {
		return allLoops
	}
	if e.loopSels == nil {
		e.loopSels = map[string]int{}
		syn, ok := e.fn.Syntax().(*ast.FuncDecl)
		var body *ast.BlockStmt
		if ok {
			body = syn.Body
		} else if lit, ok := e.fn.Syntax().(*ast.FuncLit); ok {
			body = lit.Body
		}
		if body != nil {
			var sels []string
			ast.Inspect(body, func(n ast.Node) bool {
				switch s := n.(type) {
				case *ast.FuncLit:
					return false
				case *ast.RangeStmt:
					sels = append(sels, "range:"+strings.ReplaceAll(types.ExprString(s.X), " ", ""))
				case *ast.ForStmt:
					c := ""
					if s.Cond != nil {
						c = strings.ReplaceAll(types.ExprString(s.Cond), " ", "")
					}
					sels = append(sels, "for:"+c)
				}
				return true
			})
			if len(sels) == len(e.loops) {
				count := map[string]int{}
				for ord, s := range sels {
					e.loopSels[fmt.Sprintf("%s#%d", s, count[s])] = ord
					count[s]++
				}
			}
		}
	}
	key := cl.LoopSel
	if !strings.Contains(key, "#") {
		key += "#0"
	}
	if ord, ok := e.loopSels[key]; ok {
		return ord
	}
	return -2
}

// hitSitesIn lists the counted call sites (contract HitSites) that have a call instruction inside loop li.
func (e *fnEnc) hitSitesIn(li *loopInfo) []string {
	if !e.top || e.contract == nil || len(e.contract.HitSites) == 0 {
		return nil
	}
	found := map[string]bool{}
	for b := range li.body {
		for _, in := range b.Instrs {
			ci, ok := in.(ssa.CallInstruction)
			if !ok {
				continue
			}
			c := ci.Common()
			for _, n := range e.callNames(c) {
				site := fmt.Sprintf("%s#%d", n, e.siteOrdinal(in, n))
				if e.contract.HitSites[site] {
					found[site] = true
				}
				for hs := range e.contract.HitSites {
					if strings.HasPrefix(hs, n+"@arg") {
						found[hs] = true
					}
				}
			}
		}
	}
	return sortedKeys(found)
}

// loopUpdatesMap: some instruction of the loop stores into or deletes from the map made by mk.
func (e *fnEnc) loopUpdatesMap(li *loopInfo, mk *ssa.MakeMap) bool {
	if mk.Referrers() == nil {
		return true
	}
	for _, r := range *mk.Referrers() {
		if !li.body[r.Block()] {
			continue
		}
		switch u := r.(type) {
		case *ssa.MapUpdate:
			return true
		case *ssa.Call:
			if b, ok := u.Call.Value.(*ssa.Builtin); ok && b.Name() == "delete" {
				return true
			}
		}
	}
	return false
}

// singleValueOf: the one SSA value that all non-declaring debug references of variable obj carry, provided its
// definition dominates block at (a variable assigned exactly once, after its declaration).
func (e *fnEnc) singleValueOf(obj types.Object, at *ssa.BasicBlock) ssa.Value {
	var val ssa.Value
	for _, b := range e.fn.Blocks {
		for _, in := range b.Instrs {
			d, ok := in.(*ssa.DebugRef)
			if !ok || d.Object() != obj || d.IsAddr || d.Pos() == obj.Pos() {
				continue
			}
			if val == nil {
				val = d.X
			} else if val != d.X {
				return nil
			}
		}
	}
	if val == nil {
		return nil
	}
	if in, ok := val.(ssa.Instruction); ok {
		if in.Block() != at && !in.Block().Dominates(at) {
			return nil
		}
	}
	return val
}

// earlyExitObligations: for every loop with an "exits-early-only-if P" clause, an edge p -> b that leaves the loop from a
// body block other than the head (break, return, goto out of the loop) must satisfy P, evaluated at the end of p.
func (e *fnEnc) earlyExitObligations(b *ssa.BasicBlock, preds []*ssa.BasicBlock, edges []string) {
	var lis []*loopInfo
	for _, li := range e.loops {
		lis = append(lis, li)
	}
	sort.Slice(lis, func(i, j int) bool { return lis[i].ordinal < lis[j].ordinal })
	for _, li := range lis {
		if li.body[b] || b == li.head {
			continue
		}
		for i, p := range preds {
			// leaving from the head is the loop's normal end (its condition turned false) - except for a `for { }`
			// loop, which has no condition: go/ssa makes its first body block the head, and leaving from there is a
			// break like any other
			if !li.body[p] || (p == li.head && li.head.Comment != "for.body") {
				continue
			}
			for k, cl := range e.contract.Exits {
				if e.clauseLoop(cl) != li.ordinal {
					continue
				}
				heap := e.heapOut[p]
				env := e.newEnv()
				env.heapAt = heap
				env.oldHeap = e.entryHeap
				env.loopEntryHeap = e.loopEntryHeap[li.head]
				pp := p
				env.lookup = func(name string) (TV, bool) { return e.varAtIdx(name, pp, len(pp.Instrs), nil, heap) }
				saved := e.cur
				e.cur = copyMap(heap)
				f, err := env.Bool(cl.Expr)
				e.cur = saved
				if err != nil {
					e.fail("loop %d exits-early-only-if %q: %v", li.ordinal, cl.Src, err)
				}
				props := cl.Props
				if len(props) == 0 {
					props = e.contract.AllProps()
				}
				tag := cl.Tag
				if tag == "" {
					tag = fmt.Sprintf("x%d", k)
				}
				name := e.vc.ordinal(fmt.Sprintf("%s#early-exit:loop%d.%s", FuncKey(e.fn), li.ordinal, tag))
				e.vc.oblige(&Obligation{Name: name, Kind: "early-exit", Guard: edges[i], Cond: f, Props: props, Src: "exits-early-only-if " + cl.Src, Pos: e.loopPos(li.head)})
			}
		}
	}
}

// foreignClause reports whether cl belongs to other properties than the one being checked.
func (e *fnEnc) foreignClause(cl *Clause) bool {
	if len(e.vc.Opt.SafetyProps) == 0 {
		return false
	}
	props := cl.Props
	if len(props) == 0 && e.contract != nil {
		props = append(append([]string{}, e.contract.AllProps()...), e.contract.Extra["sweep"]...)
	}
	return !hasProp(props, e.vc.Opt.SafetyProps[0])
}
