package engine

import (
	"fmt"
)

// CheckLemmas proves the pure lemmas tagged with the property: fresh constants for the
// quantified variables, instantiated axioms as hypotheses, negated body as goal.
func (p *Program) CheckLemmas(cfg *CheckConfig) *FuncReport {
	var todoL []*Lemma
	for _, l := range p.Contracts.Lemmas {
		if hasProp(l.Props, cfg.Property) {
			todoL = append(todoL, l)
		}
	}
	if len(todoL) == 0 {
		return nil
	}
	rep := &FuncReport{Fn: "lemmas"}
	for _, l := range todoL {
		vc := NewVC(p, nil, VCOptions{SafetyKinds: map[string]bool{}})
		pkg := pkgPathOfFile(l.File, p)
		env := &specEnv{vc: vc, pkg: pkg, bound: map[string]TV{}}
		var facts []string
		for _, v := range l.Vars {
			s, T, err := env.specSort(v.Type)
			if err != nil {
				rep.Err = fmt.Sprintf("lemma %s: %v", l.Name, err)
				return rep
			}
			n := vc.decl("lv!"+v.Name, s)
			env.bound[v.Name] = TV{n, s, T}
			if T != nil {
				facts = append(facts, typeFacts(p.Sorts, n, T, 2))
			}
		}
		for _, f := range facts {
			vc.assume(f)
		}
		o := &Obligation{Name: "lemma:" + l.Name, Kind: "lemma", Fn: "lemma " + l.Name, Props: l.Props, Guard: "true", Src: l.Src}
		for _, u := range l.Uses {
			x, err := ParseSpecExpr(u)
			if err != nil {
				rep.Err = fmt.Sprintf("lemma %s: %v", l.Name, err)
				return rep
			}
			tv, err := env.Term(x)
			if err != nil {
				rep.Err = fmt.Sprintf("lemma %s use: %v", l.Name, err)
				return rep
			}
			// a use-term seeds axiom instantiation: mention it in a trivial hypothesis
			if tv.Sort == "Bool" {
				o.Extra = append(o.Extra, fmt.Sprintf("(or %s (not %s))", tv.T, tv.T))
			} else {
				o.Extra = append(o.Extra, fmt.Sprintf("(= %s %s)", tv.T, tv.T))
			}
		}
		body, err := env.Bool(l.Body)
		if err != nil {
			rep.Err = fmt.Sprintf("lemma %s: %v", l.Name, err)
			return rep
		}
		o.Cond = body
		vc.oblige(o)
		axioms, err := vc.CompileAxioms(pkg)
		if err != nil {
			rep.Err = err.Error()
			return rep
		}
		rep.Results = append(rep.Results, solveAll(vc, axioms, []*Obligation{o}, cfg)...)
	}
	return rep
}

func pkgPathOfFile(file string, p *Program) string {
	for k, c := range p.Contracts.Funcs {
		_ = k
		if c.File == file {
			return c.Pkg
		}
	}
	return ModulePath
}
