package engine

import (
	"fmt"
	"math/big"
	"strings"
)

func sAnd(xs ...string) string {
	var ys []string
	for _, x := range xs {
		if x == "true" || x == "" {
			continue
		}
		if x == "false" {
			return "false"
		}
		ys = append(ys, x)
	}
	switch len(ys) {
	case 0:
		return "true"
	case 1:
		return ys[0]
	}
	return "(and " + strings.Join(ys, " ") + ")"
}

func sOr(xs ...string) string {
	var ys []string
	for _, x := range xs {
		if x == "false" || x == "" {
			continue
		}
		if x == "true" {
			return "true"
		}
		ys = append(ys, x)
	}
	switch len(ys) {
	case 0:
		return "false"
	case 1:
		return ys[0]
	}
	return "(or " + strings.Join(ys, " ") + ")"
}

func sNot(x string) string {
	switch x {
	case "true":
		return "false"
	case "false":
		return "true"
	}
	if strings.HasPrefix(x, "(not ") && strings.HasSuffix(x, ")") && balanced(x[5:len(x)-1]) {
		return x[5 : len(x)-1]
	}
	return "(not " + x + ")"
}

func balanced(s string) bool {
	d := 0
	for i := 0; i < len(s); i++ {
		switch s[i] {
		case '(':
			d++
		case ')':
			d--
			if d < 0 {
				return false
			}
		case ' ':
			if d == 0 {
				return false
			}
		}
	}
	return d == 0
}

func sImp(a, b string) string {
	if a == "true" {
		return b
	}
	if a == "false" || b == "true" {
		return "true"
	}
	return "(=> " + a + " " + b + ")"
}

func sIte(c, a, b string) string {
	if c == "true" {
		return a
	}
	if c == "false" {
		return b
	}
	if a == b {
		return a
	}
	return "(ite " + c + " " + a + " " + b + ")"
}

func sEq(a, b string) string {
	if a == b {
		return "true"
	}
	return "(= " + a + " " + b + ")"
}

func sApp(f string, args ...string) string {
	if len(args) == 0 {
		return f
	}
	return "(" + f + " " + strings.Join(args, " ") + ")"
}

func sInt(n int64) string {
	if n < 0 {
		return fmt.Sprintf("(- %d)", -n)
	}
	return fmt.Sprintf("%d", n)
}

func sBig(n *big.Int) string {
	if n.Sign() < 0 {
		return "(- " + new(big.Int).Neg(n).String() + ")"
	}
	return n.String()
}

func pow2(n int) *big.Int { return new(big.Int).Lsh(big.NewInt(1), uint(n)) }

func isIntLit(s string) (int64, bool) {
	var n int64
	if _, err := fmt.Sscanf(s, "%d", &n); err == nil && fmt.Sprintf("%d", n) == s {
		return n, true
	}
	return 0, false
}

// sexprArgs splits the top-level arguments of an s-expression "(f a b c)" -> ["f","a","b","c"].
func sexprParts(s string) []string {
	if len(s) < 2 || s[0] != '(' {
		return []string{s}
	}
	s = s[1 : len(s)-1]
	var out []string
	d := 0
	start := -1
	for i := 0; i < len(s); i++ {
		c := s[i]
		switch {
		case c == '(':
			if d == 0 && start < 0 {
				start = i
			}
			d++
		case c == ')':
			d--
			if d == 0 {
				out = append(out, s[start:i+1])
				start = -1
			}
		case c == ' ' || c == '\n' || c == '\t':
			if d == 0 && start >= 0 {
				out = append(out, s[start:i])
				start = -1
			}
		default:
			if d == 0 && start < 0 {
				start = i
			}
		}
	}
	if start >= 0 {
		out = append(out, s[start:])
	}
	return out
}
