package engine

import (
	"fmt"
	"go/constant"
	"go/types"
	"strings"

	"golang.org/x/tools/go/ssa"
)

// LibContractsUsed records which assumed library contracts were applied (reported in evidence).
var LibContractsUsed = map[string]bool{}

func (e *fnEnc) nonNilIface(n string) {
	e.vc.assume(fmt.Sprintf("(not (= (i-tag %s) 0))", n))
}

// libCall models a call to a function outside the module.
func (e *fnEnc) libCall(v ssa.Value, fn *ssa.Function, c *ssa.CallCommon, args []string, hint string, instr ssa.Instruction) {
	name := fn.String()
	sig := fn.Signature
	used := func() { LibContractsUsed[name] = true }
	lit := func(i int) (string, bool) { return litOf(c.Args[i]) }
	substrOf := func(n, s string) {
		e.vc.assume(fmt.Sprintf("(and (= (s-base %s) (s-base %s)) (>= (s-off %s) (s-off %s)) (>= (s-len %s) 0) (<= (+ (s-off %s) (s-len %s)) (+ (s-off %s) (s-len %s))))", n, s, n, s, n, n, n, s, s))
	}
	switch name {
	case "strings.HasPrefix", "bytes.HasPrefix":
		if name == "strings.HasPrefix" {
			if l, ok := lit(1); ok && len(l) <= 32 {
				used()
				s := args[0]
				parts := []string{fmt.Sprintf("(>= (s-len %s) %d)", s, len(l))}
				for i := 0; i < len(l); i++ {
					parts = append(parts, fmt.Sprintf("(= (select (s-base %s) (+ (s-off %s) %d)) %d)", s, s, i, l[i]))
				}
				e.setVal(v, sAnd(parts...))
				return
			}
			used()
			e.setVal(v, fmt.Sprintf("(strprefix %s %s)", args[0], args[1]))
			e.vc.assume(sImp(e.val[v], fmt.Sprintf("(>= (s-len %s) (s-len %s))", args[0], args[1])))
			return
		}
	case "strings.HasSuffix":
		if l, ok := lit(1); ok && len(l) <= 32 {
			used()
			s := args[0]
			parts := []string{fmt.Sprintf("(>= (s-len %s) %d)", s, len(l))}
			for i := 0; i < len(l); i++ {
				parts = append(parts, fmt.Sprintf("(= (select (s-base %s) (+ (s-off %s) (- (s-len %s) %d) %d)) %d)", s, s, s, len(l), i, l[i]))
			}
			e.setVal(v, sAnd(parts...))
			return
		}
		used()
		e.setVal(v, fmt.Sprintf("(strsuffix %s %s)", args[0], args[1]))
		e.vc.assume(sImp(e.val[v], fmt.Sprintf("(>= (s-len %s) (s-len %s))", args[0], args[1])))
		return
	case "strings.Index", "strings.LastIndex", "strings.IndexAny", "strings.LastIndexAny":
		used()
		n := e.opaque(v)
		if name == "strings.Index" {
			// the result is a function of the two strings (contracts can name it: strIndex(s, sep))
			e.vc.def(sEq(n, fmt.Sprintf("(strindex %s %s)", args[0], args[1])))
		}
		if name == "strings.LastIndex" {
			// likewise strLastIndex(s, sep): a different function of the two strings (last, not first, occurrence)
			e.vc.def(sEq(n, fmt.Sprintf("(strlastindex %s %s)", args[0], args[1])))
		}
		e.vc.assume(fmt.Sprintf("(and (>= %s (- 1)) (or (= %s (- 1)) (<= (+ %s %s) (s-len %s))))", n, n, n,
			map[bool]string{true: fmt.Sprintf("(s-len %s)", args[1]), false: "1"}[!strings.HasSuffix(name, "Any")], args[0]))
		if l, ok := lit(1); ok && strings.HasSuffix(name, "Any") && len(l) >= 1 && len(l) <= 8 && isASCII(l) {
			// documented semantics for an ASCII character set: the byte at the result is in the set and no byte
			// after it (LastIndexAny) / before it (IndexAny) is; -1 iff no byte of s is in the set
			in := func(b string) string {
				var alts []string
				for i := 0; i < len(l); i++ {
					alts = append(alts, fmt.Sprintf("(= %s %d)", b, l[i]))
				}
				return "(or " + strings.Join(alts, " ") + " false)"
			}
			at := func(k string) string {
				return fmt.Sprintf("(select (s-base %s) (+ (s-off %s) %s))", args[0], args[0], k)
			}
			e.vc.assume(sImp(fmt.Sprintf("(>= %s 0)", n), in(at(n))))
			e.vc.nfresh++
			q := fmt.Sprintf("q!lib!%d", e.vc.nfresh)
			rng := fmt.Sprintf("(and (< %s %s) (< %s (s-len %s)))", n, q, q, args[0])
			if name == "strings.IndexAny" {
				rng = fmt.Sprintf("(and (<= 0 %s) (or (< %s %s) (< %s 0)) (< %s (s-len %s)))", q, q, n, n, q, args[0])
			}
			e.vc.assume(fmt.Sprintf("(forall ((%s Int)) (! (=> %s (not %s)) :pattern (%s)))", q, rng, in(at(q)), at(q)))
		}
		if !strings.HasSuffix(name, "Any") {
			if l, ok := lit(1); ok && len(l) >= 1 && len(l) <= 8 && name == "strings.Index" {
				// the match is found at the returned position
				var parts []string
				for i := 0; i < len(l); i++ {
					parts = append(parts, fmt.Sprintf("(= (select (s-base %s) (+ (s-off %s) %s %d)) %d)", args[0], args[0], n, i, l[i]))
				}
				e.vc.assume(sImp(fmt.Sprintf("(>= %s 0)", n), sAnd(parts...)))
				if len(l) == 1 && l[0] < 128 {
					// documented semantics for a one-byte separator: the FIRST occurrence; -1 iff the byte does not occur
					e.vc.nfresh++
					q := fmt.Sprintf("q!lib!%d", e.vc.nfresh)
					at := fmt.Sprintf("(select (s-base %s) (+ (s-off %s) %s))", args[0], args[0], q)
					rng := fmt.Sprintf("(and (<= 0 %s) (or (< %s %s) (< %s 0)) (< %s (s-len %s)))", q, q, n, n, q, args[0])
					e.vc.assume(fmt.Sprintf("(forall ((%s Int)) (! (=> %s (not (= %s %d))) :pattern (%s)))", q, rng, at, l[0], at))
				}
			}
		}
		return
	case "strings.IndexByte", "strings.LastIndexByte", "strings.IndexRune", "bytes.IndexByte":
		used()
		n := e.opaque(v)
		ln := fmt.Sprintf("(s-len %s)", args[0])
		if strings.HasPrefix(name, "bytes.") {
			ln = fmt.Sprintf("(c-len %s)", args[0])
		}
		e.vc.assume(fmt.Sprintf("(and (>= %s (- 1)) (< %s %s))", n, n, ln))
		return
	case "strings.Count":
		used()
		n := e.opaque(v)
		e.vc.assume(fmt.Sprintf("(and (>= %s 0) (<= %s (+ (s-len %s) 1)))", n, n, args[0]))
		return
	case "strings.TrimSpace", "strings.TrimLeft", "strings.TrimRight", "strings.Trim", "strings.TrimPrefix", "strings.TrimSuffix":
		used()
		n := e.opaque(v)
		substrOf(n, args[0])
		return
	case "strings.Split", "strings.SplitN":
		used()
		n := e.opaque(v)
		e.vc.assume(fmt.Sprintf("(and (> (c-ref %s) 0) (= (c-off %s) 0))", n, n))
		if l, ok := lit(1); ok && l != "" && name == "strings.Split" {
			e.vc.assume(fmt.Sprintf("(>= (c-len %s) 1)", n))
			// the last piece is a function of (s, sep): contracts can name it as splitLast(s, sep)
			ek := e.S().ElemKey(types.Typ[types.String])
			h := e.heap(ek)
			e.vc.assume(fmt.Sprintf("(= (select (select %s (c-ref %s)) (+ (c-off %s) (- (c-len %s) 1))) (splitlast %s %s))", h, n, n, n, args[0], args[1]))
		} else if l, ok := lit(1); ok && l != "" && name == "strings.SplitN" && splitNPositive(c.Args[2]) {
			// SplitN(s, sep, n) with a non-empty separator and a constant n > 0 returns between 1 and n pieces
			e.vc.assume(fmt.Sprintf("(>= (c-len %s) 1)", n))
		} else {
			e.vc.assume(fmt.Sprintf("(>= (c-len %s) 0)", n))
		}
		return
	case "strings.Fields":
		used()
		e.opaque(v)
		return
	case "strings.ToLower", "strings.ToUpper", "strings.Replace", "strings.ReplaceAll", "strings.Join", "strings.Repeat", "strings.Title":
		e.opaque(v)
		return
	case "strings.Contains":
		// a one-byte literal: exactly "some byte of s is that byte"
		if l, ok := lit(1); ok && len(l) == 1 {
			used()
			e.setVal(v, containsByteFormula(args[0], int(l[0]), e.vc))
			return
		}
		e.opaque(v)
		return
	case "strings.ContainsAny", "strings.ContainsRune", "strings.EqualFold":
		e.opaque(v)
		return
	case "unicode/utf8.RuneCountInString":
		used()
		n := e.opaque(v)
		e.vc.assume(fmt.Sprintf("(and (>= %s 0) (<= %s (s-len %s)) (= (= %s 0) (= (s-len %s) 0)))", n, n, args[0], n, args[0]))
		return
	case "unicode/utf8.RuneCount":
		used()
		n := e.opaque(v)
		e.vc.assume(fmt.Sprintf("(and (>= %s 0) (<= %s (c-len %s)) (= (= %s 0) (= (c-len %s) 0)))", n, n, args[0], n, args[0]))
		return
	case "unicode/utf8.DecodeRuneInString", "unicode/utf8.DecodeRune", "unicode/utf8.DecodeLastRuneInString", "unicode/utf8.DecodeLastRune":
		used()
		rs := e.freshResults(v, sig, hint)
		ln := fmt.Sprintf("(s-len %s)", args[0])
		if !strings.HasSuffix(name, "InString") {
			ln = fmt.Sprintf("(c-len %s)", args[0])
		}
		e.vc.assume(fmt.Sprintf("(ite (= %s 0) (= %s 0) (and (>= %s 1) (<= %s 4) (<= %s %s)))", ln, rs[1], rs[1], rs[1], rs[1], ln))
		e.vc.assume(fmt.Sprintf("(and (>= %s 0) (<= %s 1114111))", rs[0], rs[0]))
		e.bindResults(v, sig, rs)
		return
	case "unicode/utf8.RuneLen":
		used()
		n := e.opaque(v)
		e.vc.assume(fmt.Sprintf("(and (>= %s (- 1)) (<= %s 4) (not (= %s 0)))", n, n, n))
		return
	case "fmt.Errorf", "errors.New":
		used()
		n := e.opaque(v)
		e.nonNilIface(n)
		return
	case "fmt.Sprintf", "fmt.Sprint", "fmt.Sprintln":
		e.opaque(v)
		return
	case "regexp.MustCompile":
		used()
		e.vc.declFun("regexp_compiles", "(Str) Bool")
		if _, ok := lit(0); !ok {
			e.safety("extern-pre", "MustCompile", fmt.Sprintf("(regexp_compiles %s)", args[0]), instr.Pos(), "regexp.MustCompile panics unless the pattern compiles")
		}
		n := e.opaque(v)
		e.vc.assume(fmt.Sprintf("(> %s 0)", n))
		return
	case "regexp.Compile":
		used()
		e.vc.declFun("regexp_compiles", "(Str) Bool")
		rs := e.freshResults(v, sig, hint)
		e.vc.assume(fmt.Sprintf("(= (= (i-tag %s) 0) (regexp_compiles %s))", rs[1], args[0]))
		e.vc.assume(fmt.Sprintf("(= (= (i-tag %s) 0) (> %s 0))", rs[1], rs[0]))
		e.bindResults(v, sig, rs)
		return
	case "(*sync.Mutex).Lock", "(*sync.RWMutex).Lock", "(*sync.RWMutex).RLock":
		used()
		e.lockOp(c.Args[0], true, instr)
		return
	case "(*sync.Mutex).Unlock", "(*sync.RWMutex).Unlock", "(*sync.RWMutex).RUnlock":
		used()
		e.lockOp(c.Args[0], false, instr)
		return
	case "bytes.Equal":
		used()
		n := e.opaque(v)
		e.vc.assume(sImp(n, fmt.Sprintf("(= (c-len %s) (c-len %s))", args[0], args[1])))
		return
	case "(*bytes.Buffer).Grow":
		used()
		e.safety("extern-pre", "Buffer.Grow", fmt.Sprintf("(>= %s 0)", args[1]), instr.Pos(), "bytes.Buffer.Grow panics on a negative count")
		return
	case "(*bytes.Buffer).Write", "(*bytes.Buffer).WriteString", "(*bytes.Buffer).WriteByte", "(*bytes.Buffer).WriteRune":
		used()
		e.bufWrite(v, name, args, sig, hint)
		return
	case "(*bytes.Buffer).Bytes", "(*bytes.Buffer).String":
		used()
		e.bufRead(v, name, args)
		return
	case "(*bytes.Buffer).Reset":
		used()
		e.setHeap(bufLenKey, fmt.Sprintf("(store %s %s 0)", e.heap(bufLenKey), args[0]))
		e.bufClobber(args[0])
		return
	case "(*bytes.Buffer).Truncate":
		used()
		e.safety("extern-pre", "Buffer.Truncate", fmt.Sprintf("(and (>= %s 0) (<= %s (select %s %s)))", args[1], args[1], e.heap(bufLenKey), args[0]), instr.Pos(), "bytes.Buffer.Truncate panics outside [0, Len]")
		e.setHeap(bufLenKey, fmt.Sprintf("(store %s %s %s)", e.heap(bufLenKey), args[0], args[1]))
		e.bufClobber(args[0])
		return
	case "(*bytes.Buffer).Len":
		used()
		e.setVal(v, fmt.Sprintf("(select %s %s)", e.heap(bufLenKey), args[0]))
		return
	case "strconv.Itoa", "strconv.FormatInt", "strconv.Quote":
		n := e.opaque(v)
		e.vc.assume(fmt.Sprintf("(>= (s-len %s) 1)", n))
		return
	}
	if stdlibCallbacks[name] {
		if cs := e.vc.P.callbackSummary(c); cs != nil && !cs.All {
			e.havocSummary(cs, false)
		} else {
			e.havocSummary(nil, true)
		}
	}
	if stdlibArgWriters[name] {
		w := map[string]bool{}
		for _, a := range c.Args {
			e.vc.P.typeKeys(a.Type(), w)
			if mi, ok := a.(*ssa.MakeInterface); ok {
				e.vc.P.typeKeys(mi.X.Type(), w)
			}
		}
		e.havocSummary(&Summary{Writes: w}, false)
	}
	e.bindResults(v, sig, e.freshResults(v, sig, hint))
}

var bufLenKey = HeapKey{Name: "BUF!len", Sort: "(Array Int Int)"}
var bufDataKey = HeapKey{Name: "BUF!data", Sort: "(Array Int (Array Int Int))"}

// bufWrite models bytes.Buffer appends on ghost (length, contents) state keyed by the buffer reference.
func (e *fnEnc) bufWrite(v ssa.Value, name string, args []string, sig *types.Signature, hint string) {
	b := args[0]
	lenH, dataH := e.heap(bufLenKey), e.heap(bufDataKey)
	oldLen := fmt.Sprintf("(select %s %s)", lenH, b)
	oldData := fmt.Sprintf("(select %s %s)", dataH, b)
	e.vc.nfresh++
	bv := fmt.Sprintf("q!bj!%d", e.vc.nfresh)
	var n, src string // appended length and accessor for byte i of the source
	switch name {
	case "(*bytes.Buffer).Write":
		row := fmt.Sprintf("(select %s (c-ref %s))", e.heap(e.S().ElemKey(types.Typ[types.Uint8])), args[1])
		n = fmt.Sprintf("(c-len %s)", args[1])
		src = fmt.Sprintf("(select %s (+ (c-off %s) %s))", row, args[1], bv)
	case "(*bytes.Buffer).WriteString":
		n = fmt.Sprintf("(s-len %s)", args[1])
		src = fmt.Sprintf("(select (s-base %s) (+ (s-off %s) %s))", args[1], args[1], bv)
	case "(*bytes.Buffer).WriteByte":
		n = "1"
		src = args[1]
	default:
		nn := e.vc.fresh("runelen", "Int")
		e.vc.assume(fmt.Sprintf("(and (>= %s 1) (<= %s 4))", nn, nn))
		n = nn
		src = ""
	}
	newData := e.vc.fresh("bufdata", "(Array Int Int)")
	e.vc.assume(fmt.Sprintf("(forall ((%s Int)) (! (=> (and (<= 0 %s) (< %s %s)) (= (select %s %s) (select %s %s))) :pattern ((select %s %s))))", bv, bv, bv, oldLen, newData, bv, oldData, bv, newData, bv))
	if src != "" {
		srcAt := strings.ReplaceAll(src, " "+bv+")", fmt.Sprintf(" (- %s %s))", bv, oldLen))
		if name == "(*bytes.Buffer).WriteByte" {
			srcAt = src
		}
		e.vc.assume(fmt.Sprintf("(forall ((%s Int)) (! (=> (and (<= %s %s) (< %s (+ %s %s))) (= (select %s %s) %s)) :pattern ((select %s %s))))", bv, oldLen, bv, bv, oldLen, n, newData, bv, srcAt, newData, bv))
	}
	e.setHeap(bufLenKey, fmt.Sprintf("(store %s %s (+ %s %s))", lenH, b, oldLen, n))
	e.setHeap(bufDataKey, fmt.Sprintf("(store %s %s %s)", dataH, b, newData))
	e.bufClobber(b)
	rs := e.freshResults(v, sig, hint)
	if len(rs) >= 1 && name != "(*bytes.Buffer).WriteByte" {
		e.vc.assume(sEq(rs[0], n))
	}
	if len(rs) >= 1 {
		last := rs[len(rs)-1]
		e.vc.assume(fmt.Sprintf("(= (i-tag %s) 0)", last))
	}
	e.bindResults(v, sig, rs)
}

func (e *fnEnc) bufRead(v ssa.Value, name string, args []string) {
	b := args[0]
	ln := fmt.Sprintf("(select %s %s)", e.heap(bufLenKey), b)
	data := fmt.Sprintf("(select %s %s)", e.heap(bufDataKey), b)
	if name == "(*bytes.Buffer).String" {
		e.setVal(v, fmt.Sprintf("(mk-str %s 0 %s)", data, ln))
		return
	}
	r := fmt.Sprintf("(select %s %s)", e.heap(bufRefKey), b)
	ek := e.S().ElemKey(types.Typ[types.Uint8])
	e.setHeap(ek, fmt.Sprintf("(store %s %s %s)", e.heap(ek), r, data))
	capn := e.vc.fresh("bufcap", "Int")
	e.vc.assume(fmt.Sprintf("(>= %s %s)", capn, ln))
	e.setVal(v, fmt.Sprintf("(mk-slc %s 0 %s %s)", r, ln, capn))
}

// bufClobber: a slice obtained from Bytes() aliases the buffer's backing array, so any later
// mutation of the buffer makes its contents unknown (sound over-approximation of both the
// in-place and the reallocated case).
func (e *fnEnc) bufClobber(b string) {
	r := fmt.Sprintf("(select %s %s)", e.heap(bufRefKey), b)
	ek := e.S().ElemKey(types.Typ[types.Uint8])
	row := e.vc.fresh("clobbered", "(Array Int Int)")
	e.setHeap(ek, fmt.Sprintf("(store %s %s %s)", e.heap(ek), r, row))
}

var bufRefKey = HeapKey{Name: "BUF!ref", Sort: "(Array Int Int)"}

var lockKey = HeapKey{Name: "LOCK!held", Sort: "(Array Int Bool)"}

func (e *fnEnc) lockOp(mu ssa.Value, acquire bool, instr ssa.Instruction) {
	addr := e.term(mu)
	h := e.heap(lockKey)
	if acquire {
		if e.vc.Opt.SafetyKinds["lock"] && !e.inlineAssume {
			name := e.vc.ordinal(fmt.Sprintf("%s#lock:acquire", FuncKey(e.fn)))
			e.vc.oblige(&Obligation{Name: name, Kind: "lock", Guard: e.guard(), Cond: fmt.Sprintf("(not (select %s %s))", h, addr), Props: e.vc.Opt.SafetyProps, Pos: instr.Pos(), Src: "mutex is not already held (self-deadlock)"})
		}
		e.setHeap(lockKey, fmt.Sprintf("(store %s %s true)", h, addr))
	} else {
		e.setHeap(lockKey, fmt.Sprintf("(store %s %s false)", h, addr))
	}
}

// libInvoke models interface method calls whose implementations all live outside the module.
func (e *fnEnc) libInvoke(v ssa.Value, c *ssa.CallCommon, hint string) bool {
	switch c.Method.Name() {
	case "Error", "String":
		if v != nil {
			e.opaque(v)
		}
		return true
	}
	return false
}

// zeroBufAtAlloc: a freshly allocated bytes.Buffer is empty.
func (e *fnEnc) initBufIfBuffer(ref string, T types.Type) {
	if types.TypeString(T, nil) == "bytes.Buffer" {
		lenH := e.heap(bufLenKey)
		e.setHeap(bufLenKey, fmt.Sprintf("(store %s %s 0)", lenH, ref))
		r := e.freshRefRaw("bufarr")
		e.setHeap(bufRefKey, fmt.Sprintf("(store %s %s %s)", e.heap(bufRefKey), ref, r))
	}
}

func isASCII(s string) bool {
	for i := 0; i < len(s); i++ {
		if s[i] >= 128 {
			return false
		}
	}
	return true
}

// containsByteFormula: some byte of the string term s equals c (the semantics of strings.Contains(s, "c") for a
// one-byte literal); used by the library model and by the spec builtin containsByte so that both sides read alike.
func containsByteFormula(s string, c int, vc *VC) string {
	vc.nfresh++
	q := fmt.Sprintf("q!cb!%d", vc.nfresh)
	return fmt.Sprintf("(exists ((%s Int)) (and (<= 0 %s) (< %s (s-len %s)) (= (select (s-base %s) (+ (s-off %s) %s)) %d)))", q, q, q, s, s, s, q, c)
}

// splitNPositive reports whether v is an integer constant greater than zero.
func splitNPositive(v ssa.Value) bool {
	c, ok := v.(*ssa.Const)
	if !ok || c.Value == nil || c.Value.Kind() != constant.Int {
		return false
	}
	n, exact := constant.Int64Val(c.Value)
	return exact && n > 0
}
