package engine

import (
	"encoding/json"
	"fmt"
	"os"
	"path/filepath"
	"sort"
	"strings"
	"sync"
	"time"

	"golang.org/x/tools/go/ssa"
)

var AllSafetyKinds = []string{"bounds", "nil", "assert-type", "div", "extern-pre", "shift", "panic"}

type OblResult struct {
	Obl    *Obligation
	Res    SolveResult
	OK     bool
	Status string // discharged, failed, cover-ok, cover-failed, known, canary-ok
}

type FuncReport struct {
	Fn       string
	Notes    []string
	Results  []*OblResult
	Err      string
	Inferred map[int][]string
	Rounds   int
}

type CheckConfig struct {
	Property string
	Tier     string
	WorkDir  string
	VerifDir string
	Timeout  int
	Jobs     int
	Only     string // substring filter on function key (debugging)
	Verbose  bool
	NoRetry  bool
}

func hasProp(ps []string, p string) bool {
	for _, x := range ps {
		if x == p {
			return true
		}
	}
	return false
}

// contractMentions reports whether contract c carries anything for property p.
func contractMentions(c *FuncContract, p string) bool {
	if hasProp(c.Props, p) || hasProp(c.Extra["sweep"], p) {
		return true
	}
	for _, cls := range [][]*Clause{c.Requires, c.Ensures, c.Invs, c.Decs} {
		for _, cl := range cls {
			if hasProp(cl.Props, p) {
				return true
			}
		}
	}
	if c.Measure != nil && hasProp(c.Measure.Props, p) {
		return true
	}
	return false
}

// FunctionsFor lists the contracted functions relevant to property p, with orphaned contract names.
func (p *Program) FunctionsFor(prop string) (fns []*ssa.Function, orphaned []string) {
	var keys []string
	for k := range p.Contracts.Funcs {
		keys = append(keys, k)
	}
	sort.Strings(keys)
	for _, k := range keys {
		c := p.Contracts.Funcs[k]
		if !contractMentions(c, prop) || c.Trusted {
			continue
		}
		fn := p.Funcs[k]
		if fn == nil {
			orphaned = append(orphaned, k)
			continue
		}
		fns = append(fns, fn)
	}
	return
}

func pkgOf(fn *ssa.Function) string {
	if fn.Pkg != nil {
		return fn.Pkg.Pkg.Path()
	}
	if fn.Parent() != nil {
		return pkgOf(fn.Parent())
	}
	return ""
}

// CheckFunction encodes fn for property prop and solves its obligations.
func (p *Program) CheckFunction(fn *ssa.Function, cfg *CheckConfig) *FuncReport {
	rep := &FuncReport{Fn: FuncKey(fn), Inferred: map[int][]string{}}
	c := p.Contract(fn)
	opt := VCOptions{SafetyKinds: map[string]bool{}, SafetyProps: []string{cfg.Property}, InlineDepth: 0, CandidateInvs: map[int][]*Clause{}}
	if c != nil && hasProp(c.Extra["sweep"], cfg.Property) {
		for _, k := range AllSafetyKinds {
			opt.SafetyKinds[k] = true
		}
		for _, k := range c.Extra["sweep"] {
			if strings.HasPrefix(k, "-") {
				delete(opt.SafetyKinds, k[1:])
			}
		}
		opt.InlineDepth = 3
	}
	if c != nil {
		for _, o := range c.Extra["opt"] {
			for _, f := range strings.Fields(o) {
				switch {
				case f == "inline":
					opt.InlineDepth = 3
				case f == "lock":
					opt.SafetyKinds["lock"] = true
				}
			}
		}
	}
	// template invariants are inferred for the property a function is swept for (or on request: "opt infer")
	infer := c != nil && (hasProp(c.Extra["sweep"], cfg.Property) || len(c.Extra["opt"]) > 0 && strings.Contains(strings.Join(c.Extra["opt"], " "), "infer"))
	vc := NewVC(p, fn, opt)
	if infer {
		cands, err := vc.candidateInvariants()
		if err != nil {
			rep.Err = err.Error()
			return rep
		}
		vc.Opt.CandidateInvs = cands
		if err := p.houdini(vc, cfg, rep); err != nil {
			rep.Err = err.Error()
			return rep
		}
	}
	if err := vc.Encode(); err != nil {
		rep.Err = err.Error()
		return rep
	}
	axioms, err := vc.CompileAxioms(pkgOf(fn))
	if err != nil {
		rep.Err = err.Error()
		return rep
	}
	rep.Notes = vc.Notes
	var todo []*Obligation
	for _, o := range vc.Obligations() {
		if hasProp(o.Props, cfg.Property) {
			todo = append(todo, o)
		}
	}
	rep.Results = solveAll(vc, axioms, todo, cfg)
	if c != nil && len(c.Assigns) > 0 && hasProp(c.AllProps(), cfg.Property) {
		bad, dyn := p.FrameViolations(fn, c)
		o := &Obligation{Name: FuncKey(fn) + "#frame:assigns", Kind: "frame", Fn: FuncKey(fn), Props: c.AllProps(), Cond: "frame", Src: "assigns " + strings.Join(c.Assigns, " ")}
		r := &OblResult{Obl: o, OK: len(bad) == 0, Status: "discharged", Res: SolveResult{Status: "unsat", Solver: "write-summary"}}
		if len(bad) > 0 {
			r.Status = "failed"
			r.Res.Status = "frame-violated"
			r.Res.Output = "the function's transitive write summary contains keys outside its assigns clause: " + strings.Join(bad, ", ")
		}
		if dyn {
			rep.Notes = append(rep.Notes, "ASSUMED frame: "+FuncKey(fn)+" calls a function value whose target is not statically known; its effect is taken to be within the assigns clause")
		}
		rep.Results = append(rep.Results, r)
	}
	return rep
}

func solveAll(vc *VC, axioms *AxiomSet, todo []*Obligation, cfg *CheckConfig) []*OblResult {
	out := make([]*OblResult, len(todo))
	var wg sync.WaitGroup
	sem := make(chan struct{}, cfg.Jobs)
	for i, o := range todo {
		wg.Add(1)
		sem <- struct{}{}
		go func(i int, o *Obligation) {
			defer wg.Done()
			defer func() { <-sem }()
			q := vc.Query(o, axioms)
			r := Solve(cfg.WorkDir, o.Name, q, cfg.Timeout, cfg.Tier == "thorough" && !o.Cover)
			or := &OblResult{Obl: o, Res: r}
			switch {
			case o.Cover:
				// only "unsat" refutes reachability; unknown / timeout (quantified hypotheses, load) do not
				or.OK = r.Status == "sat" || r.Status == "unknown" || r.Status == "timeout"
				or.Status = map[bool]string{true: "cover-ok", false: "cover-failed"}[or.OK]
			case o.Canary:
				or.OK = r.Status != "unsat"
				or.Status = map[bool]string{true: "canary-ok", false: "canary-passed-vacuous"}[or.OK]
			default:
				or.OK = r.Status == "unsat"
				or.Status = map[bool]string{true: "discharged", false: "failed"}[or.OK]
			}
			out[i] = or
		}(i, o)
	}
	wg.Wait()
	// Undecided answers (timeout/unknown) are often an artefact of the parallel load: retry them one at a
	// time with a longer limit before reporting them. A "sat" answer is never retried.
	for i, or := range out {
		if or == nil || or.OK || or.Obl.Cover || or.Obl.Canary || cfg.NoRetry {
			continue
		}
		if or.Res.Status == "timeout" || or.Res.Status == "unknown" || or.Res.Status == "error" {
			q := vc.Query(or.Obl, axioms)
			r := Solve(cfg.WorkDir, or.Obl.Name+".retry", q, cfg.Timeout*3, false)
			if r.Status == "unsat" {
				out[i] = &OblResult{Obl: or.Obl, Res: r, OK: true, Status: "discharged"}
			}
		}
	}
	return out
}

// ---------- evidence ----------

type Evidence struct {
	PropertyID  string                 `json:"property_id"`
	Tier        string                 `json:"tier"`
	Seed        int                    `json:"seed"`
	Level       string                 `json:"level"`
	Coverage    map[string]interface{} `json:"coverage"`
	Assumptions []string               `json:"assumptions"`
	WallS       float64                `json:"wall_s"`
	Violations  int                    `json:"violations"`
}

type KnownFinding struct {
	Property   string `json:"property"`
	Obligation string `json:"obligation"`
	What       string `json:"what"`
	Witness    string `json:"witness,omitempty"`
	Status     string `json:"status"` // open | fixed
	Commit     string `json:"commit,omitempty"`
}

type KnownFindings struct {
	Findings []KnownFinding `json:"findings"`
	Fixed    []string       `json:"fixed"`
}

func LoadKnownFindings(path string) *KnownFindings {
	kf := &KnownFindings{}
	data, err := os.ReadFile(path)
	if err != nil {
		return kf
	}
	_ = json.Unmarshal(data, kf)
	return kf
}

func (kf *KnownFindings) Match(prop, obl string) *KnownFinding {
	for i := range kf.Findings {
		f := &kf.Findings[i]
		if f.Property == prop && f.Obligation == obl && f.Status != "fixed" {
			return f
		}
	}
	return nil
}

// RunCheck is the entry point for `lhv check`.
func RunCheck(p *Program, cfg *CheckConfig, seed int) int {
	start := time.Now()
	fns, orphaned := p.FunctionsFor(cfg.Property)
	kf := LoadKnownFindings(filepath.Join(cfg.VerifDir, "known_findings.json"))
	var reports []*FuncReport
	for _, fn := range fns {
		if cfg.Only != "" && !strings.Contains(FuncKey(fn), cfg.Only) {
			continue
		}
		t0 := time.Now()
		rep := p.CheckFunction(fn, cfg)
		if os.Getenv("LHV_PROF") != "" {
			fmt.Fprintf(os.Stderr, "PROF %.2f %d %s\n", time.Since(t0).Seconds(), len(rep.Results), FuncKey(fn))
		}
		reports = append(reports, rep)
	}
	lemmaRep := p.CheckLemmas(cfg)
	if lemmaRep != nil {
		reports = append(reports, lemmaRep)
	}
	// tally
	total, discharged, covers, coverOK := 0, 0, 0, 0
	byBackend := map[string]int{}
	solverTime := 0.0
	var samples []map[string]interface{}
	var failures []*OblResult
	var bindFailures [][2]string
	var slowest []slowObl
	var engineErrors []string
	notes := map[string]bool{}
	var fnNames []string
	nontrivial := 0
	known := 0
	for _, rep := range reports {
		fnNames = append(fnNames, rep.Fn)
		if rep.Err != "" {
			// the contract no longer fits the code (a clause names a variable, loop or call site that is gone, or the
			// function left the modelled subset): none of the function's obligations can be established any more
			bindFailures = append(bindFailures, [2]string{rep.Fn, rep.Err})
		}
		for _, n := range rep.Notes {
			notes[n] = true
		}
		for _, r := range rep.Results {
			solverTime += r.Res.Time
			if r.Obl.Cover {
				covers++
				if r.OK {
					coverOK++
				} else {
					engineErrors = append(engineErrors, "vacuity: "+r.Obl.Name+" is not satisfiable ("+r.Res.Status+")")
				}
				continue
			}
			total++
			if r.Obl.Cond != "true" {
				nontrivial++
			}
			if r.OK {
				discharged++
				byBackend[r.Res.Solver]++
				slowest = append(slowest, slowObl{r.Obl.Name, r.Res.Solver, r.Res.Time})
			} else {
				failures = append(failures, r)
			}
			if len(samples) < 14 || !r.OK {
				samples = append(samples, map[string]interface{}{"obligation": r.Obl.Name, "kind": r.Obl.Kind, "function": r.Obl.Fn, "status": r.Status,
					"solver": r.Res.Solver, "time_s": round3(r.Res.Time), "smt_bytes": r.Res.Size, "clause": r.Obl.Src, "at": p.posString(r.Obl)})
			}
		}
	}
	exit := 0
	var lines []string
	violations := 0
	replayDir := filepath.Join(cfg.VerifDir, "replays", cfg.Property)
	if cfg.Only == "" {
		_ = os.RemoveAll(replayDir) // replay files describe the latest run only
	}
	for _, f := range failures {
		if k := kf.Match(cfg.Property, f.Obl.Name); k != nil {
			lines = append(lines, fmt.Sprintf("KNOWN-FINDING: property=%s %s [%s]", cfg.Property, k.What, f.Obl.Name))
			known++
			total-- // not part of what this run proves: reported separately as known_findings_hit
			continue
		}
		if f.Res.Status == "error" {
			// the solvers rejected the query (ill-formed SMT): a defect of the encoding, never a verdict on the code
			engineErrors = append(engineErrors, fmt.Sprintf("solver error on %s: %s", f.Obl.Name, truncate(firstLine(f.Res.Output), 300)))
			total--
			continue
		}
		violations++
		path := p.writeReplay(replayDir, cfg, f)
		suffix := ""
		if f.Res.Model == "" || true {
			suffix = " no-failing-input-found"
		}
		if rp := p.tryReplay(cfg, f, path); rp != "" {
			suffix = " " + rp
		}
		lines = append(lines, fmt.Sprintf("VIOLATION property=%s replay=%s obligation=%s status=%s%s", cfg.Property, path, f.Obl.Name, f.Res.Status, suffix))
		exit = 1
	}
	// bounded stand-ins: safety obligations a contract declares "unchecked" (assumed: their justification lies outside
	// the modelled subset, e.g. in a regular expression) are exercised on the REAL function for every small input;
	// a panic found there is a violation with its input, no panic is reported as a bounded check - never as a proof.
	var bounded []map[string]interface{}
	if cfg.Only == "" || os.Getenv("LHV_BOUNDED") != "" {
		type bres struct {
			fn, anchors, verdict, path string
		}
		var jobs []*ssa.Function
		for _, fn := range fns {
			if cfg.Only != "" && !strings.Contains(FuncKey(fn), cfg.Only) {
				continue
			}
			c := p.Contract(fn)
			if c == nil || !hasProp(c.Extra["sweep"], cfg.Property) {
				continue
			}
			for _, u := range c.Extra["unchecked"] {
				if safetyKinds[strings.SplitN(u, ":", 2)[0]] {
					jobs = append(jobs, fn)
					break
				}
			}
		}
		results := make([]bres, len(jobs))
		var wg sync.WaitGroup
		for i, fn := range jobs {
			wg.Add(1)
			go func(i int, fn *ssa.Function) {
				defer wg.Done()
				c := p.Contract(fn)
				var anchors []string
				for _, u := range c.Extra["unchecked"] {
					if safetyKinds[strings.SplitN(u, ":", 2)[0]] {
						anchors = append(anchors, u)
					}
				}
				name := FuncKey(fn) + "#bounded:unchecked-safety"
				_ = os.MkdirAll(replayDir, 0o755)
				path := filepath.Join(replayDir, sanitizeFile(name)+".json")
				rec := map[string]interface{}{"property": cfg.Property, "obligation": name, "kind": "bounded", "function": FuncKey(fn),
					"clause": "no panic at the safety obligations declared unchecked: " + strings.Join(anchors, ", "), "solver_status": "not-a-proof"}
				data, _ := json.MarshalIndent(rec, "", " ")
				_ = os.WriteFile(path, data, 0o644)
				sub := *cfg
				sub.WorkDir = filepath.Join(cfg.WorkDir, fmt.Sprintf("bounded%d", i))
				_ = os.MkdirAll(sub.WorkDir, 0o755)
				pseudo := &OblResult{Obl: &Obligation{Name: name, Kind: "bounds", Fn: FuncKey(fn), Src: "bounded stand-in"}}
				results[i] = bres{FuncKey(fn), strings.Join(anchors, ", "), p.tryWitness(&sub, pseudo, path), path}
			}(i, fn)
		}
		wg.Wait()
		for _, r := range results {
			how := "every input of small size over the function's byte constants, real function under recover(), go test -overlay (bounded, not a proof)"
			if r.verdict != "" {
				violations++
				lines = append(lines, fmt.Sprintf("VIOLATION property=%s replay=%s obligation=%s#bounded:unchecked-safety status=panics %s", cfg.Property, r.path, r.fn, r.verdict))
				exit = 1
				bounded = append(bounded, map[string]interface{}{"function": r.fn, "stands_in_for": r.anchors, "result": r.verdict, "how": how})
			} else {
				bounded = append(bounded, map[string]interface{}{"function": r.fn, "stands_in_for": r.anchors, "result": "no panic for any enumerated input", "how": how})
				if os.Getenv("LHV_KEEP") == "" {
					_ = os.Remove(r.path)
					_ = os.Remove(strings.TrimSuffix(r.path, ".json") + ".witness_test.go.txt")
				}
			}
		}
	}
	// bounded differential checks kept as Go tests under <verif>/bounded (header: "// lhv-bounded property=Cxx name=... bound=...");
	// they exercise functions that are outside the modelled subset on the real code, for every input up to the stated
	// bound, against an oracle taken from the property - labelled bounded, never counted as obligations
	if cfg.Only == "" || os.Getenv("LHV_BOUNDED") != "" {
		files, _ := filepath.Glob(filepath.Join(cfg.VerifDir, "bounded", "*.go.txt"))
		sort.Strings(files)
		for _, f := range files {
			data, err := os.ReadFile(f)
			if err != nil {
				continue
			}
			first := strings.SplitN(string(data), "\n", 2)[0]
			if !strings.Contains(first, "lhv-bounded") || !strings.Contains(first, "property="+cfg.Property+" ") {
				continue
			}
			name := filepath.Base(f)
			boundTxt := ""
			if i := strings.Index(first, "bound="); i >= 0 {
				boundTxt = first[i+6:]
			}
			sub := filepath.Join(cfg.WorkDir, "bounded-"+name)
			_ = os.MkdirAll(sub, 0o755)
			out, ok := runGoTestOverlay(p.RepoDir, f, sub)
			res := "holds for every enumerated input"
			if !ok {
				// failure lines "[known:KEY] ..." belong to a failure class the test itself singles out; such a class counts
				// as a known finding only if known_findings.json lists <name>#bounded[KEY] as open; every other line is a violation
				base := strings.TrimSuffix(name, "_test.go.txt")
				var unknown, knownMsgs []string
				seenKey := map[string]bool{}
				for _, l := range strings.Split(out, "\n") {
					i := strings.Index(l, "zz_lhv_replay_test.go:")
					if i < 0 {
						continue
					}
					m := strings.TrimSpace(l[i+len("zz_lhv_replay_test.go:"):])
					if j := strings.Index(m, "[known:"); j >= 0 {
						if e := strings.Index(m[j:], "]"); e > 0 {
							key := m[j+7 : j+e]
							if k := kf.Match(cfg.Property, base+"#bounded["+key+"]"); k != nil {
								if seenKey[key] {
									continue // one line per recorded finding, however many of its assertions fail
								}
								seenKey[key] = true
								knownMsgs = append(knownMsgs, fmt.Sprintf("KNOWN-FINDING: property=%s %s [%s#bounded[%s]]", cfg.Property, k.What, base, key))
								continue
							}
						}
					}
					unknown = append(unknown, m)
				}
				lines = append(lines, knownMsgs...)
				known += len(knownMsgs)
				if len(unknown) > 0 || len(knownMsgs) == 0 {
					msg := ""
					if len(unknown) > 0 {
						msg = unknown[0]
					}
					violations++
					exit = 1
					res = "fails: " + truncate(msg, 200)
					lines = append(lines, fmt.Sprintf("VIOLATION property=%s replay=%s obligation=%s#bounded status=fails replayed-on-the-real-code: %s", cfg.Property, f, base, truncate(msg, 200)))
				} else {
					res = "holds for every enumerated input outside the recorded known finding(s)"
				}
			}
			bounded = append(bounded, map[string]interface{}{"function": name, "stands_in_for": "functions outside the modelled subset (see the test's header)", "result": res,
				"how": "Go test with an oracle taken from the property, run on the real code with go test -overlay; bound: " + boundTxt + " (bounded, not a proof)"})
		}
	}
	for _, o := range orphaned {
		bindFailures = append(bindFailures, [2]string{o, "the function this contract is written for no longer exists"})
	}
	for _, bf := range bindFailures {
		violations++
		_ = os.MkdirAll(replayDir, 0o755)
		name := bf[0] + "#contract-binding"
		path := filepath.Join(replayDir, sanitizeFile(name)+".json")
		rec := map[string]interface{}{"property": cfg.Property, "obligation": name, "kind": "contract-binding", "function": bf[0],
			"clause": "every clause of the function's contract binds to the code (named variables, loops and call sites exist; the body is inside the modelled subset)",
			"solver_status": "not-generated", "solver_output": bf[1],
			"note": "the obligations of this function were generated and discharged on the unchanged tree; on this tree they cannot be generated: " + bf[1]}
		data, _ := json.MarshalIndent(rec, "", " ")
		_ = os.WriteFile(path, data, 0o644)
		lines = append(lines, fmt.Sprintf("VIOLATION property=%s replay=%s obligation=%s status=contract-does-not-bind (%s) no-failing-input-found", cfg.Property, path, name, truncate(firstLine(bf[1]), 200)))
		exit = 1
	}
	engineErrors = append(engineErrors, p.FrozenErrors...)
	if total == 0 && len(engineErrors) == 0 {
		engineErrors = append(engineErrors, "no obligations generated for "+cfg.Property)
	}
	if len(engineErrors) > 0 && exit == 0 {
		exit = 2
	}
	for _, l := range lines {
		fmt.Println(l)
	}
	for _, e := range engineErrors {
		fmt.Println("ENGINE-ERROR:", e)
	}
	for _, o := range orphaned {
		fmt.Println("ORPHANED-CONTRACT:", o)
	}
	var assumptions []string
	assumptions = append(assumptions, StandingAssumptions...)
	var ns []string
	for n := range notes {
		ns = append(ns, n)
	}
	sort.Strings(ns)
	for _, n := range ns {
		assumptions = append(assumptions, "abstraction: "+n)
	}
	var libs []string
	for l := range LibContractsUsed {
		libs = append(libs, l)
	}
	sort.Strings(libs)
	if len(libs) > 0 {
		assumptions = append(assumptions, "assumed library contracts: "+strings.Join(libs, ", "))
	}
	for _, k := range sortedContractKeys(p) {
		if c := p.Contracts.Funcs[k]; c.Trusted && contractMentions(c, cfg.Property) {
			assumptions = append(assumptions, "trusted contract (body not checked): "+k)
		}
	}
	assumptions = append(assumptions, p.undischargedPreconditions(fns)...)
	sort.Strings(fnNames)
	// stability margin: the discharged obligations that came closest to the time limit
	sort.Slice(slowest, func(i, j int) bool { return slowest[i].t > slowest[j].t })
	var slowList []map[string]interface{}
	for i, so := range slowest {
		if i >= 5 {
			break
		}
		slowList = append(slowList, map[string]interface{}{"obligation": so.name, "solver": so.solver, "time_s": round3(so.t)})
		if os.Getenv("LHV_SLOW") != "" && so.t > 2 {
			fmt.Printf("SLOW: %s %.2fs %s\n", so.name, so.t, so.solver)
		}
	}
	ev := Evidence{PropertyID: cfg.Property, Tier: cfg.Tier, Seed: seed, Level: "proof", WallS: round3(time.Since(start).Seconds()), Violations: violations,
		Assumptions: assumptions,
		Coverage: map[string]interface{}{
			"obligations": total, "discharged": discharged, "slowest_discharged": slowList, "bounded_checks": bounded,
			"discharged_by_solver": discharged, "known_findings_hit": known,
			"checker_cmd":  fmt.Sprintf("lhv check --property %s --tier %s (z3-new/z3/cvc5 raced per obligation, timeout %ds)", cfg.Property, cfg.Tier, cfg.Timeout),
			"trusted_base": []string{"golang.org/x/tools/go/ssa v0.29.0 (SSA construction)", "go/types", "z3 5.1.0", "z3 4.8.12", "cvc5 1.0.3", "lhv VC generator (/verif/internal/engine)"},
			"functions_under_contract": fnNames, "by_backend": byBackend, "solver_time_s": round3(solverTime),
			"covers": map[string]int{"checked": covers, "sat": coverOK}, "samples": samples,
			"evaluations": total, "distinct_nontrivial": nontrivial,
			"rule":               "one evaluation = one named proof obligation generated from the SSA of /repo's current tree; non-trivial = the obligation's goal is not syntactically true",
			"orphaned_contracts": orphaned, "engine_errors": engineErrors, "contract_source": p.ContractSource,
		}}
	if known > 0 {
		ev.Coverage["note"] = fmt.Sprintf("%d further obligation(s) fail with a recorded known finding; they are counted neither as obligations nor as discharged", known)
	}
	_ = os.MkdirAll(filepath.Join(cfg.VerifDir, "evidence"), 0o755)
	data, _ := json.MarshalIndent(ev, "", " ")
	_ = os.WriteFile(filepath.Join(cfg.VerifDir, "evidence", cfg.Property+".json"), data, 0o644)
	fmt.Printf("SUMMARY property=%s tier=%s functions=%d obligations=%d discharged=%d known=%d violations=%d covers=%d/%d wall=%.1fs exit=%d\n",
		cfg.Property, cfg.Tier, len(reports), total, discharged, known, violations, coverOK, covers, time.Since(start).Seconds(), exit)
	return exit
}

func sortedContractKeys(p *Program) []string {
	var ks []string
	for k := range p.Contracts.Funcs {
		ks = append(ks, k)
	}
	sort.Strings(ks)
	return ks
}

func round3(f float64) float64 { return float64(int(f*1000+0.5)) / 1000 }

func (p *Program) posString(o *Obligation) string {
	if !o.Pos.IsValid() || p.Fset == nil {
		return ""
	}
	pos := p.Fset.Position(o.Pos)
	rel, err := filepath.Rel(p.RepoDir, pos.Filename)
	if err != nil {
		rel = pos.Filename
	}
	return fmt.Sprintf("%s:%d", rel, pos.Line)
}

func (p *Program) writeReplay(dir string, cfg *CheckConfig, f *OblResult) string {
	_ = os.MkdirAll(dir, 0o755)
	path := filepath.Join(dir, sanitizeFile(f.Obl.Name)+".json")
	model := ""
	if f.Res.Status == "sat" {
		model = GetModel(f.Res.File, cfg.Timeout)
		f.Res.Model = model
	}
	smt, _ := os.ReadFile(f.Res.File)
	rec := map[string]interface{}{
		"property": cfg.Property, "obligation": f.Obl.Name, "kind": f.Obl.Kind, "function": f.Obl.Fn,
		"clause": f.Obl.Src, "at": p.posString(f.Obl), "solver_status": f.Res.Status, "solver": f.Res.Solver,
		"solver_output": truncate(f.Res.Output, 4000), "model": truncate(model, 20000), "answers": f.Res.Answers,
		"smt2": truncate(string(smt), 400000),
	}
	data, _ := json.MarshalIndent(rec, "", " ")
	_ = os.WriteFile(path, data, 0o644)
	return path
}

func truncate(s string, n int) string {
	if len(s) > n {
		return s[:n] + "\n...[truncated]"
	}
	return s
}

// StandingAssumptions are repeated in every evidence file (DESIGN.md section 2.2 and 4).
var StandingAssumptions = []string{
	"verified text = go/ssa IR of /repo's current working tree built with -tags verif (comment-only contract files); no function is re-typed by hand",
	"int/int64/uint64 arithmetic is mathematical (overflow not modelled); sized integer types up to 32 bits wrap exactly",
	"bit operations with one constant operand are exact; with two variable operands they are uninterpreted",
	"strings are (base array, offset, length) triples; string equality with a literal is exact, otherwise an uninterpreted relation implying equal length",
	"append always yields a fresh backing array (aliasing through shared backing arrays is not modelled)",
	"callees without a contract: result unconstrained, heap havocked by the callee's transitive write summary; library functions are assumed not to write program-visible heap except the listed argument writers/callback takers",
	"goroutines, channels, select are not modelled; floats are reals",
	"termination is claimed only where a variant/measure obligation is listed",
	"typed nil pointers are never stored in interface values (checked as nil:typed-nil-in-interface at producers inside swept functions, assumed at type assertions)",
	"declared type invariants hold at call boundaries (assumed on entry for pointer parameters, re-proved at every exit of functions that write the type's fields)",
}

// undischargedPreconditions lists, for the functions checked in this run, every requires clause that is assumed on
// entry but has a call site in the module at which it is not proved: the calling function carries no contract for
// (any of) the clause's properties, so no obligation is generated there.  These are entry assumptions of the proof.
func (p *Program) undischargedPreconditions(fns []*ssa.Function) []string {
	want := map[*ssa.Function]bool{}
	for _, fn := range fns {
		if c := p.Contract(fn); c != nil && len(c.Requires) > 0 {
			want[fn] = true
		}
	}
	if len(want) == 0 {
		return nil
	}
	callers := map[*ssa.Function]map[string]bool{}
	for _, caller := range p.AllFuncs {
		for _, b := range caller.Blocks {
			for _, in := range b.Instrs {
				ci, ok := in.(ssa.CallInstruction)
				if !ok {
					continue
				}
				if _, isB := ci.Common().Value.(*ssa.Builtin); isB {
					continue
				}
				cs, _ := p.Callees(ci.Common())
				for _, callee := range cs {
					if !want[callee] {
						continue
					}
					cc := p.Contract(caller)
					for _, r := range p.Contract(callee).Requires {
						props := r.Props
						if len(props) == 0 {
							ct := p.Contract(callee)
							props = append(append([]string{}, ct.Props...), ct.Extra["sweep"]...)
						}
						proved := false
						for _, pr := range props {
							if cc != nil && !cc.Trusted && contractMentions(cc, pr) {
								proved = true
							}
						}
						if !proved {
							if callers[callee] == nil {
								callers[callee] = map[string]bool{}
							}
							callers[callee][caller.Name()] = true
							if os.Getenv("LHV_ENTRY") != "" {
								fmt.Printf("ENTRY-PRE\t%s\t%s\t%s\n", strings.Join(props, ","), FuncKey(callee), FuncKey(caller))
							}
						}
					}
				}
			}
		}
	}
	var out []string
	for _, fn := range fns {
		if m := callers[fn]; len(m) > 0 {
			out = append(out, "entry assumption: requires of "+FuncKey(fn)+" is not discharged at its call sites in "+strings.Join(sortedKeys(m), ", ")+" (callers not under contract for the clause's property)")
		}
	}
	return out
}

type slowObl struct {
	name, solver string
	t            float64
}
