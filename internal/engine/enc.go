package engine

import (
	"fmt"
	"go/constant"
	"go/token"
	"go/types"
	"math/big"
	"sort"
	"strings"

	"golang.org/x/tools/go/ssa"
)

// LValue is a statically resolved address: a root heap cell plus a path into the value stored there.
type LValue struct {
	Key   HeapKey
	Kind  string // field, elem, deref, global
	Ref   string // object reference (field, elem, deref)
	Idx   string // element index (elem)
	Path  []pathStep
	ElemT types.Type // type of the addressed value
	RootT types.Type // type of the value stored in the root cell
}

type pathStep struct {
	field string // datatype selector (for struct fields), or ""
	sortN string // struct sort name for field steps
	fidx  int
	idx   string     // array index term for array steps
	inT   types.Type // type of the container at this step
}

type loopInfo struct {
	head    *ssa.BasicBlock
	body    map[*ssa.BasicBlock]bool
	backs   []*ssa.BasicBlock // sources of back edges
	writes  map[string]bool
	ordinal int
	all     bool // a call in the loop may write anything
}

// fnEnc encodes one function instance (top level or inlined).
type fnEnc struct {
	resTypes map[string]types.Type // result types of the call sites recorded for lastresult()
	vc      *VC
	fn      *ssa.Function
	prefix  string
	val     map[ssa.Value]string
	lvs     map[ssa.Value]*LValue
	tuples  map[ssa.Value][]string
	reach   map[*ssa.BasicBlock]string
	heapOut map[*ssa.BasicBlock]map[string]string
	cur     map[string]string
	curBlk  *ssa.BasicBlock
	loops   map[*ssa.BasicBlock]*loopInfo
	order   []*ssa.BasicBlock
	isBack  map[[2]*ssa.BasicBlock]bool
	entryHeap map[string]string
	headHeap  map[*ssa.BasicBlock]map[string]string
	contract  *FuncContract
	top       bool
	inlineAssume bool // obligations of this instance are assumptions (inlined callee)
	rets      []retInfo
	allocs    []string
	params    map[string]TV
	closures  map[ssa.Value]*ssa.Function
	deferred  []*ssa.Defer
	iterPos   map[ssa.Value]string // Range value -> heap key name of its position
	decAtHead map[*ssa.BasicBlock][]string
	defs      map[string]string
	callOrd   map[string]int
	localAllocs []string // refs of non-escaping allocations
	localMaps   []*ssa.MakeMap
	stepSkipped map[*Clause]string
	loopEntryHeap map[*ssa.BasicBlock]map[string]string
	stepDone    map[*Clause]bool
	curInstr    ssa.Instruction
	lockAtEntry string
	loopSels    map[string]int
	hitOrd      map[string]int
	siteOrd     map[ssa.Instruction]map[string]int
}

type retInfo struct {
	guard string
	vals  []string
	heap  map[string]string
	blk   *ssa.BasicBlock
}

func (vc *VC) newFnEnc(fn *ssa.Function, prefix string, top bool) *fnEnc {
	return &fnEnc{vc: vc, fn: fn, prefix: prefix, val: map[ssa.Value]string{}, lvs: map[ssa.Value]*LValue{}, tuples: map[ssa.Value][]string{},
		reach: map[*ssa.BasicBlock]string{}, heapOut: map[*ssa.BasicBlock]map[string]string{}, loops: map[*ssa.BasicBlock]*loopInfo{},
		isBack: map[[2]*ssa.BasicBlock]bool{}, headHeap: map[*ssa.BasicBlock]map[string]string{}, top: top, params: map[string]TV{},
		closures: map[ssa.Value]*ssa.Function{}, iterPos: map[ssa.Value]string{}, decAtHead: map[*ssa.BasicBlock][]string{},
		contract: vc.P.Contract(fn)}
}

func (e *fnEnc) S() *Sorts { return e.vc.P.Sorts }

// ---------- CFG analysis ----------

func (e *fnEnc) analyseCFG() {
	fn := e.fn
	// DFS for back edges (target dominates source)
	for _, b := range fn.Blocks {
		for _, s := range b.Succs {
			if s.Dominates(b) {
				e.isBack[[2]*ssa.BasicBlock{b, s}] = true
				li := e.loops[s]
				if li == nil {
					li = &loopInfo{head: s, body: map[*ssa.BasicBlock]bool{s: true}, writes: map[string]bool{}}
					e.loops[s] = li
				}
				li.backs = append(li.backs, b)
			}
		}
	}
	// loop bodies
	for _, li := range e.loops {
		var stack []*ssa.BasicBlock
		for _, b := range li.backs {
			if !li.body[b] {
				li.body[b] = true
				stack = append(stack, b)
			}
		}
		for len(stack) > 0 {
			b := stack[len(stack)-1]
			stack = stack[:len(stack)-1]
			for _, p := range b.Preds {
				if !li.body[p] {
					li.body[p] = true
					stack = append(stack, p)
				}
			}
		}
	}
	// loop ordinals in source order of the header's position (fallback: block index)
	var heads []*ssa.BasicBlock
	for h := range e.loops {
		heads = append(heads, h)
	}
	// go/ssa creates the skeleton blocks of a loop statement when it reaches the statement, so the
	// index order of loop heads is the source order of the loop statements
	sort.Slice(heads, func(i, j int) bool { return heads[i].Index < heads[j].Index })
	for i, h := range heads {
		e.loops[h].ordinal = i
	}
	// topological order ignoring back edges (reverse postorder)
	seen := map[*ssa.BasicBlock]bool{}
	var post []*ssa.BasicBlock
	var dfs func(b *ssa.BasicBlock)
	dfs = func(b *ssa.BasicBlock) {
		seen[b] = true
		for _, s := range b.Succs {
			if e.isBack[[2]*ssa.BasicBlock{b, s}] || seen[s] {
				continue
			}
			dfs(s)
		}
		post = append(post, b)
	}
	if len(fn.Blocks) > 0 {
		dfs(fn.Blocks[0])
	}
	for i := len(post) - 1; i >= 0; i-- {
		e.order = append(e.order, post[i])
	}
	// loop write sets
	for _, li := range e.loops {
		for b := range li.body {
			for _, in := range b.Instrs {
				e.vc.P.instrWrites(in, true, li.writes)
				if ci, ok := in.(ssa.CallInstruction); ok {
					e.callWrites(ci.Common(), li)
				}
				if ci, ok := in.(ssa.CallInstruction); ok && e.top && e.contract != nil {
					for _, n := range e.callNames(ci.Common()) {
						// only the counter of this very site (and its per-argument counters) moves here
						own := fmt.Sprintf("%s#%d", n, e.siteOrdinal(in, n))
						for site := range e.contract.HitSites {
							if site == own || strings.HasPrefix(site, n+"@") {
								li.writes[hitsKey(site).Name] = true
							}
						}
						if e.contract.ResSites[own] {
							li.writes["RES!"+mangle(own)] = true
						}
					}
				}
				if _, ok := in.(*ssa.Next); ok {
					li.writes["ITER!"+e.prefix+in.(*ssa.Next).Iter.Name()] = true
				}
			}
		}
	}
}

func (e *fnEnc) callWrites(c *ssa.CallCommon, li *loopInfo) {
	if _, isB := c.Value.(*ssa.Builtin); isB {
		return
	}
	fns, unknown := e.vc.P.Callees(c)
	if unknown {
		li.all = true
	}
	if name := e.vc.P.libCallName(c); name != "" && stdlibCallbacks[name] {
		if cs := e.vc.P.callbackSummary(c); cs != nil && !cs.All {
			for k := range cs.Writes {
				li.writes[k] = true
			}
		} else {
			li.all = true
		}
	}
	for _, f := range fns {
		if s := e.vc.P.Summ[f]; s != nil {
			if s.All {
				li.all = true
			}
			for k := range s.Writes {
				li.writes[k] = true
			}
		}
	}
}

func (e *fnEnc) loopPos(h *ssa.BasicBlock) token.Pos {
	// position of the first instruction with a position in the loop header or body: approximates the for statement
	best := token.NoPos
	li := e.loops[h]
	for b := range li.body {
		for _, in := range b.Instrs {
			if p := in.Pos(); p.IsValid() && (best == token.NoPos || p < best) {
				best = p
			}
		}
	}
	return best
}

// ---------- naming ----------

func (e *fnEnc) name(v ssa.Value) string {
	n := v.Name()
	switch v.(type) {
	case *ssa.Parameter:
		return e.prefix + "p!" + mangle(n)
	case *ssa.FreeVar:
		return e.prefix + "fv!" + mangle(n)
	}
	return e.prefix + "v!" + n
}

// ---------- constants ----------

func (e *fnEnc) strLit(s string) string {
	if len(s) > 64 {
		e.vc.nfresh++
		name := fmt.Sprintf("biglit!%d", e.vc.nfresh)
		e.vc.decl(name, "Str")
		e.vc.def(fmt.Sprintf("(and (= (s-off %s) 0) (= (s-len %s) %d))", name, name, len(s)))
		return name
	}
	return StrLitTerm(s)
}

// StrLitTerm is the ground SMT term of a string literal.
func StrLitTerm(s string) string {
	arr := "((as const (Array Int Int)) 0)"
	for i := 0; i < len(s); i++ {
		if s[i] != 0 {
			arr = fmt.Sprintf("(store %s %d %d)", arr, i, s[i])
		}
	}
	return fmt.Sprintf("(mk-str %s 0 %d)", arr, len(s))
}

func (e *fnEnc) constTerm(c *ssa.Const) string {
	t := c.Type()
	if c.Value == nil {
		return e.S().Zero(t)
	}
	switch c.Value.Kind() {
	case constant.Bool:
		if constant.BoolVal(c.Value) {
			return "true"
		}
		return "false"
	case constant.String:
		return e.strLit(constant.StringVal(c.Value))
	case constant.Int:
		if isFloat(t) {
			return c.Value.ExactString() + ".0"
		}
		bi, ok := new(big.Int).SetString(c.Value.ExactString(), 10)
		if ok {
			return sBig(bi)
		}
	case constant.Float:
		if isInteger(t) {
			bi, ok := new(big.Int).SetString(c.Value.ExactString(), 10)
			if ok {
				return sBig(bi)
			}
		}
		r := constant.ToFloat(c.Value)
		num, den := constant.Num(r), constant.Denom(r)
		ns, ds := num.ExactString(), den.ExactString()
		neg := strings.HasPrefix(ns, "-")
		ns = strings.TrimPrefix(ns, "-")
		term := fmt.Sprintf("(/ %s.0 %s.0)", ns, ds)
		if neg {
			term = "(- " + term + ")"
		}
		return term
	}
	return e.vc.fresh("const", e.S().SortOf(t))
}

// ---------- values ----------

func (e *fnEnc) term(v ssa.Value) string {
	switch x := v.(type) {
	case *ssa.Const:
		return e.constTerm(x)
	case *ssa.Function:
		return sInt(int64(1000000 + e.fnID(x)))
	case *ssa.Global:
		lv := e.globalLV(x)
		return e.addrOf(lv)
	case *ssa.Builtin:
		return "0"
	}
	if lv, ok := e.lvs[v]; ok {
		return e.addrOf(lv)
	}
	if t, ok := e.val[v]; ok {
		return t
	}
	// not yet defined (value from a back edge or unreachable block): declare opaque
	n := e.vc.decl(e.name(v), e.S().SortOf(v.Type()))
	e.val[v] = n
	return n
}

var fnIDs = map[string]int{}

func (e *fnEnc) fnID(f *ssa.Function) int {
	k := f.String()
	if id, ok := fnIDs[k]; ok {
		return id
	}
	fnIDs[k] = len(fnIDs) + 1
	return fnIDs[k]
}

// addrOf gives an opaque, deterministic reference for an interior address used as a value.
func (e *fnEnc) addrOf(lv *LValue) string {
	if lv.Kind == "deref" && len(lv.Path) == 0 {
		return lv.Ref
	}
	if !strings.Contains(lv.Key.Sort, "S_sync_Mutex") {
		e.vc.note("interior address used as a value (%s) - abstracted to an opaque reference", lv.Key.Name)
	}
	return e.addrOfQuiet(lv)
}

func (e *fnEnc) addrOfQuiet(lv *LValue) string {
	fname := "addr!" + lv.Key.Name
	args := []string{}
	if lv.Ref != "" {
		args = append(args, lv.Ref)
	}
	if lv.Idx != "" {
		args = append(args, lv.Idx)
	}
	for _, st := range lv.Path {
		if st.idx != "" {
			args = append(args, st.idx)
		} else {
			fname += "." + st.field
		}
	}
	fname = strings.ReplaceAll(fname, "(", "_")
	fname = strings.ReplaceAll(fname, ")", "_")
	fname = strings.ReplaceAll(fname, " ", "_")
	sig := "(" + strings.TrimSpace(strings.Repeat("Int ", len(args))) + ") Int"
	e.vc.declFun(fname, sig)
	t := sApp(fname, args...)
	e.vc.def("(> " + t + " 0)")
	// interior addresses are injective: distinct containers / fields have distinct addresses
	e.vc.declFun("addrtag!", "(Int) Int")
	e.vc.def(fmt.Sprintf("(= (addrtag! %s) %d)", t, addrTagOf(fname)))
	for k, a := range args {
		inv := fmt.Sprintf("addrinv!%d", k)
		e.vc.declFun(inv, "(Int) Int")
		e.vc.def(fmt.Sprintf("(= (%s %s) %s)", inv, t, a))
	}
	return t
}

var addrTags = map[string]int{}

func addrTagOf(fname string) int {
	if n, ok := addrTags[fname]; ok {
		return n
	}
	addrTags[fname] = len(addrTags) + 1
	return addrTags[fname]
}

func (e *fnEnc) globalLV(g *ssa.Global) *LValue {
	pt := g.Type().Underlying().(*types.Pointer).Elem()
	pk := ""
	if g.Pkg != nil {
		pk = g.Pkg.Pkg.Path()
	}
	k := e.vc.key(e.S().GlobalKey(pk, g.Name(), pt))
	return &LValue{Key: k, Kind: "global", ElemT: pt, RootT: pt}
}

// ---------- heap ----------

func (e *fnEnc) heap(k HeapKey) string {
	e.vc.key(k)
	if v, ok := e.cur[k.Name]; ok {
		return v
	}
	// unknown in this pass: a placeholder; a further pass will thread it properly
	n := e.vc.decl("H0!"+k.Name, k.Sort)
	e.cur[k.Name] = n
	return n
}

func (e *fnEnc) setHeap(k HeapKey, term string) {
	e.vc.key(k)
	n := e.vc.fresh("H!"+k.Name, k.Sort)
	e.vc.def(sEq(n, term))
	e.cur[k.Name] = n
}

func (e *fnEnc) havoc(keyName string) {
	k, ok := e.vc.keys[keyName]
	if !ok {
		return
	}
	if e.vc.P.frozenFor(keyName, e.vc.Fn) {
		return // proved immutable outside the packages that build it
	}
	e.cur[keyName] = e.vc.fresh("H!"+k.Name, k.Sort)
}

func (e *fnEnc) havocSummary(s *Summary, all bool) {
	if all || (s != nil && s.All) {
		for _, k := range e.vc.sortedKeyNames() {
			if strings.HasPrefix(k, "ITER!") || strings.HasPrefix(k, "HITS!") || k == "CLOCK" || k == "LOCK!held" {
				continue
			}
			old := e.cur[k]
			e.havoc(k)
			e.keepLocalMaps(k, old)
			// cells of non-escaping local allocations cannot be reached by any callee
			if hk, ok := e.vc.keys[k]; ok && old != "" && strings.HasPrefix(hk.Sort, "(Array Int ") && (strings.HasPrefix(k, "F!") || strings.HasPrefix(k, "D!")) {
				for _, a := range e.localAllocs {
					e.vc.def(fmt.Sprintf("(= (select %s %s) (select %s %s))", e.cur[k], a, old, a))
				}
			}
		}
		return
	}
	if s == nil {
		return
	}
	var ks []string
	for k := range s.Writes {
		ks = append(ks, k)
	}
	sort.Strings(ks)
	for _, k := range ks {
		old := e.cur[k]
		e.havoc(k)
		e.keepLocalMaps(k, old)
		if hk, ok := e.vc.keys[k]; ok && old != "" && strings.HasPrefix(hk.Sort, "(Array Int ") && (strings.HasPrefix(k, "F!") || strings.HasPrefix(k, "D!")) {
			for _, a := range e.localAllocs {
				e.vc.def(fmt.Sprintf("(= (select %s %s) (select %s %s))", e.cur[k], a, old, a))
			}
		}
	}
}

// keepLocalMaps: a map created by this function that no other function can have seen yet keeps its contents
// across a call, whatever the callee's write summary says about maps of that type.
func (e *fnEnc) keepLocalMaps(k, old string) {
	if old == "" || e.curInstr == nil || !(strings.HasPrefix(k, "MH!") || strings.HasPrefix(k, "MV!")) || e.cur[k] == old {
		return
	}
	for _, mk := range e.localMaps {
		mt := mk.Type().Underlying().(*types.Map)
		if e.S().MapHasKey(mt).Name != k && e.S().MapValKey(mt).Name != k {
			continue
		}
		t, ok := e.val[mk]
		if !ok || !e.mapUnescapedAt(mk, e.curInstr) {
			continue
		}
		e.vc.def(fmt.Sprintf("(= (select %s %s) (select %s %s))", e.cur[k], t, old, t))
	}
}

func (e *fnEnc) readRoot(lv *LValue) string {
	h := e.heap(lv.Key)
	switch lv.Kind {
	case "global":
		return h
	case "elem":
		return fmt.Sprintf("(select (select %s %s) %s)", h, lv.Ref, lv.Idx)
	}
	return fmt.Sprintf("(select %s %s)", h, lv.Ref)
}

func (e *fnEnc) writeRoot(lv *LValue, v string) {
	h := e.heap(lv.Key)
	switch lv.Kind {
	case "global":
		e.setHeap(lv.Key, v)
	case "elem":
		e.setHeap(lv.Key, fmt.Sprintf("(store %s %s (store (select %s %s) %s %s))", h, lv.Ref, h, lv.Ref, lv.Idx, v))
	default:
		e.setHeap(lv.Key, fmt.Sprintf("(store %s %s %s)", h, lv.Ref, v))
	}
}

func (e *fnEnc) load(lv *LValue) string {
	t := e.readRoot(lv)
	for _, st := range lv.Path {
		if st.idx != "" {
			t = fmt.Sprintf("(select %s %s)", t, st.idx)
		} else {
			t = fmt.Sprintf("(%s %s)", st.field, t)
		}
	}
	return t
}

func (e *fnEnc) store(lv *LValue, v string) {
	root := e.readRoot(lv)
	e.writeRoot(lv, e.updatePath(root, lv.Path, v))
}

func (e *fnEnc) updatePath(cur string, path []pathStep, v string) string {
	if len(path) == 0 {
		return v
	}
	st := path[0]
	if st.idx != "" {
		inner := e.updatePath(fmt.Sprintf("(select %s %s)", cur, st.idx), path[1:], v)
		return fmt.Sprintf("(store %s %s %s)", cur, st.idx, inner)
	}
	inner := e.updatePath(fmt.Sprintf("(%s %s)", st.field, cur), path[1:], v)
	// rebuild the datatype value with one field replaced
	u := st.inT.Underlying().(*types.Struct)
	var parts []string
	for i := 0; i < u.NumFields(); i++ {
		if i == st.fidx {
			parts = append(parts, inner)
		} else {
			parts = append(parts, fmt.Sprintf("(%s %s)", e.S().fieldSel(st.sortN, u.Field(i).Name(), i), cur))
		}
	}
	return fmt.Sprintf("(mk-%s %s)", st.sortN, strings.Join(parts, " "))
}

// loadPtr loads the value of type T through an opaque reference r of type *T.
func (e *fnEnc) loadPtr(r string, T types.Type) string {
	if st, ok := T.Underlying().(*types.Struct); ok {
		name := e.S().SortOf(T)
		if st.NumFields() == 0 {
			return "mk-" + name
		}
		var parts []string
		for i := 0; i < st.NumFields(); i++ {
			parts = append(parts, fmt.Sprintf("(select %s %s)", e.heap(e.S().FieldKey(T, i)), r))
		}
		return fmt.Sprintf("(mk-%s %s)", name, strings.Join(parts, " "))
	}
	return fmt.Sprintf("(select %s %s)", e.heap(e.S().DerefKey(T)), r)
}

func (e *fnEnc) storePtr(r string, T types.Type, v string) {
	if st, ok := T.Underlying().(*types.Struct); ok {
		name := e.S().SortOf(T)
		for i := 0; i < st.NumFields(); i++ {
			k := e.S().FieldKey(T, i)
			e.setHeap(k, fmt.Sprintf("(store %s %s (%s %s))", e.heap(k), r, e.S().fieldSel(name, st.Field(i).Name(), i), v))
		}
		return
	}
	k := e.S().DerefKey(T)
	e.setHeap(k, fmt.Sprintf("(store %s %s %s)", e.heap(k), r, v))
}

// ---------- type facts ----------

// typeFacts returns the invariants every Go value of type t satisfies.
func (e *fnEnc) typeFacts(t string, T types.Type, depth int) string {
	return sAnd(typeFacts(e.S(), t, T, depth), e.clockFacts(t, T, depth))
}

// clockFacts: every reference held by an existing value was allocated before "now".
func (e *fnEnc) clockFacts(t string, T types.Type, depth int) string {
	switch u := T.Underlying().(type) {
	case *types.Pointer, *types.Map, *types.Chan:
		return fmt.Sprintf("(<= %s %s)", t, e.heap(clockKey))
	case *types.Slice:
		return fmt.Sprintf("(<= (c-ref %s) %s)", t, e.heap(clockKey))
	case *types.Struct:
		if depth <= 0 {
			return "true"
		}
		name := e.S().SortOf(T)
		var fs []string
		for i := 0; i < u.NumFields(); i++ {
			fs = append(fs, e.clockFacts(fmt.Sprintf("(%s %s)", e.S().fieldSel(name, u.Field(i).Name(), i), t), u.Field(i).Type(), depth-1))
		}
		return sAnd(fs...)
	}
	return "true"
}

func typeFacts(S *Sorts, t string, T types.Type, depth int) string {
	switch u := T.Underlying().(type) {
	case *types.Basic:
		if u.Info()&types.IsInteger != 0 {
			bits, uns := intBits(T)
			switch {
			case bits == 64 && uns:
				return fmt.Sprintf("(>= %s 0)", t)
			case bits == 64 || bits == 0:
				return "true"
			case uns:
				return fmt.Sprintf("(and (>= %s 0) (<= %s %s))", t, t, new(big.Int).Sub(pow2(bits), big.NewInt(1)).String())
			default:
				return fmt.Sprintf("(and (>= %s (- %s)) (<= %s %s))", t, pow2(bits-1).String(), t, new(big.Int).Sub(pow2(bits-1), big.NewInt(1)).String())
			}
		}
		if u.Info()&types.IsString != 0 {
			return fmt.Sprintf("(and (>= (s-off %s) 0) (>= (s-len %s) 0))", t, t)
		}
	case *types.Slice:
		return fmt.Sprintf("(and (>= (c-ref %s) 0) (>= (c-off %s) 0) (>= (c-len %s) 0) (<= (c-len %s) (c-cap %s)) (=> (= (c-ref %s) 0) (= (c-cap %s) 0)))", t, t, t, t, t, t, t)
	case *types.Pointer, *types.Map, *types.Chan, *types.Signature:
		return fmt.Sprintf("(>= %s 0)", t)
	case *types.Interface:
		return fmt.Sprintf("(and (>= (i-tag %s) 0) (=> (= (i-tag %s) 0) (= (i-ref %s) 0)))", t, t, t)
	case *types.Struct:
		if depth <= 0 {
			return "true"
		}
		name := S.SortOf(T)
		var fs []string
		for i := 0; i < u.NumFields(); i++ {
			fs = append(fs, typeFacts(S, fmt.Sprintf("(%s %s)", S.fieldSel(name, u.Field(i).Name(), i), t), u.Field(i).Type(), depth-1))
		}
		return sAnd(fs...)
	}
	return "true"
}

// wrap reduces a mathematical integer to the range of a sized integer type.
func wrapInt(t string, T types.Type) string {
	bits, uns := intBits(T)
	if bits == 0 || bits == 64 {
		return t
	}
	if n, ok := isIntLit(t); ok {
		// constant fold when already in range
		lo, hi := int64(0), int64(1)<<uint(bits)-1
		if !uns {
			lo, hi = -(int64(1) << uint(bits-1)), int64(1)<<uint(bits-1)-1
		}
		if n >= lo && n <= hi {
			return t
		}
	}
	if uns {
		return fmt.Sprintf("(mod %s %s)", t, pow2(bits).String())
	}
	return fmt.Sprintf("(- (mod (+ %s %s) %s) %s)", t, pow2(bits-1).String(), pow2(bits).String(), pow2(bits-1).String())
}

// lvOf returns the statically resolved address behind v: a recorded FieldAddr/IndexAddr, or a package-level variable.
func (e *fnEnc) lvOf(v ssa.Value) (*LValue, bool) {
	if lv, ok := e.lvs[v]; ok {
		return lv, true
	}
	if g, ok := v.(*ssa.Global); ok {
		return e.globalLV(g), true
	}
	return nil, false
}
