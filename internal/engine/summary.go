package engine

import (
	"fmt"
	"go/types"
	"sort"
	"strings"

	"golang.org/x/tools/go/ssa"
)

// Summary is the transitive heap write set of a function, as heap key names.
type Summary struct {
	Writes map[string]bool
	All    bool // writes unknown heap (dynamic call to unknown code)
	direct map[string]bool
	calls  []*ssa.Function
	dynAll bool
	done   bool
}

// stdlibWriters are library functions that write through their pointer/slice arguments
// or call back into program code. Everything else outside the module is assumed not to
// write program-visible heap (listed assumption).
var stdlibCallbacks = map[string]bool{
	"sort.Sort": true, "sort.Stable": true, "sort.Slice": true, "sort.SliceStable": true,
	"(*sync.Once).Do": true, "path/filepath.Walk": true, "path/filepath.WalkDir": true,
	"strings.Map": true, "strings.FieldsFunc": true, "strings.IndexFunc": true, "strings.TrimFunc": true,
	"strings.TrimLeftFunc": true, "strings.TrimRightFunc": true, "bytes.IndexFunc": true,
}

var stdlibArgWriters = map[string]bool{
	"encoding/json.Unmarshal": true, "(*encoding/json.Decoder).Decode": true, "io.ReadFull": true, "copy": true,
	"encoding/binary.Read": true, "(*os.File).Read": true, "(*bufio.Reader).Read": true, "io.ReadAtLeast": true,
	"unicode/utf8.EncodeRune": true, "encoding/binary.littleEndian.PutUint32": true, "fmt.Sscanf": true, "fmt.Sscan": true,
	"(*net.UDPConn).Read": true, "(*net.UDPConn).ReadFromUDP": true, "(net.Conn).Read": true,
}

// rootKeys returns the heap keys a store through addr may write.
func (p *Program) rootKeys(addr ssa.Value, out map[string]bool) {
	S := p.Sorts
	switch a := addr.(type) {
	case *ssa.FieldAddr:
		pt := a.X.Type().Underlying().(*types.Pointer).Elem()
		// interior pointers resolve to the root cell
		switch a.X.(type) {
		case *ssa.FieldAddr, *ssa.IndexAddr:
			p.rootKeys(a.X, out)
			return
		}
		out[S.FieldKey(pt, a.Field).Name] = true
		return
	case *ssa.IndexAddr:
		switch xt := a.X.Type().Underlying().(type) {
		case *types.Slice:
			out[S.ElemKey(xt.Elem()).Name] = true
			return
		case *types.Pointer:
			switch a.X.(type) {
			case *ssa.FieldAddr, *ssa.IndexAddr:
				p.rootKeys(a.X, out)
				return
			}
			out[S.DerefKey(xt.Elem()).Name] = true
			return
		}
	case *ssa.Global:
		pt := a.Type().Underlying().(*types.Pointer).Elem()
		out[S.GlobalKey(a.Pkg.Pkg.Path(), a.Name(), pt).Name] = true
		return
	}
	p.typeKeys(addr.Type(), out)
}

// typeKeys adds the keys writable through a value of pointer type t (by type only).
func (p *Program) typeKeys(t types.Type, out map[string]bool) {
	S := p.Sorts
	switch u := t.Underlying().(type) {
	case *types.Pointer:
		el := u.Elem()
		if st, ok := el.Underlying().(*types.Struct); ok {
			for i := 0; i < st.NumFields(); i++ {
				out[S.FieldKey(el, i).Name] = true
			}
			return
		}
		out[S.DerefKey(el).Name] = true
	case *types.Slice:
		out[S.ElemKey(u.Elem()).Name] = true
	case *types.Map:
		out[S.MapHasKey(u).Name] = true
		out[S.MapValKey(u).Name] = true
	}
}

// Callees resolves the possible module callees of a call; unknown is true when code
// outside our knowledge may run (dynamic call with no resolvable target).
func (p *Program) Callees(c *ssa.CallCommon) (fns []*ssa.Function, unknown bool) {
	if c.IsInvoke() {
		// interface method: every module type implementing it
		recvT := c.Value.Type()
		iface, _ := recvT.Underlying().(*types.Interface)
		if iface == nil {
			return nil, true
		}
		for _, fn := range p.methodImpls(iface, c.Method) {
			fns = append(fns, fn)
		}
		return fns, false
	}
	switch v := c.Value.(type) {
	case *ssa.Function:
		return []*ssa.Function{v}, false
	case *ssa.MakeClosure:
		return []*ssa.Function{v.Fn.(*ssa.Function)}, false
	case *ssa.Builtin:
		return nil, false
	}
	// dynamic function value: any module function with identical signature
	sig, _ := c.Value.Type().Underlying().(*types.Signature)
	if sig == nil {
		return nil, true
	}
	for _, fn := range p.AllFuncs {
		if fn.Signature == nil {
			continue
		}
		if fn.Signature.Recv() == nil {
			if types.Identical(fn.Signature, sig) {
				fns = append(fns, fn)
			}
			continue
		}
		// a bound method value x.m has the method's signature without its receiver
		fs := fn.Signature
		unbound := types.NewSignatureType(nil, nil, nil, fs.Params(), fs.Results(), fs.Variadic())
		if types.Identical(unbound, sig) {
			fns = append(fns, fn)
		}
	}
	return fns, false
}

var implCache = map[string][]*ssa.Function{}

func (p *Program) methodImpls(iface *types.Interface, m *types.Func) []*ssa.Function {
	key := types.TypeString(iface, nil) + "#" + m.Name()
	if r, ok := implCache[key]; ok {
		return r
	}
	var out []*ssa.Function
	seen := map[*ssa.Function]bool{}
	for _, sp := range p.ModPkgs {
		for _, mem := range sp.Members {
			tn, ok := mem.(*ssa.Type)
			if !ok {
				continue
			}
			for _, T := range []types.Type{tn.Type(), types.NewPointer(tn.Type())} {
				if _, isI := T.Underlying().(*types.Interface); isI {
					continue
				}
				if !types.Implements(T, iface) {
					continue
				}
				sel := p.SSA.MethodSets.MethodSet(T).Lookup(m.Pkg(), m.Name())
				if sel == nil {
					continue
				}
				fn := p.SSA.MethodValue(sel)
				if fn != nil && !seen[fn] {
					seen[fn] = true
					out = append(out, fn)
				}
			}
		}
	}
	sort.Slice(out, func(i, j int) bool { return out[i].String() < out[j].String() })
	implCache[key] = out
	return out
}

// instrWrites adds the heap keys instruction in may write directly (not through calls into the module).
// includeFresh also counts the initialisation of freshly allocated objects, which matters for
// loop havoc sets inside one function but is invisible to callers.
func (p *Program) instrWrites(in ssa.Instruction, includeFresh bool, out map[string]bool) {
	S := p.Sorts
	switch i := in.(type) {
	case *ssa.Store:
		if al := rootAlloc(i.Addr); al != nil && !includeFresh {
			return // purely local cell
		}
		p.rootKeys(i.Addr, out)
	case *ssa.MapUpdate:
		if _, fresh := i.Map.(*ssa.MakeMap); fresh && !includeFresh {
			return // a map created by this very call is invisible to the caller
		}
		if mt, ok := i.Map.Type().Underlying().(*types.Map); ok {
			out[S.MapHasKey(mt).Name] = true
			out[S.MapValKey(mt).Name] = true
		}
	case ssa.CallInstruction:
		c := i.Common()
		if b, ok := c.Value.(*ssa.Builtin); ok {
			switch b.Name() {
			case "delete":
				if _, fresh := c.Args[0].(*ssa.MakeMap); fresh && !includeFresh {
					return
				}
				if mt, ok := c.Args[0].Type().Underlying().(*types.Map); ok {
					out[S.MapHasKey(mt).Name] = true
					out[S.MapValKey(mt).Name] = true
				}
			case "copy":
				p.typeKeys(c.Args[0].Type(), out)
			case "append":
				if includeFresh {
					p.typeKeys(c.Args[0].Type(), out)
				}
			}
			return
		}
		name := p.libCallName(c)
		switch name {
		case "(*bytes.Buffer).Write", "(*bytes.Buffer).WriteString", "(*bytes.Buffer).WriteByte", "(*bytes.Buffer).WriteRune", "(*bytes.Buffer).Reset", "(*bytes.Buffer).Truncate":
			out["BUF!len"] = true
			out["BUF!data"] = true
			out[S.ElemKey(types.Typ[types.Uint8]).Name] = true
		case "(*bytes.Buffer).Bytes":
			if includeFresh {
				out[S.ElemKey(types.Typ[types.Uint8]).Name] = true
			}
		}
		if name != "" && stdlibArgWriters[name] {
			for _, a := range c.Args {
				p.typeKeys(a.Type(), out)
				if mi, ok := a.(*ssa.MakeInterface); ok {
					p.typeKeys(mi.X.Type(), out)
				}
			}
		}
	case *ssa.MakeSlice:
		if includeFresh {
			out[S.ElemKey(i.Type().Underlying().(*types.Slice).Elem()).Name] = true
		}
	case *ssa.MakeMap:
		if includeFresh {
			mt := i.Type().Underlying().(*types.Map)
			out[S.MapHasKey(mt).Name] = true
			out[S.MapValKey(mt).Name] = true
		}
	case *ssa.Alloc:
		if includeFresh {
			p.typeKeys(i.Type(), out)
			if types.TypeString(i.Type().Underlying().(*types.Pointer).Elem(), nil) == "bytes.Buffer" {
				out["BUF!len"] = true
				out["BUF!ref"] = true
			}
		}
	case *ssa.Convert:
		if includeFresh {
			if sl, ok := i.Type().Underlying().(*types.Slice); ok {
				out[S.ElemKey(sl.Elem()).Name] = true
			}
		}
	case *ssa.Slice:
		if includeFresh {
			// slicing a pointer-to-array copies the array into the element heap in the model
			if pt, ok := i.X.Type().Underlying().(*types.Pointer); ok {
				if at, ok := pt.Elem().Underlying().(*types.Array); ok {
					out[S.ElemKey(at.Elem()).Name] = true
				}
			}
		}
	}
}

// libCallName returns the qualified name of a call target outside the module ("" for module or unknown targets).
func (p *Program) libCallName(c *ssa.CallCommon) string {
	if c.IsInvoke() {
		fns, _ := p.Callees(c)
		if len(fns) == 0 {
			return "(" + types.TypeString(c.Value.Type(), nil) + ")." + c.Method.Name()
		}
		return ""
	}
	if f, ok := c.Value.(*ssa.Function); ok && !p.InModule(f) {
		return f.String()
	}
	return ""
}

// callbackTargets resolves the program code a library function with callbacks (sort.Sort, sort.Slice, sync.Once.Do,
// strings.Map, ...) can call back into: the Len/Less/Swap methods of the concrete sort.Interface value built at the call
// site, and function literals or named functions passed directly.  extra are heap keys the library function itself
// writes (the elements of the slice being sorted).  ok is false when some callback cannot be resolved statically; the
// call is then treated as a call to unknown code.
func (p *Program) callbackTargets(c *ssa.CallCommon) (fns []*ssa.Function, extra map[string]bool, ok bool) {
	extra = map[string]bool{}
	name := p.libCallName(c)
	for _, a := range c.Args {
		switch t := a.Type().Underlying().(type) {
		case *types.Signature:
			switch v := a.(type) {
			case *ssa.Function:
				fns = append(fns, v)
			case *ssa.MakeClosure:
				fns = append(fns, v.Fn.(*ssa.Function))
			default:
				return nil, nil, false
			}
		case *types.Interface:
			mi, isMI := a.(*ssa.MakeInterface)
			if !isMI {
				return nil, nil, false
			}
			switch name {
			case "sort.Sort", "sort.Stable":
				for _, m := range []string{"Len", "Less", "Swap"} {
					sel := p.SSA.MethodSets.MethodSet(mi.X.Type()).Lookup(nil, m)
					if sel == nil {
						return nil, nil, false
					}
					fn := p.SSA.MethodValue(sel)
					if fn == nil {
						return nil, nil, false
					}
					fns = append(fns, fn)
				}
			case "sort.Slice", "sort.SliceStable":
				p.typeKeys(mi.X.Type(), extra)
			default:
				return nil, nil, false
			}
			_ = t
		}
	}
	return fns, extra, true
}

func (p *Program) directSummary(fn *ssa.Function) *Summary {
	s := &Summary{Writes: map[string]bool{}, direct: map[string]bool{}}
	if fn.Blocks == nil {
		return s
	}
	for _, b := range fn.Blocks {
		for _, in := range b.Instrs {
			p.instrWrites(in, false, s.direct)
			if ci, ok := in.(ssa.CallInstruction); ok {
				c := ci.Common()
				if _, isB := c.Value.(*ssa.Builtin); isB {
					continue
				}
				fns, unknown := p.Callees(c)
				if unknown {
					s.dynAll = true
				}
				for _, f := range fns {
					if p.InModule(f) {
						s.calls = append(s.calls, f)
					}
				}
				if name := p.libCallName(c); name != "" && stdlibCallbacks[name] {
					if cb, extra, ok := p.callbackTargets(c); ok {
						for _, f := range cb {
							if p.InModule(f) {
								s.calls = append(s.calls, f)
							}
						}
						for k := range extra {
							s.direct[k] = true
						}
					} else {
						s.dynAll = true
					}
				}
			}
		}
	}
	return s
}

// BuildSummaries computes transitive write sets for all module functions.
func (p *Program) BuildSummaries() {
	for _, fn := range p.AllFuncs {
		p.Summ[fn] = p.directSummary(fn)
	}
	// fixpoint
	changed := true
	for _, fn := range p.AllFuncs {
		s := p.Summ[fn]
		for k := range s.direct {
			s.Writes[k] = true
		}
		s.All = s.dynAll
	}
	// Modular frames: a callee with an assigns clause is represented, in its callers' summaries, by that clause
	// (checked against the callee's own body by the frame obligation, or assumed and listed when the callee is trusted).
	framed := map[*ssa.Function]*Summary{}
	for _, fn := range p.AllFuncs {
		c := p.Contract(fn)
		if c == nil || len(c.Assigns) == 0 {
			continue
		}
		fs := &Summary{Writes: map[string]bool{}}
		for _, a := range c.Assigns {
			if a == "nothing" {
				continue
			}
			for _, k := range p.assignKeys(c.Pkg, a) {
				fs.Writes[k] = true
			}
		}
		framed[fn] = fs
	}
	for changed {
		changed = false
		for _, fn := range p.AllFuncs {
			s := p.Summ[fn]
			for _, c := range s.calls {
				cs := p.Summ[c]
				if f, ok := framed[c]; ok {
					cs = f
				}
				if cs == nil {
					continue
				}
				if cs.All && !s.All {
					s.All = true
					changed = true
				}
				for k := range cs.Writes {
					if !s.Writes[k] {
						s.Writes[k] = true
						changed = true
					}
				}
			}
		}
	}
}

// callbackSummary: the write summary of a library call with callbacks, nil when a callback is unresolved.
func (p *Program) callbackSummary(c *ssa.CallCommon) *Summary {
	cb, extra, ok := p.callbackTargets(c)
	if !ok {
		return nil
	}
	out := &Summary{Writes: extra}
	for _, f := range cb {
		if fs := p.Summ[f]; fs != nil {
			if fs.All {
				out.All = true
			}
			for k := range fs.Writes {
				out.Writes[k] = true
			}
		}
	}
	return out
}

// rootAlloc returns the Alloc at the root of an address chain (FieldAddr/IndexAddr on pointers), or nil.
func rootAlloc(addr ssa.Value) *ssa.Alloc {
	for {
		switch a := addr.(type) {
		case *ssa.Alloc:
			return a
		case *ssa.FieldAddr:
			addr = a.X
		case *ssa.IndexAddr:
			if _, ok := a.X.Type().Underlying().(*types.Pointer); ok {
				addr = a.X
			} else {
				return nil
			}
		default:
			return nil
		}
	}
}

// FrameViolations lists heap keys fn may write (per its summary) that its assigns clause does not allow.
func (p *Program) FrameViolations(fn *ssa.Function, c *FuncContract) (bad []string, dynamic bool) {
	s := p.Summ[fn]
	if s == nil || len(c.Assigns) == 0 {
		return nil, false
	}
	allowed := map[string]bool{"CLOCK": true}
	for _, a := range c.Assigns {
		for _, k := range p.assignKeys(c.Pkg, a) {
			allowed[k] = true
		}
	}
	for k := range s.Writes {
		if !allowed[k] {
			bad = append(bad, k)
		}
	}
	sort.Strings(bad)
	return bad, s.All
}

// ---- lock discipline (ghost): which functions touch guarded fields / take the guarding mutex ----

type lockInfo struct {
	accesses bool // touches a guarded field directly
	takes    bool // calls Lock on the guarding mutex
	needs    bool // must be called with the mutex held
	calls    []*ssa.Function
}

func (p *Program) guardFor(T types.Type) *GuardSpec {
	named, ok := T.(*types.Named)
	if !ok || named.Obj().Pkg() == nil {
		return nil
	}
	for _, g := range p.Contracts.Guards {
		if g.Pkg == named.Obj().Pkg().Path() && g.Type == named.Obj().Name() {
			return g
		}
	}
	return nil
}

// BuildLockInfo computes, for every module function, whether it needs the guarding mutex held by its caller.
func (p *Program) BuildLockInfo() {
	p.Lock = map[*ssa.Function]*lockInfo{}
	if len(p.Contracts.Guards) == 0 {
		return
	}
	for _, fn := range p.AllFuncs {
		li := &lockInfo{}
		p.Lock[fn] = li
		for _, b := range fn.Blocks {
			for _, in := range b.Instrs {
				switch i := in.(type) {
				case *ssa.FieldAddr:
					pt := i.X.Type().Underlying().(*types.Pointer).Elem()
					if g := p.guardFor(pt); g != nil {
						name := pt.Underlying().(*types.Struct).Field(i.Field).Name()
						if g.Fields[name] {
							li.accesses = true
						}
					}
				case ssa.CallInstruction:
					c := i.Common()
					if name := p.libCallName(c); name == "(*sync.Mutex).Lock" && len(c.Args) == 1 {
						if fa, ok := c.Args[0].(*ssa.FieldAddr); ok {
							pt := fa.X.Type().Underlying().(*types.Pointer).Elem()
							if g := p.guardFor(pt); g != nil && pt.Underlying().(*types.Struct).Field(fa.Field).Name() == g.Mutex {
								li.takes = true
							}
						}
					}
					if f := staticCalleeOf(c); f != nil && p.InModule(f) {
						if _, isGo := in.(*ssa.Go); !isGo {
							li.calls = append(li.calls, f)
						}
					}
				}
			}
		}
	}
	for changed := true; changed; {
		changed = false
		for _, fn := range p.AllFuncs {
			li := p.Lock[fn]
			if li.takes || li.needs || p.Contracts.LockExempt[FuncKey(fn)] || p.Contracts.LockEntry[FuncKey(fn)] {
				continue
			}
			n := li.accesses
			for _, c := range li.calls {
				if cl := p.Lock[c]; cl != nil && cl.needs {
					n = true
				}
			}
			if n {
				li.needs = true
				changed = true
			}
		}
	}
}

func staticCalleeOf(c *ssa.CallCommon) *ssa.Function {
	if c.IsInvoke() {
		return nil
	}
	switch v := c.Value.(type) {
	case *ssa.Function:
		return v
	case *ssa.MakeClosure:
		return v.Fn.(*ssa.Function)
	}
	return nil
}

// BuildFrozen establishes, by a scan of every store in the module, that the struct types of the
// declared packages are never written outside the excepted packages; their field heaps are then
// kept across calls (frame by write-absence). Violations are reported and the freeze is dropped.
func (p *Program) BuildFrozen() {
	p.FrozenKeys = map[string][]string{}
	for _, fz := range p.Contracts.Frozen {
		keys := map[string]bool{}
		for path, tp := range p.TypesPkgs {
			if !inModule(path) || !strings.HasSuffix(path, fz.TypePkg) {
				continue
			}
			for _, name := range tp.Scope().Names() {
				tn, ok := tp.Scope().Lookup(name).(*types.TypeName)
				if !ok {
					continue
				}
				st, ok := tn.Type().Underlying().(*types.Struct)
				if !ok {
					continue
				}
				for i := 0; i < st.NumFields(); i++ {
					keys[p.Sorts.FieldKey(tn.Type(), i).Name] = true
				}
			}
		}
		excepted := func(fn *ssa.Function) bool {
			pk := pkgOf(fn)
			for _, e := range fz.Except {
				if strings.HasSuffix(pk, e) {
					return true
				}
			}
			return false
		}
		var violators []string
		for _, fn := range p.AllFuncs {
			if excepted(fn) {
				continue
			}
			if s := p.Summ[fn]; s != nil {
				for k := range s.direct {
					if keys[k] {
						violators = append(violators, FuncKey(fn)+" writes "+k)
					}
				}
			}
		}
		sort.Strings(violators)
		if len(violators) > 0 {
			p.FrozenErrors = append(p.FrozenErrors, fmt.Sprintf("frozen %s: written outside %v: %s", fz.TypePkg, fz.Except, strings.Join(violators, "; ")))
			continue
		}
		for k := range keys {
			p.FrozenKeys[k] = fz.Except
		}
	}
}

// BuildFrozenFields: a field declared frozen-field is stored to only inside the function that allocates
// the object (composite literal / new + initialisation); every other store in the module is a violation.
func (p *Program) BuildFrozenFields() {
	for _, ff := range p.Contracts.FrozenFields {
		i2 := strings.LastIndex(ff, ".")
		i1 := strings.LastIndex(ff[:i2], ".")
		pkgSuffix, typeName, field := ff[:i1], ff[i1+1:i2], ff[i2+1:]
		key := ""
		for path, tp := range p.TypesPkgs {
			if !inModule(path) || !strings.HasSuffix(path, pkgSuffix) {
				continue
			}
			tn, ok := tp.Scope().Lookup(typeName).(*types.TypeName)
			if !ok {
				continue
			}
			st, ok := tn.Type().Underlying().(*types.Struct)
			if !ok {
				continue
			}
			for i := 0; i < st.NumFields(); i++ {
				if st.Field(i).Name() == field {
					key = p.Sorts.FieldKey(tn.Type(), i).Name
				}
			}
		}
		if key == "" {
			p.FrozenErrors = append(p.FrozenErrors, "frozen-field "+ff+": no such field")
			continue
		}
		var violators []string
		for _, fn := range p.AllFuncs {
			if s := p.Summ[fn]; s != nil && s.direct[key] {
				violators = append(violators, FuncKey(fn))
			}
		}
		sort.Strings(violators)
		if len(violators) > 0 {
			p.FrozenErrors = append(p.FrozenErrors, fmt.Sprintf("frozen-field %s: stored to after construction in: %s", ff, strings.Join(violators, "; ")))
			continue
		}
		p.FrozenKeys[key] = nil
	}
}

// frozenFor reports whether heap key k keeps its value across calls made by fn.
func (p *Program) frozenFor(k string, fn *ssa.Function) bool {
	exc, ok := p.FrozenKeys[k]
	if !ok {
		return false
	}
	pk := pkgOf(fn)
	for _, e := range exc {
		if strings.HasSuffix(pk, e) {
			return false
		}
	}
	return true
}

// BuildNonNilGlobals finds package-level pointer variables that are assigned a fresh allocation in their
// package initialiser and never stored to anywhere else in the module: they are non-nil for good.
func (p *Program) BuildNonNilGlobals() {
	p.NonNilGlobals = map[*ssa.Global]bool{}
	initAlloc := map[*ssa.Global]bool{}
	otherStore := map[*ssa.Global]bool{}
	for _, fn := range p.AllFuncs {
		isInit := fn.Name() == "init" && fn.Signature.Recv() == nil
		for _, b := range fn.Blocks {
			for _, in := range b.Instrs {
				st, ok := in.(*ssa.Store)
				if !ok {
					continue
				}
				g, ok := st.Addr.(*ssa.Global)
				if !ok {
					continue
				}
				if _, isAlloc := st.Val.(*ssa.Alloc); isAlloc && isInit {
					initAlloc[g] = true
				} else {
					otherStore[g] = true
				}
			}
		}
	}
	for g := range initAlloc {
		if !otherStore[g] {
			p.NonNilGlobals[g] = true
		}
	}
}
