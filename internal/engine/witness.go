package engine

import (
	"encoding/json"
	"fmt"
	"go/constant"
	"go/types"
	"os"
	"os/exec"
	"path/filepath"
	"sort"
	"strings"

	"golang.org/x/tools/go/ssa"
)

// Witness search for failed SAFETY obligations (bounds, nil, div, assert-type, panic, extern-pre) of functions whose
// parameters are plain data (integers, bools, strings, byte slices, string slices, structs of those): the verdict is
// already given by the failed obligation; this only looks for a concrete input that makes the REAL function panic.
// A Go test is generated that enumerates small inputs over an alphabet taken from the byte constants the function
// compares with, calls the function under recover(), and reports the first panic. It is injected with
// go test -overlay (nothing is written under the repository) and kept next to the replay file.

var safetyKinds = map[string]bool{"bounds": true, "nil": true, "div": true, "assert-type": true, "panic": true, "extern-pre": true}

type witParam struct {
	name, goType, gen string // gen: "str", "bytes", "int", "bool", "strs", "struct"
	fields             []witParam
}

func witnessParam(name string, T types.Type, qual types.Qualifier) (witParam, bool) {
	gt := types.TypeString(T, qual)
	switch u := T.Underlying().(type) {
	case *types.Basic:
		switch {
		case u.Info()&types.IsString != 0:
			return witParam{name: name, goType: gt, gen: "str"}, true
		case u.Info()&types.IsInteger != 0:
			return witParam{name: name, goType: gt, gen: "int"}, true
		case u.Info()&types.IsBoolean != 0:
			return witParam{name: name, goType: gt, gen: "bool"}, true
		}
	case *types.Slice:
		if b, ok := u.Elem().Underlying().(*types.Basic); ok {
			if b.Kind() == types.Uint8 {
				return witParam{name: name, goType: gt, gen: "bytes"}, true
			}
			if b.Info()&types.IsString != 0 {
				return witParam{name: name, goType: gt, gen: "strs"}, true
			}
		}
	case *types.Struct:
		wp := witParam{name: name, goType: gt, gen: "struct"}
		for i := 0; i < u.NumFields(); i++ {
			if !u.Field(i).Exported() {
				if _, isNamed := T.(*types.Named); isNamed {
					return witParam{}, false
				}
			}
			fp, ok := witnessParam(u.Field(i).Name(), u.Field(i).Type(), qual)
			if !ok || fp.gen == "struct" || fp.gen == "strs" {
				return witParam{}, false
			}
			wp.fields = append(wp.fields, fp)
		}
		return wp, len(wp.fields) > 0 && len(wp.fields) <= 3
	}
	return witParam{}, false
}

// alphabetOf collects the byte constants a function compares with or indexes by.
func alphabetOf(fn *ssa.Function) []int { return alphabetOfN(fn, 12) }

func alphabetOfN(fn *ssa.Function, max int) []int {
	// byte constants in order of relevance: string literals and comparison constants of the function itself first,
	// then those of the same-package functions it calls (two levels), then a few generic bytes
	var order []int
	have := map[int]bool{}
	add := func(v int) {
		if !have[v] {
			have[v] = true
			order = append(order, v)
		}
	}
	seen := map[*ssa.Function]bool{}
	var level []*ssa.Function
	level = append(level, fn)
	for depth := 0; depth <= 2 && len(level) > 0; depth++ {
		var next []*ssa.Function
		var strs, ints []int
		for _, f := range level {
			if f == nil || seen[f] {
				continue
			}
			seen[f] = true
			for _, b := range f.Blocks {
				for _, in := range b.Instrs {
					for _, op := range in.Operands(nil) {
						if op == nil || *op == nil {
							continue
						}
						if c, ok := (*op).(*ssa.Const); ok && c.Value != nil {
							switch c.Value.Kind() {
							case constant.Int:
								if v, ok := constant.Int64Val(c.Value); ok && v > 8 && v < 256 {
									ints = append(ints, int(v))
								}
							case constant.String:
								sv := constant.StringVal(c.Value)
								for i := 0; i < len(sv) && i < 4; i++ {
									strs = append(strs, int(sv[i]))
								}
							}
						}
					}
					if call, ok := in.(ssa.CallInstruction); ok {
						if callee := call.Common().StaticCallee(); callee != nil && callee.Pkg == f.Pkg {
							next = append(next, callee)
						}
					}
				}
			}
			next = append(next, f.AnonFuncs...)
		}
		sort.Ints(strs)
		sort.Ints(ints)
		for _, v := range strs {
			add(v)
		}
		for _, v := range ints {
			add(v)
		}
		level = next
	}
	for _, v := range []int{'a', ' ', '\n', 0xC3, 0xF0} {
		add(v)
	}
	if len(order) > max {
		order = order[:max]
	}
	sort.Ints(order)
	return order
}

func (p *Program) tryWitness(cfg *CheckConfig, f *OblResult, replayPath string) string {
	if !safetyKinds[f.Obl.Kind] && f.Obl.Kind != "variant" {
		return ""
	}
	fn := p.Funcs[f.Obl.Fn]
	if fn != nil && fn.Pkg != nil && strings.HasSuffix(fn.Pkg.Pkg.Path(), "check/compiler/lexer") && fn.Signature.Recv() != nil {
		return p.lexerWitness(cfg, f, fn, replayPath)
	}
	if f.Obl.Kind == "variant" {
		return ""
	}
	if fn != nil && fn.Pkg != nil && strings.HasSuffix(fn.Pkg.Pkg.Path(), "check/compiler/parser") {
		return p.parserWitness(cfg, f, fn, replayPath)
	}
	if c := p.Contract(fn); c != nil && len(c.Requires) > 0 {
		return "" // a direct call with arbitrary arguments would not respect the function's precondition
	}
	if fn == nil || fn.Signature.Recv() != nil || fn.Pkg == nil || fn.Parent() != nil || fn.Signature.Params().Len() == 0 || fn.Signature.Params().Len() > 4 {
		return ""
	}
	imports := map[string]string{}
	qual := func(pk *types.Package) string {
		if pk == fn.Pkg.Pkg {
			return ""
		}
		imports[pk.Path()] = pk.Name()
		return pk.Name()
	}
	var params []witParam
	nstr := 0
	for i := 0; i < fn.Signature.Params().Len(); i++ {
		v := fn.Signature.Params().At(i)
		wp, ok := witnessParam(fmt.Sprintf("a%d", i), v.Type(), qual)
		if !ok {
			return ""
		}
		if wp.gen == "str" || wp.gen == "bytes" || wp.gen == "strs" {
			nstr++
		}
		params = append(params, wp)
	}
	maxLen := 5
	if nstr >= 2 {
		maxLen = 3
	}
	alpha := alphabetOf(fn)
	var sb strings.Builder
	fmt.Fprintf(&sb, "package %s\n\nimport (\n\t\"fmt\"\n\t\"testing\"\n\t\"time\"\n", fn.Pkg.Pkg.Name())
	var ips []string
	for path := range imports {
		ips = append(ips, path)
	}
	sort.Strings(ips)
	for _, path := range ips {
		fmt.Fprintf(&sb, "\t%s %q\n", imports[path], path)
	}
	sb.WriteString(")\n\n")
	fmt.Fprintf(&sb, "// generated by lhv: witness search for the failed obligation\n//   %s\n", f.Obl.Name)
	fmt.Fprintf(&sb, "var lhvAlphabet = []byte{")
	for _, a := range alpha {
		fmt.Fprintf(&sb, "%d, ", a)
	}
	sb.WriteString("}\nvar lhvInts = []int{0, 1, 2, 3, -1, 5, 7, 255}\n\n")
	sb.WriteString("func lhvStrings(maxLen int) []string {\n\tout := []string{\"\"}\n\tlevel := []string{\"\"}\n\tfor n := 1; n <= maxLen; n++ {\n\t\tvar next []string\n\t\tfor _, s := range level {\n\t\t\tfor _, c := range lhvAlphabet {\n\t\t\t\tnext = append(next, s+string([]byte{c}))\n\t\t\t}\n\t\t}\n\t\tout = append(out, next...)\n\t\tlevel = next\n\t}\n\treturn out\n}\n\n")
	// call wrapper
	var formal, actual, show []string
	for _, pr := range params {
		formal = append(formal, pr.name+" "+pr.goType)
		actual = append(actual, pr.name)
		show = append(show, "%#v")
	}
	fmt.Fprintf(&sb, "func lhvCall(%s) (msg string) {\n\tdefer func() {\n\t\tif r := recover(); r != nil {\n\t\t\tmsg = fmt.Sprint(r)\n\t\t}\n\t}()\n\t%s(%s)\n\treturn \"\"\n}\n\n", strings.Join(formal, ", "), fn.Name(), strings.Join(actual, ", "))
	fmt.Fprintf(&sb, "func TestLhvWitness(t *testing.T) {\n\tdeadline := time.Now().Add(25 * time.Second)\n\tstrs := lhvStrings(%d)\n\t_ = strs\n", maxLen)
	// nested loops
	indent := "\t"
	closers := 0
	var emitLoops func(ps []witParam, prefix string)
	emitLoops = func(ps []witParam, prefix string) {
		for _, pr := range ps {
			v := prefix + pr.name
			switch pr.gen {
			case "str":
				fmt.Fprintf(&sb, "%sfor _, s_%s := range strs {\n%s\t%s := %s(s_%s)\n", indent, sanit(v), indent, declName2(v), pr.goType, sanit(v))
			case "bytes":
				fmt.Fprintf(&sb, "%sfor _, s_%s := range strs {\n%s\t%s := %s(s_%s)\n", indent, sanit(v), indent, declName2(v), pr.goType, sanit(v))
			case "strs":
				fmt.Fprintf(&sb, "%sfor _, s_%s := range strs {\n%s\t%s := %s{s_%s}\n", indent, sanit(v), indent, declName2(v), pr.goType, sanit(v))
			case "int":
				fmt.Fprintf(&sb, "%sfor _, i_%s := range lhvInts {\n%s\t%s := %s(i_%s)\n", indent, sanit(v), indent, declName2(v), pr.goType, sanit(v))
			case "bool":
				fmt.Fprintf(&sb, "%sfor _, %s := range []%s{false, true} {\n", indent, declName2(v), pr.goType)
			case "struct":
				// fields first, then the struct value
				save := indent
				emitLoops(pr.fields, v+"_")
				var inits []string
				for _, fl := range pr.fields {
					inits = append(inits, fl.name+": "+declName2(v+"_"+fl.name))
				}
				fmt.Fprintf(&sb, "%s%s := %s{%s}\n", indent, declName2(v), pr.goType, strings.Join(inits, ", "))
				_ = save
				continue
			}
			indent += "\t"
			closers++
		}
	}
	emitLoops(params, "")
	fmt.Fprintf(&sb, "%sif time.Now().After(deadline) {\n%s\tfmt.Println(\"LHV-WITNESS-NONE budget exhausted\")\n%s\treturn\n%s}\n", indent, indent, indent, indent)
	fmt.Fprintf(&sb, "%sif msg := lhvCall(%s); msg != \"\" {\n%s\tfmt.Printf(\"LHV-WITNESS %s(%s) panics: %%s\\n\", %s, msg)\n%s\tt.Fatalf(\"witness found\")\n%s}\n", indent, strings.Join(actual, ", "), indent, fn.Name(), strings.Join(show, ", "), strings.Join(actual, ", "), indent, indent)
	for k := 0; k < closers; k++ {
		indent = indent[:len(indent)-1]
		fmt.Fprintf(&sb, "%s}\n", indent)
	}
	sb.WriteString("\tfmt.Println(\"LHV-WITNESS-NONE no panic for any enumerated input\")\n}\n")

	return p.runWitnessTest(cfg, fn, sb.String(), replayPath, "enumeration of small inputs over the byte constants of the function, real function called under recover(), go test -overlay")
}

func (p *Program) runWitnessTest(cfg *CheckConfig, fn *ssa.Function, src, replayPath, how string) string {
	testFile := strings.TrimSuffix(replayPath, ".json") + ".witness_test.go.txt"
	if err := os.WriteFile(testFile, []byte(src), 0o644); err != nil {
		return ""
	}
	pkgDir := strings.TrimPrefix(fn.Pkg.Pkg.Path(), "luahelper-lsp/")
	target := filepath.Join(p.RepoDir, "luahelper-lsp", pkgDir, "zz_lhv_witness_test.go")
	ov := filepath.Join(cfg.WorkDir, "witness_overlay.json")
	ovData, _ := json.Marshal(map[string]map[string]string{"Replace": {target: testFile}})
	_ = os.WriteFile(ov, ovData, 0o644)
	cmd := exec.Command("go", "test", "-overlay", ov, "-vet=off", "-count=1", "-timeout", "60s", "-run", "^TestLhvWitness$", "./"+pkgDir)
	cmd.Dir = filepath.Join(p.RepoDir, "luahelper-lsp")
	cmd.Env = append(os.Environ(), "GOFLAGS=-mod=mod", "GOPROXY=off", "GOSUMDB=off", "GOTOOLCHAIN=local")
	out, _ := cmd.CombinedOutput()
	wit := ""
	for _, l := range strings.Split(string(out), "\n") {
		if strings.HasPrefix(l, "LHV-WITNESS ") {
			wit = strings.TrimPrefix(l, "LHV-WITNESS ")
		}
	}
	// record in the replay file
	if data, err := os.ReadFile(replayPath); err == nil {
		var rec map[string]interface{}
		if json.Unmarshal(data, &rec) == nil {
			rec["witness_search"] = map[string]interface{}{"test": testFile, "found": wit != "", "witness": wit, "output": truncate(string(out), 2000),
				"how": how}
			if nd, err := json.MarshalIndent(rec, "", " "); err == nil {
				_ = os.WriteFile(replayPath, nd, 0o644)
			}
		}
	}
	if wit == "" {
		return ""
	}
	if len(wit) > 160 {
		wit = wit[:160] + "..."
	}
	return "replayed-on-the-real-code: " + wit
}

// lexerWitness: for a failed obligation inside a method of *Lexer the whole lexer is run over small source texts
// (NewLexer + NextTokenStruct until EOF), each in its own goroutine with a time limit: a panic or a run that does
// not return within the limit is a witness.
func (p *Program) lexerWitness(cfg *CheckConfig, f *OblResult, fn *ssa.Function, replayPath string) string {
	alpha := alphabetOfN(fn, 28)
	maxSuffix := 3
	if len(alpha) > 12 {
		maxSuffix = 2
	}
	var sb strings.Builder
	sb.WriteString("package lexer\n\nimport (\n\t\"fmt\"\n\t\"testing\"\n\t\"time\"\n)\n\n")
	fmt.Fprintf(&sb, "// generated by lhv: witness search for the failed obligation\n//   %s\n", f.Obl.Name)
	sb.WriteString("var lhvAlphabet = []byte{")
	for _, a := range alpha {
		fmt.Fprintf(&sb, "%d, ", a)
	}
	fmt.Fprintf(&sb, "}\n\nconst lhvMaxSuffix = %d\n\n", maxSuffix)
	sb.WriteString(`func lhvLex(src string) (msg string) {
	done := make(chan string, 1)
	go func() {
		defer func() {
			if r := recover(); r != nil {
				done <- fmt.Sprint("panics: ", r)
			}
		}()
		l := NewLexer([]byte(src), "witness")
		l.SetErrHandler(func(ParseError) {})
		for n := 0; ; n++ {
			l.NextTokenStruct()
			if l.GetNowToken().tokenKind == TkEOF {
				done <- ""
				return
			}
			if n > 4*len(src)+16 {
				done <- "keeps producing tokens without reaching the end of the text"
				return
			}
		}
	}()
	select {
	case m := <-done:
		return m
	case <-time.After(300 * time.Millisecond):
		return "does not return (no token after 300 ms)"
	}
}

func TestLhvWitness(t *testing.T) {
	deadline := time.Now().Add(25 * time.Second)
	// lexical contexts in which the scanners run, each followed by every short text over the function's byte constants
	contexts := []string{"", "\"", "\"\\", "'", "'\\", "[[", "[=[", "--", "--[[", "0x", "0", ".", "a = "}
	level := []string{""}
	all := []string{""}
	for n := 1; n <= lhvMaxSuffix; n++ {
		var next []string
		for _, s := range level {
			for _, c := range lhvAlphabet {
				next = append(next, s+string([]byte{c}))
			}
		}
		all = append(all, next...)
		level = next
	}
	for _, suffix := range all {
		for _, ctx := range contexts {
			src := ctx + suffix
			if time.Now().After(deadline) {
				fmt.Println("LHV-WITNESS-NONE budget exhausted")
				return
			}
			if msg := lhvLex(src); msg != "" {
				fmt.Printf("LHV-WITNESS lexing %#v %s\n", src, msg)
				t.Fatalf("witness found")
			}
		}
	}
	fmt.Println("LHV-WITNESS-NONE no panic or hang for any enumerated input")
}
`)
	return p.runWitnessTest(cfg, fn, sb.String(), replayPath, "enumeration of small source texts over the byte constants of the function; the real lexer is run to the end of each under recover() with a time limit, go test -overlay")
}

// parserWitness: for an obligation inside package parser the WHOLE parser is run over small source texts (so that every
// function is entered only in states the lexer and its callers can really produce): contexts in which the function's
// byte constants matter, each followed by every short text over those constants. The parser's own recover() is
// bypassed; the recovered sentinel (*lexer.TooManyErr) is not a fault.
func (p *Program) parserWitness(cfg *CheckConfig, f *OblResult, fn *ssa.Function, replayPath string) string {
	alpha := alphabetOfN(fn, 12)
	var sb strings.Builder
	sb.WriteString("package parser\n\nimport (\n\t\"fmt\"\n\t\"testing\"\n\t\"time\"\n\n\t\"luahelper-lsp/langserver/check/compiler/lexer\"\n)\n\n")
	fmt.Fprintf(&sb, "// generated by lhv: witness search for\n//   %s\n", f.Obl.Name)
	sb.WriteString("var lhvAlphabet = []byte{")
	for _, a := range alpha {
		fmt.Fprintf(&sb, "%d, ", a)
	}
	sb.WriteString("}\n\n")
	sb.WriteString(`func lhvParse(src string) (msg string) {
	done := make(chan string, 1)
	go func() {
		defer func() {
			if r := recover(); r != nil {
				if _, sentinel := r.(*lexer.TooManyErr); sentinel {
					done <- ""
					return
				}
				done <- fmt.Sprint("panics: ", r)
			}
		}()
		p := CreateParser([]byte(src), "witness")
		p.l.SkipFirstLineComment()
		p.parseBlock()
		done <- ""
	}()
	select {
	case m := <-done:
		return m
	case <-time.After(500 * time.Millisecond):
		return "does not return (500 ms)"
	}
}

func TestLhvWitness(t *testing.T) {
	deadline := time.Now().Add(25 * time.Second)
	contexts := []string{"a = ", "a = 0x", "a = 0X", "a = .", "a = 1", "a = 0x1", "a = 0x.", "a = \"", "a = '", "a = [[", "", "local a <", "f(", "a = {", "for i = "}
	level := []string{""}
	all := []string{""}
	for n := 1; n <= 3; n++ {
		var next []string
		for _, s := range level {
			for _, c := range lhvAlphabet {
				next = append(next, s+string([]byte{c}))
			}
		}
		all = append(all, next...)
		level = next
	}
	for _, suffix := range all {
		for _, ctx := range contexts {
			src := ctx + suffix
			if time.Now().After(deadline) {
				fmt.Println("LHV-WITNESS-NONE budget exhausted")
				return
			}
			if msg := lhvParse(src); msg != "" {
				fmt.Printf("LHV-WITNESS parsing %#v %s\n", src, msg)
				t.Fatalf("witness found")
			}
		}
	}
	fmt.Println("LHV-WITNESS-NONE no panic or hang for any enumerated input")
}
`)
	return p.runWitnessTest(cfg, fn, sb.String(), replayPath, "enumeration of small source texts (15 contexts x every text of up to 3 bytes over the function's byte constants); the real parser is run over each with its recover() bypassed, go test -overlay")
}

func sanit(s string) string { return strings.ReplaceAll(s, ".", "_") }
func declName2(s string) string { return sanit(s) }
