package engine

import (
	"io"
	"bufio"
	"encoding/json"
	"fmt"
	"os"
	"os/exec"
	"path/filepath"
	"strings"
)

// tryReplay attempts to turn a failed obligation into a concrete failing input on the real code.
// No generic model-to-input concretisation is built (see DESIGN.md 2.7). For failed safety obligations of functions
// over plain data a witness search on the real code is run (witness.go); otherwise it returns "", and the VIOLATION
// line then ends with no-failing-input-found. Failing inputs exist for the recorded findings, as Go tests
// under known_findings_replays/ (run with `lhv replay <file>.go.txt`).
func (p *Program) tryReplay(cfg *CheckConfig, f *OblResult, replayPath string) string {
	return p.tryWitness(cfg, f, replayPath)
}

// Replay re-decides what a replay file records, against the CURRENT tree.
//   - <obligation>.json (written next to a VIOLATION line): the named obligation is regenerated from the current
//     source of its function and solved again; the stored query is solved again too. Exit 1 iff the obligation
//     still fails on the current tree.
//   - <name>_test.go.txt (known_findings_replays/): a Go test, injected into the package named on its first line
//     with go test -overlay (nothing is written under the repository); exit 1 iff the test fails.
func Replay(p *Program, repoDir, path, work string) int {
	if strings.HasSuffix(path, ".go.txt") || strings.HasSuffix(path, "_test.go") {
		return replayGoTest(repoDir, path, work)
	}
	data, err := os.ReadFile(path)
	if err != nil {
		fmt.Println("replay:", err)
		return 2
	}
	var rec struct {
		Obligation string `json:"obligation"`
		Function   string `json:"function"`
		Property   string `json:"property"`
		SMT2       string `json:"smt2"`
		Status     string `json:"solver_status"`
		Clause     string `json:"clause"`
		At         string `json:"at"`
	}
	if err := json.Unmarshal(data, &rec); err != nil {
		fmt.Println("replay:", err)
		return 2
	}
	fmt.Printf("REPLAY obligation=%s\n  clause: %s\n  at: %s\n  recorded answer: %s\n", rec.Obligation, rec.Clause, rec.At, rec.Status)
	if rec.SMT2 != "" {
		r := Solve(work, "stored", rec.SMT2, 30, false)
		fmt.Printf("  stored query solved again: %s (%s, %.2fs)\n", r.Status, r.Solver, r.Time)
	}
	fn := p.Funcs[rec.Function]
	if fn == nil {
		fmt.Println("  current tree: function not found (renamed or removed)")
		return 2
	}
	cfg := &CheckConfig{Property: rec.Property, Tier: "quick", WorkDir: work, Timeout: 10, Jobs: 8}
	rep := p.CheckFunction(fn, cfg)
	if strings.HasSuffix(rec.Obligation, "#contract-binding") {
		if rep.Err != "" {
			fmt.Println("  current tree: the contract still does not bind to the code:", rep.Err)
			return 1
		}
		fmt.Println("  current tree: the contract binds (all obligations of the function are generated)")
		return 0
	}
	if strings.HasSuffix(rec.Obligation, "#bounded:unchecked-safety") {
		// the generated enumeration test is stored next to the record
		return replayGoTest(repoDir, strings.TrimSuffix(path, ".json")+".witness_test.go.txt", work)
	}
	if rep.Err != "" {
		fmt.Println("  current tree: engine error:", rep.Err)
		return 2
	}
	for _, r := range rep.Results {
		if r.Obl.Name == rec.Obligation {
			fmt.Printf("  current tree: %s (%s by %s)\n", r.Status, r.Res.Status, r.Res.Solver)
			if r.OK {
				return 0
			}
			return 1
		}
	}
	fmt.Println("  current tree: no obligation of that name is generated any more (the code or the contract changed)")
	return 2
}

// runGoTestOverlay injects the Go test file at path into its package (named on its first lines) with go test -overlay
// and runs it against the tree at repoDir; ok reports whether the test passed.
func runGoTestOverlay(repoDir, path, work string) (string, bool) {
	old := os.Stdout
	r, w, _ := os.Pipe()
	os.Stdout = w
	code := replayGoTest(repoDir, path, work)
	w.Close()
	os.Stdout = old
	data, _ := io.ReadAll(r)
	return string(data), code == 0
}

func replayGoTest(repoDir, path, work string) int {
	f, err := os.Open(path)
	if err != nil {
		fmt.Println("replay:", err)
		return 2
	}
	sc := bufio.NewScanner(f)
	sc.Buffer(make([]byte, 1<<20), 1<<20)
	pkgDir, pkgName := "", ""
	for sc.Scan() {
		line := sc.Text()
		if strings.HasPrefix(line, "package ") {
			pkgName = strings.TrimSpace(strings.TrimPrefix(line, "package "))
			break
		}
		if i := strings.Index(line, "luahelper-lsp/"); i >= 0 && pkgDir == "" {
			pkgDir = strings.Fields(line[i:])[0]
			pkgDir = strings.TrimRight(pkgDir, ".,;:)")
		}
	}
	f.Close()
	if pkgDir == "" {
		// default locations by package clause
		pkgDir = map[string]string{"langserver": "luahelper-lsp/langserver", "lexer": "luahelper-lsp/langserver/check/compiler/lexer",
			"parser": "luahelper-lsp/langserver/check/compiler/parser", "check": "luahelper-lsp/langserver/check",
			"common": "luahelper-lsp/langserver/check/common", "results": "luahelper-lsp/langserver/check/results",
			"annotateparser": "luahelper-lsp/langserver/check/annotation/annotateparser", "lspcommon": "luahelper-lsp/langserver/lspcommon",
			"codingconv": "luahelper-lsp/langserver/codingconv", "stringutil": "luahelper-lsp/langserver/stringutil"}[pkgName]
	}
	if pkgDir == "" {
		fmt.Println("replay: cannot tell which package the test belongs to (first comment line should name the directory)")
		return 2
	}
	abs, _ := filepath.Abs(path)
	target := filepath.Join(repoDir, pkgDir, "zz_lhv_replay_test.go")
	ov := filepath.Join(work, "overlay.json")
	ovData, _ := json.Marshal(map[string]map[string]string{"Replace": {target: abs}})
	_ = os.WriteFile(ov, ovData, 0o644)
	cmd := exec.Command("go", "test", "-overlay", ov, "-vet=off", "-count=1", "-timeout", "120s", "-run", "Replay|Seed|seed|ZZ|LhvWitness|Bounded", "./"+strings.TrimPrefix(pkgDir, "luahelper-lsp/"))
	cmd.Dir = filepath.Join(repoDir, "luahelper-lsp")
	cmd.Env = append(os.Environ(), "GOFLAGS=-mod=mod", "GOPROXY=off", "GOSUMDB=off", "GOTOOLCHAIN=local")
	out, err := cmd.CombinedOutput()
	fmt.Print(string(out))
	if err != nil {
		fmt.Println("REPLAY result=test-fails-on-the-current-tree")
		return 1
	}
	fmt.Println("REPLAY result=test-passes-on-the-current-tree")
	return 0
}
