package engine

// tryReplay attempts to turn a failed obligation into a concrete failing input on the real code.
// It returns "" when no replay harness exists for the obligation's function (the VIOLATION line
// then ends with no-failing-input-found).
func (p *Program) tryReplay(cfg *CheckConfig, f *OblResult, replayPath string) string {
	return ""
}
