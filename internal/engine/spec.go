package engine

import (
	"fmt"
	"regexp"
	"strconv"
	"strings"
	"unicode"
)

// ---- contract expression AST ----

type SExpr interface{ String() string }

type SIdent struct{ Name string }
type SInt struct{ V string }
type SStr struct{ V string }
type SBool struct{ V bool }
type SUnary struct {
	Op string
	X  SExpr
}
type SBinary struct {
	Op   string
	X, Y SExpr
}
type SCond struct{ C, A, B SExpr }
type SCall struct {
	Fn   string
	Args []SExpr
}
type SSel struct {
	X    SExpr
	Name string
}
type SIndex struct{ X, I SExpr }
type SSlice struct{ X, Lo, Hi SExpr }

func (e *SIdent) String() string  { return e.Name }
func (e *SInt) String() string    { return e.V }
func (e *SStr) String() string    { return strconv.Quote(e.V) }
func (e *SBool) String() string   { return fmt.Sprint(e.V) }
func (e *SUnary) String() string  { return e.Op + e.X.String() }
func (e *SBinary) String() string { return "(" + e.X.String() + " " + e.Op + " " + e.Y.String() + ")" }
func (e *SCond) String() string {
	return "(" + e.C.String() + " ? " + e.A.String() + " : " + e.B.String() + ")"
}
func (e *SCall) String() string {
	var a []string
	for _, x := range e.Args {
		a = append(a, x.String())
	}
	return e.Fn + "(" + strings.Join(a, ", ") + ")"
}
func (e *SSel) String() string   { return e.X.String() + "." + e.Name }
func (e *SIndex) String() string { return e.X.String() + "[" + e.I.String() + "]" }
func (e *SSlice) String() string {
	lo, hi := "", ""
	if e.Lo != nil {
		lo = e.Lo.String()
	}
	if e.Hi != nil {
		hi = e.Hi.String()
	}
	return e.X.String() + "[" + lo + ":" + hi + "]"
}

// ---- lexer ----

type stok struct {
	kind string // id, int, str, op, eof
	text string
}

func slex(src string) ([]stok, error) {
	var toks []stok
	i := 0
	for i < len(src) {
		c := src[i]
		switch {
		case c == ' ' || c == '\t' || c == '\n' || c == '\r':
			i++
		case unicode.IsLetter(rune(c)) || c == '_':
			j := i
			for j < len(src) && (unicode.IsLetter(rune(src[j])) || unicode.IsDigit(rune(src[j])) || src[j] == '_' || src[j] == '$') {
				j++
			}
			toks = append(toks, stok{"id", src[i:j]})
			i = j
		case c >= '0' && c <= '9':
			j := i
			for j < len(src) && (unicode.IsDigit(rune(src[j])) || unicode.IsLetter(rune(src[j]))) {
				j++
			}
			n, err := strconv.ParseInt(src[i:j], 0, 64)
			if err != nil {
				return nil, fmt.Errorf("bad number %q", src[i:j])
			}
			toks = append(toks, stok{"int", strconv.FormatInt(n, 10)})
			i = j
		case c == '\'':
			// char literal
			j := i + 1
			for j < len(src) && src[j] != '\'' {
				if src[j] == '\\' {
					j++
				}
				j++
			}
			if j >= len(src) {
				return nil, fmt.Errorf("unterminated char literal")
			}
			r, _, _, err := strconv.UnquoteChar(src[i+1:j], '\'')
			if err != nil {
				return nil, fmt.Errorf("bad char literal %s", src[i:j+1])
			}
			toks = append(toks, stok{"int", strconv.Itoa(int(r))})
			i = j + 1
		case c == '"':
			j := i + 1
			for j < len(src) && src[j] != '"' {
				if src[j] == '\\' {
					j++
				}
				j++
			}
			if j >= len(src) {
				return nil, fmt.Errorf("unterminated string literal")
			}
			s, err := strconv.Unquote(src[i : j+1])
			if err != nil {
				return nil, fmt.Errorf("bad string literal %s", src[i:j+1])
			}
			toks = append(toks, stok{"str", s})
			i = j + 1
		default:
			ops := []string{"<==>", "==>", "&&", "||", "==", "!=", "<=", ">=", "<<", ">>", "::", "+", "-", "*", "/", "%", "&", "|", "^", "<", ">", "!", "(", ")", "[", "]", ",", ".", "?", ":", "="}
			found := false
			for _, op := range ops {
				if strings.HasPrefix(src[i:], op) {
					toks = append(toks, stok{"op", op})
					i += len(op)
					found = true
					break
				}
			}
			if !found {
				return nil, fmt.Errorf("unexpected character %q in %q", c, src)
			}
		}
	}
	toks = append(toks, stok{"eof", ""})
	return toks, nil
}

type sparser struct {
	toks []stok
	pos  int
}

func (p *sparser) peek() stok { return p.toks[p.pos] }
func (p *sparser) next() stok { t := p.toks[p.pos]; p.pos++; return t }
func (p *sparser) accept(op string) bool {
	if p.peek().kind == "op" && p.peek().text == op {
		p.pos++
		return true
	}
	return false
}
func (p *sparser) expect(op string) error {
	if !p.accept(op) {
		return fmt.Errorf("expected %q, got %q", op, p.peek().text)
	}
	return nil
}

var binPrec = map[string]int{
	"<==>": 1, "==>": 2, "||": 4, "&&": 5,
	"==": 6, "!=": 6, "<": 6, "<=": 6, ">": 6, ">=": 6,
	"+": 7, "-": 7, "|": 7, "^": 7,
	"*": 8, "/": 8, "%": 8, "&": 8, "<<": 8, ">>": 8,
}

// ParseSpecExpr parses one contract expression.
func ParseSpecExpr(src string) (SExpr, error) {
	toks, err := slex(src)
	if err != nil {
		return nil, err
	}
	p := &sparser{toks: toks}
	e, err := p.expr(0)
	if err != nil {
		return nil, fmt.Errorf("%v in %q", err, src)
	}
	if p.peek().kind != "eof" {
		return nil, fmt.Errorf("trailing %q in %q", p.peek().text, src)
	}
	return e, nil
}

func (p *sparser) expr(minPrec int) (SExpr, error) {
	lhs, err := p.unary()
	if err != nil {
		return nil, err
	}
	for {
		t := p.peek()
		if t.kind != "op" {
			break
		}
		if t.text == "?" && minPrec <= 3 {
			p.next()
			a, err := p.expr(3)
			if err != nil {
				return nil, err
			}
			if err := p.expect(":"); err != nil {
				return nil, err
			}
			b, err := p.expr(3)
			if err != nil {
				return nil, err
			}
			lhs = &SCond{lhs, a, b}
			continue
		}
		prec, ok := binPrec[t.text]
		if !ok || prec < minPrec {
			break
		}
		p.next()
		nextMin := prec + 1
		if t.text == "==>" {
			nextMin = prec // right assoc
		}
		rhs, err := p.expr(nextMin)
		if err != nil {
			return nil, err
		}
		lhs = &SBinary{t.text, lhs, rhs}
	}
	return lhs, nil
}

func (p *sparser) unary() (SExpr, error) {
	t := p.peek()
	if t.kind == "op" && (t.text == "!" || t.text == "-") {
		p.next()
		x, err := p.unary()
		if err != nil {
			return nil, err
		}
		return &SUnary{t.text, x}, nil
	}
	return p.postfix()
}

func (p *sparser) postfix() (SExpr, error) {
	var e SExpr
	t := p.next()
	switch t.kind {
	case "int":
		e = &SInt{t.text}
	case "str":
		e = &SStr{t.text}
	case "id":
		switch t.text {
		case "true":
			e = &SBool{true}
		case "false":
			e = &SBool{false}
		default:
			e = &SIdent{t.text}
		}
	case "op":
		if t.text == "(" {
			x, err := p.expr(0)
			if err != nil {
				return nil, err
			}
			if err := p.expect(")"); err != nil {
				return nil, err
			}
			e = x
		} else {
			return nil, fmt.Errorf("unexpected %q", t.text)
		}
	default:
		return nil, fmt.Errorf("unexpected end of expression")
	}
	for {
		switch {
		case p.accept("."):
			id := p.next()
			if id.kind != "id" {
				return nil, fmt.Errorf("expected field name")
			}
			e = &SSel{e, id.text}
		case p.accept("("):
			var args []SExpr
			if !p.accept(")") {
				for {
					a, err := p.expr(0)
					if err != nil {
						return nil, err
					}
					args = append(args, a)
					if p.accept(")") {
						break
					}
					if err := p.expect(","); err != nil {
						return nil, err
					}
				}
			}
			name := ""
			switch f := e.(type) {
			case *SIdent:
				name = f.Name
			case *SSel:
				name = f.X.String() + "." + f.Name
			default:
				return nil, fmt.Errorf("call of non-name")
			}
			e = &SCall{name, args}
		case p.accept("["):
			var lo, hi SExpr
			var err error
			if p.accept(":") {
				if !p.accept("]") {
					hi, err = p.expr(0)
					if err != nil {
						return nil, err
					}
					if err := p.expect("]"); err != nil {
						return nil, err
					}
				}
				e = &SSlice{e, nil, hi}
				continue
			}
			lo, err = p.expr(0)
			if err != nil {
				return nil, err
			}
			if p.accept(":") {
				if !p.accept("]") {
					hi, err = p.expr(0)
					if err != nil {
						return nil, err
					}
					if err := p.expect("]"); err != nil {
						return nil, err
					}
				}
				e = &SSlice{e, lo, hi}
				continue
			}
			if err := p.expect("]"); err != nil {
				return nil, err
			}
			e = &SIndex{e, lo}
		default:
			return e, nil
		}
	}
}

// ---- contract files ----

type Clause struct {
	Kind  string // requires ensures invariant decreases
	Tag   string // optional label
	Props []string
	Src   string
	Expr  SExpr
	Loop  int // for invariant/decreases
	Cand  bool // inferred candidate (Houdini)
	Site  string // for "at call": callee#ordinal
	More    []SExpr // further components of a lexicographic measure
	LoopSel string // alternative loop selector, e.g. "range:jsonConfig.IgnoreFileErr#0"
	File  string
	Line  int
}

type SpecParam struct {
	Name string
	Type string // textual type
}

type SpecFunc struct {
	Pkg    string // declaring package (types in the signature resolve there)
	Name   string
	Params []SpecParam
	Result string
	Body   SExpr // nil for rec (uninterpreted)
	Src    string
}

type Axiom struct {
	Pkg      string
	Name     string
	Vars     []SpecParam
	Triggers []SExpr // call patterns
	Body     SExpr
	Src      string
}

type Lemma struct {
	Name  string
	Props []string
	Vars  []SpecParam
	Body  SExpr
	Uses  []string // extra instantiation hints: expressions over Vars to seed instantiation
	Src   string
	File  string
	Line  int
}

type FuncContract struct {
	Pkg      string // package path
	Name     string // e.g. "offsetForStartAndEnd", "(*Lexer).next", "offsetForStartAndEnd$1"
	Props    []string
	Requires []*Clause
	Ensures  []*Clause
	Invs     []*Clause
	Decs     []*Clause
	Assigns  []string
	Pure     bool // body is its own contract: inlined at call sites
	Sweep    bool // no-panic sweep
	Trusted  bool // contract assumed, body not checked
	Transparent bool // swept only: callers keep seeing the body (inlined or summarised) exactly as if it had no contract
	Functional bool // result is a function of the arguments alone (reads only immutable data): calls are modelled by an uninterpreted function
	Recovers string
	Panics   []string // allowed explicit panic types
	Measure  *Clause  // recursion measure
	HitSites map[string]bool // call sites counted by hits("name#k")
	ResSites map[string]bool // call sites whose last result is recorded for lastresult("name#k")
	Snaps    map[string][]SExpr // call site -> expressions whose value right after that call is recorded (snapshot("name#k", e))
	AtCalls  []*Clause // assertions after the k-th call of a callee: Tag2 = "callee#k"
	Assumes  []*Clause // loop-head assumptions (listed in evidence, not proved)
	Steps    []*Clause // per-iteration relations, checked at every back edge; prev(e) is e at the head of the iteration
	Exits    []*Clause // "exits-early-only-if P": every edge that leaves the loop from inside its body (break, return, goto) needs P
	Extra    map[string][]string
	File     string
	Line     int
}

// IsTransparent: the block asks for a sweep of the body and states nothing a caller could use or would have to establish.
func (c *FuncContract) IsTransparent() bool {
	return c != nil && c.Transparent && len(c.Props) == 0 && len(c.Requires) == 0 && len(c.Ensures) == 0 && len(c.Assigns) == 0 &&
		!c.Pure && !c.Trusted && !c.Functional && c.Measure == nil && c.Recovers == ""
}

type GuardSpec struct {
	Pkg, Type, Mutex string
	Fields         map[string]bool
}

type FrozenSpec struct {
	TypePkg string   // package whose struct types are immutable ...
	Except  []string // ... outside these packages (path suffixes)
	File    string
}

type ContractSet struct {
	Frozen     []*FrozenSpec
	FrozenFields []string
	Guards     []*GuardSpec
	LockExempt map[string]bool // function keys
	LockEntry  map[string]bool // entry points called by the dispatcher without the mutex
	DefaultNonNil map[string][]string // package path -> parameter names assumed/required non-nil in every contracted function
	TypeInvs map[string][]*Clause // "pkgpath.TypeName" -> invariants over "self"
	Specs  map[string]*SpecFunc
	Axioms []*Axiom
	Lemmas []*Lemma
	Funcs  map[string]*FuncContract // key pkgpath + "." + name
	Files  []string
}

var hitsRe = regexp.MustCompile(`hits\("([^"]+)"\)`)
var lastResRe = regexp.MustCompile(`lastresult\("([^"]+)"\)`)

var clauseKeywords = map[string]bool{
	"spec": true, "rec": true, "axiom": true, "lemma": true, "func": true, "props": true,
	"requires": true, "ensures": true, "loop": true, "assigns": true, "pure": true, "sweep": true,
	"trusted": true, "end": true, "at": true, "functional": true, "typeinv": true, "unchecked": true, "default-nonnil": true, "guarded": true, "lock-exempt": true, "lock-entry": true, "frozen": true, "frozen-field": true, "recovers": true, "panics": true, "measure": true, "use": true, "opt": true, "transparent": true,
}

func parseParams(s string) ([]SpecParam, error) {
	s = strings.TrimSpace(s)
	if s == "" {
		return nil, nil
	}
	var out []SpecParam
	for _, part := range strings.Split(s, ",") {
		fs := strings.Fields(strings.TrimSpace(part))
		if len(fs) != 2 {
			return nil, fmt.Errorf("bad parameter %q (want: name type)", part)
		}
		out = append(out, SpecParam{fs[0], fs[1]})
	}
	return out, nil
}

func parseTags(rest string) (tag string, props []string, body string) {
	rest = strings.TrimSpace(rest)
	if strings.HasPrefix(rest, "[") {
		if i := strings.Index(rest, "]"); i > 0 {
			for _, f := range strings.FieldsFunc(rest[1:i], func(r rune) bool { return r == ',' || r == ' ' }) {
				if len(f) >= 3 && f[0] == 'C' && unicode.IsDigit(rune(f[1])) {
					props = append(props, f)
				} else {
					tag = f
				}
			}
			rest = strings.TrimSpace(rest[i+1:])
		}
	}
	return tag, props, rest
}

// ParseContractText parses the //@ lines of one file belonging to package pkgPath.
func (cs *ContractSet) ParseContractText(pkgPath, file, text string) error {
	type rawClause struct {
		kw, rest string
		line     int
	}
	var raws []rawClause
	for ln, line := range strings.Split(text, "\n") {
		t := strings.TrimSpace(line)
		if !strings.HasPrefix(t, "//@") {
			continue
		}
		t = strings.TrimSpace(t[3:])
		if t == "" {
			continue
		}
		kw := t
		rest := ""
		if i := strings.IndexAny(t, " \t["); i >= 0 {
			kw, rest = t[:i], strings.TrimSpace(t[i:])
		}
		if clauseKeywords[kw] {
			raws = append(raws, rawClause{kw, rest, ln + 1})
		} else {
			if len(raws) == 0 {
				return fmt.Errorf("%s:%d: continuation without clause", file, ln+1)
			}
			raws[len(raws)-1].rest += " " + t
		}
	}
	var cur *FuncContract
	var blockProps []string
	var blockMark []int
	for _, rc := range raws {
		errf := func(err error) error { return fmt.Errorf("%s:%d: %v", file, rc.line, err) }
		switch rc.kw {
		case "spec", "rec":
			// NAME(params) TYPE [= expr]
			i := strings.Index(rc.rest, "(")
			j := matchParen(rc.rest, i)
			if i < 0 || j < 0 {
				return errf(fmt.Errorf("bad spec header %q", rc.rest))
			}
			name := strings.TrimSpace(rc.rest[:i])
			params, err := parseParams(rc.rest[i+1 : j])
			if err != nil {
				return errf(err)
			}
			tail := strings.TrimSpace(rc.rest[j+1:])
			sf := &SpecFunc{Pkg: pkgPath, Name: name, Params: params, Src: rc.rest}
			if rc.kw == "spec" {
				k := strings.Index(tail, "=")
				if k < 0 {
					return errf(fmt.Errorf("spec without body"))
				}
				sf.Result = strings.TrimSpace(tail[:k])
				e, err := ParseSpecExpr(tail[k+1:])
				if err != nil {
					return errf(err)
				}
				sf.Body = e
			} else {
				sf.Result = tail
			}
			cs.Specs[name] = sf
		case "axiom", "lemma":
			// NAME [props]: forall a T, b T :: trig, trig :: body      (axiom)
			// NAME [props]: forall a T, b T :: body                    (lemma)
			k := strings.Index(rc.rest, ":")
			if k < 0 {
				return errf(fmt.Errorf("bad %s", rc.kw))
			}
			head := strings.TrimSpace(rc.rest[:k])
			_, props, _ := parseTags(headTags(head))
			name := strings.TrimSpace(strings.SplitN(head, "[", 2)[0])
			body := strings.TrimSpace(rc.rest[k+1:])
			parts := strings.Split(body, "::")
			var vars []SpecParam
			if strings.HasPrefix(strings.TrimSpace(parts[0]), "forall") {
				var err error
				vars, err = parseParams(strings.TrimPrefix(strings.TrimSpace(parts[0]), "forall"))
				if err != nil {
					return errf(err)
				}
				parts = parts[1:]
			}
			if rc.kw == "axiom" {
				if len(parts) != 2 {
					return errf(fmt.Errorf("axiom needs ':: triggers :: body'"))
				}
				ax := &Axiom{Pkg: pkgPath, Name: name, Vars: vars, Src: rc.rest}
				for _, ts := range splitTop(parts[0]) {
					te, err := ParseSpecExpr(ts)
					if err != nil {
						return errf(err)
					}
					ax.Triggers = append(ax.Triggers, te)
				}
				e, err := ParseSpecExpr(parts[1])
				if err != nil {
					return errf(err)
				}
				ax.Body = e
				cs.Axioms = append(cs.Axioms, ax)
			} else {
				lm := &Lemma{Name: name, Props: props, Vars: vars, Src: rc.rest, File: file, Line: rc.line}
				if len(parts) == 2 {
					lm.Uses = splitTop(parts[0])
					parts = parts[1:]
				}
				e, err := ParseSpecExpr(parts[0])
				if err != nil {
					return errf(err)
				}
				lm.Body = e
				cs.Lemmas = append(cs.Lemmas, lm)
			}
		case "guarded":
			// guarded Type mutexField: field field ...
			k := strings.Index(rc.rest, ":")
			if k < 0 {
				return errf(fmt.Errorf("bad guarded clause"))
			}
			hd := strings.Fields(rc.rest[:k])
			if len(hd) != 2 {
				return errf(fmt.Errorf("guarded: want 'Type mutexField: fields'"))
			}
			g := &GuardSpec{Pkg: pkgPath, Type: hd[0], Mutex: hd[1], Fields: map[string]bool{}}
			for _, f := range strings.Fields(rc.rest[k+1:]) {
				g.Fields[f] = true
			}
			cs.Guards = append(cs.Guards, g)
		case "frozen":
			// frozen <type package path suffix> except <pkg suffix> <pkg suffix> ...
			fs := strings.Fields(rc.rest)
			if len(fs) < 1 {
				return errf(fmt.Errorf("frozen: want '<type package> [except pkg...]'"))
			}
			fz := &FrozenSpec{TypePkg: fs[0], File: file}
			for _, f := range fs[1:] {
				if f != "except" {
					fz.Except = append(fz.Except, f)
				}
			}
			cs.Frozen = append(cs.Frozen, fz)
		case "frozen-field":
			// frozen-field <pkg path suffix>.<Type>.<field>: written only while the object is being built
			// (stores into an allocation of the same function), checked by a scan of every store
			fs := strings.Fields(rc.rest)
			if len(fs) != 1 || strings.Count(fs[0], ".") < 2 {
				return errf(fmt.Errorf("frozen-field: want '<pkg>.<Type>.<field>'"))
			}
			cs.FrozenFields = append(cs.FrozenFields, fs[0])
		case "lock-entry":
			if cs.LockEntry == nil {
				cs.LockEntry = map[string]bool{}
			}
			for _, f := range strings.Fields(rc.rest) {
				cs.LockEntry[pkgPath+"."+f] = true
			}
		case "lock-exempt":
			if cs.LockExempt == nil {
				cs.LockExempt = map[string]bool{}
			}
			for _, f := range strings.Fields(rc.rest) {
				cs.LockExempt[pkgPath+"."+f] = true
			}
		case "default-nonnil":
			if cs.DefaultNonNil == nil {
				cs.DefaultNonNil = map[string][]string{}
			}
			cs.DefaultNonNil[pkgPath] = append(cs.DefaultNonNil[pkgPath], strings.Fields(rc.rest)...)
		case "typeinv":
			// typeinv TypeName [tags]: expr over self
			k := strings.Index(rc.rest, ":")
			if k < 0 {
				return errf(fmt.Errorf("bad typeinv"))
			}
			head := strings.TrimSpace(rc.rest[:k])
			tag, props, _ := parseTags(headTags(head))
			tname := strings.TrimSpace(strings.SplitN(head, "[", 2)[0])
			e, err := ParseSpecExpr(rc.rest[k+1:])
			if err != nil {
				return errf(err)
			}
			if cs.TypeInvs == nil {
				cs.TypeInvs = map[string][]*Clause{}
			}
			cs.TypeInvs[pkgPath+"."+tname] = append(cs.TypeInvs[pkgPath+"."+tname], &Clause{Kind: "typeinv", Tag: tag, Props: props, Src: strings.TrimSpace(rc.rest[k+1:]), Expr: e, File: file, Line: rc.line})
		case "func":
			name := strings.TrimSpace(rc.rest)
			if prev, ok := cs.Funcs[pkgPath+"."+name]; ok {
				cur = prev // several blocks (possibly in several files) for one function are merged
			} else {
				cur = &FuncContract{Pkg: pkgPath, Name: name, File: file, Line: rc.line, Extra: map[string][]string{}}
				cs.Funcs[pkgPath+"."+name] = cur
			}
			blockProps = nil
			blockMark = cur.clauseCounts()
		case "end":
			// an untagged clause belongs to the properties named in ITS OWN block (props and sweep of that block):
			// adding a block for another property elsewhere must not move it
			if cur != nil && len(blockProps) > 0 {
				cur.tagUntaggedSince(blockMark, blockProps)
			}
			cur = nil
		default:
			if cur == nil {
				return errf(fmt.Errorf("clause %q outside func", rc.kw))
			}
			switch rc.kw {
			case "props":
				for _, f := range strings.Fields(rc.rest) {
					if !hasProp(cur.Props, f) {
						cur.Props = append(cur.Props, f)
					}
					if !hasProp(blockProps, f) {
						blockProps = append(blockProps, f)
					}
				}
			case "pure":
				cur.Pure = true
			case "sweep":
				cur.Sweep = true
				cur.Extra["sweep"] = append(cur.Extra["sweep"], strings.Fields(rc.rest)...)
				for _, f := range strings.Fields(rc.rest) {
					if !strings.HasPrefix(f, "-") && !hasProp(blockProps, f) {
						blockProps = append(blockProps, f)
					}
				}
			case "trusted":
				cur.Trusted = true
			case "transparent":
				cur.Transparent = true
			case "functional":
				cur.Functional = true
			case "recovers":
				cur.Recovers = strings.TrimSpace(rc.rest)
			case "panics":
				cur.Panics = append(cur.Panics, strings.Fields(rc.rest)...)
			case "assigns":
				cur.Assigns = append(cur.Assigns, strings.Fields(strings.ReplaceAll(rc.rest, ",", " "))...)
			case "unchecked":
				// unchecked <obligation suffix after '#'> <reason...>: the obligation is NOT claimed; it is assumed and listed
				fs := strings.Fields(rc.rest)
				if len(fs) < 2 {
					return errf(fmt.Errorf("unchecked needs an obligation anchor and a reason"))
				}
				cur.Extra["unchecked"] = append(cur.Extra["unchecked"], fs[0])
				cur.Extra["unchecked-reason:"+fs[0]] = []string{strings.Join(fs[1:], " ")}
			case "use", "opt":
				cur.Extra[rc.kw] = append(cur.Extra[rc.kw], rc.rest)
			case "requires", "ensures", "measure":
				for _, m := range hitsRe.FindAllStringSubmatch(rc.rest, -1) {
					if cur.HitSites == nil {
						cur.HitSites = map[string]bool{}
					}
					cur.HitSites[m[1]] = true
				}
				for _, m := range lastResRe.FindAllStringSubmatch(rc.rest, -1) {
					if cur.ResSites == nil {
						cur.ResSites = map[string]bool{}
					}
					cur.ResSites[m[1]] = true
				}
				tag, props, body := parseTags(rc.rest)
				var more []SExpr
				if rc.kw == "measure" {
					// lexicographic tuple: e1, e2, ...
					comps := splitTop(body)
					for _, c := range comps[1:] {
						x, err := ParseSpecExpr(c)
						if err != nil {
							return errf(err)
						}
						more = append(more, x)
					}
					body = comps[0]
				}
				e, err := ParseSpecExpr(body)
				if err != nil {
					return errf(err)
				}
				cl := &Clause{Kind: rc.kw, Tag: tag, Props: props, Src: strings.TrimSpace(rc.rest), Expr: e, More: more, File: file, Line: rc.line}
				switch rc.kw {
				case "requires":
					cur.Requires = append(cur.Requires, cl)
				case "ensures":
					cur.Ensures = append(cur.Ensures, cl)
				case "measure":
					cur.Measure = cl
				}
			case "at":
				// at call CALLEE#k assert [tags] expr
				for _, m := range hitsRe.FindAllStringSubmatch(rc.rest, -1) {
					if cur.HitSites == nil {
						cur.HitSites = map[string]bool{}
					}
					cur.HitSites[m[1]] = true
				}
				for _, m := range lastResRe.FindAllStringSubmatch(rc.rest, -1) {
					if cur.ResSites == nil {
						cur.ResSites = map[string]bool{}
					}
					cur.ResSites[m[1]] = true
				}
				fs := strings.Fields(rc.rest)
				if len(fs) < 4 || fs[0] != "call" {
					return errf(fmt.Errorf("bad at clause (want: at call NAME#k assert expr)"))
				}
				site := fs[1]
				before := len(fs) > 2 && fs[2] == "before"
				i := strings.Index(rc.rest, "assert")
				kw := "assert"
				if len(fs) > 2 && fs[2] == "assume" {
					// at call NAME#k assume expr: an ASSUMED contract of a library function at this call (listed in the evidence)
					i = strings.Index(rc.rest, "assume")
					kw = "assume"
				}
				if i < 0 {
					return errf(fmt.Errorf("at clause without assert"))
				}
				tag, props, body := parseTags(rc.rest[i+len(kw):])
				e, err := ParseSpecExpr(body)
				if err != nil {
					return errf(err)
				}
				kind := "assert"
				if before {
					kind = "assert-before"
				}
				if kw == "assume" {
					kind = "assume-after"
				}
				cur.AtCalls = append(cur.AtCalls, &Clause{Kind: kind, Tag: tag, Props: props, Src: body, Expr: e, Site: site, File: file, Line: rc.line})
			case "loop":
				// loop N invariant|decreases [tags] expr
				for _, m := range hitsRe.FindAllStringSubmatch(rc.rest, -1) {
					if cur.HitSites == nil {
						cur.HitSites = map[string]bool{}
					}
					cur.HitSites[m[1]] = true
				}
				for _, m := range lastResRe.FindAllStringSubmatch(rc.rest, -1) {
					if cur.ResSites == nil {
						cur.ResSites = map[string]bool{}
					}
					cur.ResSites[m[1]] = true
				}
				fs := strings.Fields(rc.rest)
				if len(fs) < 3 {
					return errf(fmt.Errorf("bad loop clause"))
				}
				n, err := strconv.Atoi(fs[0])
				loopSel := ""
				if err != nil {
					if strings.HasPrefix(fs[0], "range:") || strings.HasPrefix(fs[0], "for:") || fs[0] == "all" {
						loopSel = fs[0]
						n = -1
					} else {
						return errf(err)
					}
				}
				kind := fs[1]
				rest := strings.TrimSpace(strings.TrimPrefix(strings.TrimSpace(strings.TrimPrefix(rc.rest, fs[0])), kind))
				tag, props, body := parseTags(rest)
				e, err := ParseSpecExpr(body)
				if err != nil {
					return errf(err)
				}
				cl := &Clause{Kind: kind, Tag: tag, Props: props, Src: body, Expr: e, Loop: n, LoopSel: loopSel, File: file, Line: rc.line}
				switch kind {
				case "invariant":
					cur.Invs = append(cur.Invs, cl)
				case "decreases":
					cur.Decs = append(cur.Decs, cl)
				case "assume":
					cur.Assumes = append(cur.Assumes, cl)
				case "step":
					cur.Steps = append(cur.Steps, cl)
				case "exits-early-only-if":
					cur.Exits = append(cur.Exits, cl)
				default:
					return errf(fmt.Errorf("bad loop clause kind %q", kind))
				}
			}
		}
	}
	return nil
}

func headTags(head string) string {
	if i := strings.Index(head, "["); i >= 0 {
		return head[i:]
	}
	return ""
}

func matchParen(s string, i int) int {
	if i < 0 {
		return -1
	}
	d := 0
	for j := i; j < len(s); j++ {
		switch s[j] {
		case '(':
			d++
		case ')':
			d--
			if d == 0 {
				return j
			}
		}
	}
	return -1
}

// splitTop splits on commas not nested in parentheses/brackets.
func splitTop(s string) []string {
	var out []string
	d := 0
	start := 0
	for i := 0; i < len(s); i++ {
		switch s[i] {
		case '(', '[':
			d++
		case ')', ']':
			d--
		case ',':
			if d == 0 {
				out = append(out, strings.TrimSpace(s[start:i]))
				start = i + 1
			}
		}
	}
	if strings.TrimSpace(s[start:]) != "" {
		out = append(out, strings.TrimSpace(s[start:]))
	}
	return out
}

// AllProps: the properties a clause without its own tag belongs to: the function's props, or, for
// functions that are only swept, the sweep property.
func (c *FuncContract) AllProps() []string {
	seen := map[string]bool{}
	var out []string
	src := c.Props
	if len(src) == 0 {
		src = c.Extra["sweep"]
	}
	for _, p := range src {
		if len(p) >= 3 && p[0] == 'C' && !seen[p] {
			seen[p] = true
			out = append(out, p)
		}
	}
	return out
}

// clauseCounts / tagUntaggedSince implement block-local default properties (see the "end" case of the parser).
func (c *FuncContract) clauseLists() []*[]*Clause {
	return []*[]*Clause{&c.Requires, &c.Ensures, &c.Invs, &c.Decs, &c.Assumes, &c.Steps, &c.AtCalls, &c.Exits}
}

func (c *FuncContract) clauseCounts() []int {
	var out []int
	for _, l := range c.clauseLists() {
		out = append(out, len(*l))
	}
	return out
}

func (c *FuncContract) tagUntaggedSince(mark []int, props []string) {
	for k, l := range c.clauseLists() {
		from := 0
		if k < len(mark) {
			from = mark[k]
		}
		for _, cl := range (*l)[from:] {
			if len(cl.Props) == 0 {
				cl.Props = append([]string{}, props...)
			}
		}
	}
}

// walkSExpr visits every node of a spec expression.
func walkSExpr(e SExpr, f func(SExpr)) {
	if e == nil {
		return
	}
	f(e)
	switch n := e.(type) {
	case *SUnary:
		walkSExpr(n.X, f)
	case *SBinary:
		walkSExpr(n.X, f)
		walkSExpr(n.Y, f)
	case *SCond:
		walkSExpr(n.C, f)
		walkSExpr(n.A, f)
		walkSExpr(n.B, f)
	case *SCall:
		for _, a := range n.Args {
			walkSExpr(a, f)
		}
	case *SSel:
		walkSExpr(n.X, f)
	case *SIndex:
		walkSExpr(n.X, f)
		walkSExpr(n.I, f)
	case *SSlice:
		walkSExpr(n.X, f)
		walkSExpr(n.Lo, f)
		walkSExpr(n.Hi, f)
	}
}

// collectSnaps records the snapshot("site", e) terms of all clauses of a function contract.
func (c *FuncContract) collectSnaps() {
	sets := [][]*Clause{c.Requires, c.Ensures, c.Invs, c.Decs, c.Assumes, c.Steps, c.Exits, c.AtCalls}
	for _, set := range sets {
		for _, cl := range set {
			walkSExpr(cl.Expr, func(n SExpr) {
				call, ok := n.(*SCall)
				if !ok || call.Fn != "snapshot" || len(call.Args) != 2 {
					return
				}
				site, ok := call.Args[0].(*SStr)
				if !ok {
					return
				}
				if c.Snaps == nil {
					c.Snaps = map[string][]SExpr{}
				}
				for _, have := range c.Snaps[site.V] {
					if have.String() == call.Args[1].String() {
						return
					}
				}
				c.Snaps[site.V] = append(c.Snaps[site.V], call.Args[1])
			})
		}
	}
}
