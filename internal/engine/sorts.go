package engine

import (
	"fmt"
	"go/types"
	"sort"
	"strings"
)

// Sorts maps Go types to SMT sorts and owns the datatype declarations and the
// naming of heap keys. One instance per VC file set (per function under proof).
type Sorts struct {
	ids      map[string]string // type string -> short id
	declared map[string]bool   // sort name -> declared
	decls    []string          // datatype declarations in dependency order
	structOf map[string]*types.Struct
	tags     map[string]int // dynamic type tags for interfaces
	tagNames []string
}

func NewSorts() *Sorts {
	return &Sorts{ids: map[string]string{}, declared: map[string]bool{}, structOf: map[string]*types.Struct{}, tags: map[string]int{}}
}

const prelude = `(declare-datatypes ((Str 0)) (((mk-str (s-base (Array Int Int)) (s-off Int) (s-len Int)))))
(declare-datatypes ((Slc 0)) (((mk-slc (c-ref Int) (c-off Int) (c-len Int) (c-cap Int)))))
(declare-datatypes ((Ifc 0)) (((mk-ifc (i-tag Int) (i-ref Int)))))
(declare-fun strord (Str) Int)
(define-fun sid ((s Str)) Int (strord s))
(define-fun streq ((a Str) (b Str)) Bool (= (strord a) (strord b)))
(declare-fun pow2 (Int) Int)
(declare-fun strcat (Str Str) Str)
(declare-fun strsuffix (Str Str) Bool)
(declare-fun strprefix (Str Str) Bool)
(declare-fun strindex (Str Str) Int)
(declare-fun strlastindex (Str Str) Int)
(declare-fun splitlast (Str Str) Str)
`

func mangle(s string) string {
	var b strings.Builder
	for _, r := range s {
		if (r >= 'a' && r <= 'z') || (r >= 'A' && r <= 'Z') || (r >= '0' && r <= '9') {
			b.WriteRune(r)
		} else {
			b.WriteByte('_')
		}
	}
	return b.String()
}

// typeID gives a short stable identifier for a Go type.
func (s *Sorts) typeID(t types.Type) string {
	key := types.TypeString(t, nil)
	if id, ok := s.ids[key]; ok {
		return id
	}
	short := key
	if i := strings.LastIndex(short, "/"); i >= 0 && !strings.ContainsAny(short, "[]{}( ") {
		short = short[i+1:]
	}
	id := mangle(short)
	if len(id) > 40 {
		id = id[:40]
	}
	// ensure unique
	base := id
	n := 0
	for {
		clash := false
		for _, v := range s.ids {
			if v == id {
				clash = true
				break
			}
		}
		if !clash {
			break
		}
		n++
		id = fmt.Sprintf("%s_%d", base, n)
	}
	s.ids[key] = id
	return id
}

func isInteger(t types.Type) bool {
	b, ok := t.Underlying().(*types.Basic)
	return ok && b.Info()&types.IsInteger != 0
}
func isUnsigned(t types.Type) bool {
	b, ok := t.Underlying().(*types.Basic)
	return ok && b.Info()&types.IsUnsigned != 0
}
func isString(t types.Type) bool {
	b, ok := t.Underlying().(*types.Basic)
	return ok && b.Info()&types.IsString != 0
}
func isBool(t types.Type) bool {
	b, ok := t.Underlying().(*types.Basic)
	return ok && b.Info()&types.IsBoolean != 0
}
func isFloat(t types.Type) bool {
	b, ok := t.Underlying().(*types.Basic)
	return ok && b.Info()&types.IsFloat != 0
}

// intBits returns the width of a sized integer type, or 0 when it is modelled as mathematical (int, int64, uint, uint64, uintptr).
func intBits(t types.Type) (bits int, unsigned bool) {
	b, ok := t.Underlying().(*types.Basic)
	if !ok {
		return 0, false
	}
	switch b.Kind() {
	case types.Int8:
		return 8, false
	case types.Int16:
		return 16, false
	case types.Int32:
		return 32, false
	case types.Uint8:
		return 8, true
	case types.Uint16:
		return 16, true
	case types.Uint32:
		return 32, true
	case types.Uint, types.Uint64, types.Uintptr:
		return 64, true
	case types.Int, types.Int64:
		return 64, false
	}
	return 0, false
}

// SortOf returns the SMT sort used for values of Go type t.
func (s *Sorts) SortOf(t types.Type) string {
	switch u := t.Underlying().(type) {
	case *types.Basic:
		switch {
		case u.Info()&types.IsBoolean != 0:
			return "Bool"
		case u.Info()&types.IsInteger != 0:
			return "Int"
		case u.Info()&types.IsString != 0:
			return "Str"
		case u.Info()&types.IsFloat != 0:
			return "Real"
		case u.Kind() == types.UnsafePointer:
			return "Int"
		case u.Kind() == types.UntypedNil:
			return "Int"
		}
		return "Int" // complex etc.: opaque
	case *types.Pointer, *types.Map, *types.Chan, *types.Signature:
		return "Int"
	case *types.Slice:
		return "Slc"
	case *types.Interface:
		return "Ifc"
	case *types.Array:
		return "(Array Int " + s.SortOf(u.Elem()) + ")"
	case *types.Struct:
		return s.structSort(t, u)
	case *types.Tuple:
		return "Int"
	case *types.TypeParam:
		return "Int"
	}
	return "Int"
}

func (s *Sorts) structSort(t types.Type, u *types.Struct) string {
	name := "S_" + s.typeID(t)
	if s.declared[name] {
		return name
	}
	s.declared[name] = true
	s.structOf[name] = u
	// compute field sorts first (declares dependencies before us)
	var parts []string
	for i := 0; i < u.NumFields(); i++ {
		f := u.Field(i)
		parts = append(parts, fmt.Sprintf("(%s %s)", s.fieldSel(name, f.Name(), i), s.SortOf(f.Type())))
	}
	if u.NumFields() == 0 {
		s.decls = append(s.decls, fmt.Sprintf("(declare-datatypes ((%s 0)) (((mk-%s))))", name, name))
	} else {
		s.decls = append(s.decls, fmt.Sprintf("(declare-datatypes ((%s 0)) (((mk-%s %s))))", name, name, strings.Join(parts, " ")))
	}
	return name
}

func (s *Sorts) fieldSel(sortName, field string, idx int) string {
	if field == "_" || field == "" {
		field = fmt.Sprintf("anon%d", idx)
	}
	return sortName + "." + field
}

// Tag returns the dynamic-type tag (>0) of a concrete type stored in an interface.
func (s *Sorts) Tag(t types.Type) int {
	key := types.TypeString(t, nil)
	if n, ok := s.tags[key]; ok {
		return n
	}
	n := len(s.tags) + 1
	s.tags[key] = n
	s.tagNames = append(s.tagNames, key)
	return n
}

// Zero returns the SMT term of the Go zero value of type t.
func (s *Sorts) Zero(t types.Type) string {
	switch u := t.Underlying().(type) {
	case *types.Basic:
		switch {
		case u.Info()&types.IsBoolean != 0:
			return "false"
		case u.Info()&types.IsString != 0:
			return "(mk-str ((as const (Array Int Int)) 0) 0 0)"
		case u.Info()&types.IsFloat != 0:
			return "0.0"
		}
		return "0"
	case *types.Slice:
		return "(mk-slc 0 0 0 0)"
	case *types.Interface:
		return "(mk-ifc 0 0)"
	case *types.Array:
		return fmt.Sprintf("((as const %s) %s)", s.SortOf(t), s.Zero(u.Elem()))
	case *types.Struct:
		name := s.SortOf(t)
		if u.NumFields() == 0 {
			return "mk-" + name
		}
		var parts []string
		for i := 0; i < u.NumFields(); i++ {
			parts = append(parts, s.Zero(u.Field(i).Type()))
		}
		return fmt.Sprintf("(mk-%s %s)", name, strings.Join(parts, " "))
	}
	return "0"
}

// HeapKey describes one component of the Burstall heap.
type HeapKey struct {
	Name string // SMT-safe base name
	Sort string // full SMT sort of the heap variable
}

func (s *Sorts) FieldKey(structT types.Type, idx int) HeapKey {
	u := structT.Underlying().(*types.Struct)
	f := u.Field(idx)
	return HeapKey{Name: "F!" + s.typeID(structT) + "!" + f.Name(), Sort: "(Array Int " + s.SortOf(f.Type()) + ")"}
}

func (s *Sorts) ElemKey(elemT types.Type) HeapKey {
	es := s.SortOf(elemT)
	return HeapKey{Name: "E!" + mangle(es), Sort: "(Array Int (Array Int " + es + "))"}
}

func (s *Sorts) DerefKey(t types.Type) HeapKey {
	es := s.SortOf(t)
	return HeapKey{Name: "D!" + mangle(es), Sort: "(Array Int " + es + ")"}
}

func (s *Sorts) MapHasKey(m *types.Map) HeapKey {
	return HeapKey{Name: "MH!" + mangle(s.SortOf(m.Elem())), Sort: "(Array Int (Array Int Bool))"}
}

func (s *Sorts) MapValKey(m *types.Map) HeapKey {
	return HeapKey{Name: "MV!" + mangle(s.SortOf(m.Elem())), Sort: "(Array Int (Array Int " + s.SortOf(m.Elem()) + "))"}
}

func (s *Sorts) GlobalKey(pkg, name string, t types.Type) HeapKey {
	return HeapKey{Name: "G!" + mangle(pkg) + "." + name, Sort: s.SortOf(t)}
}

func (s *Sorts) Decls() string {
	return strings.Join(s.decls, "\n")
}

func sortedKeys(m map[string]bool) []string {
	var ks []string
	for k := range m {
		ks = append(ks, k)
	}
	sort.Strings(ks)
	return ks
}
