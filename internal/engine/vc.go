package engine

import (
	"fmt"
	"regexp"
	"go/token"
	"go/types"
	"sort"
	"strings"

	"golang.org/x/tools/go/ssa"
)

type evKind int

const (
	evDecl evKind = iota
	evDef
	evAssume
	evObl
)

type Event struct {
	Kind evKind
	Text string
	Obl  *Obligation
}

// Obligation is one named proof obligation: Guard => Cond must be valid given everything before it.
type Obligation struct {
	Name   string
	Kind   string
	Fn     string
	Props  []string
	Guard  string
	Cond   string
	Pos    token.Pos
	Src    string
	idx    int
	Cover  bool // satisfiability (vacuity) check: expected sat
	Canary bool // must fail
	Extra  []string // extra hypotheses only for this obligation (e.g. lemma uses)
	CandOf *Clause
}

// TV is a typed SMT term.
type TV struct {
	T    string
	Sort string
	Ty   types.Type
}

// VC accumulates the passive encoding of one function under proof.
type VC struct {
	P        *Program
	Fn       *ssa.Function
	events   []Event
	keys     map[string]HeapKey
	newKey   bool
	nfresh   int
	ordinals map[string]int
	Notes    []string
	declared map[string]bool
	litSeen  map[string]bool
	Opt      VCOptions
	inlineDepth int
}

type VCOptions struct {
	SafetyKinds   map[string]bool // which implicit obligation kinds to emit (bounds, nil, ...)
	SafetyProps   []string        // properties the implicit obligations belong to
	InlineDepth   int
	ExtraInvs     map[int][]string // loop ordinal -> extra (inferred) invariants in source syntax
	CandidateInvs map[int][]*Clause
}

func NewVC(p *Program, fn *ssa.Function, opt VCOptions) *VC {
	return &VC{P: p, Fn: fn, keys: map[string]HeapKey{}, ordinals: map[string]int{}, declared: map[string]bool{}, litSeen: map[string]bool{}, Opt: opt}
}

func (vc *VC) reset() {
	vc.keys[clockKey.Name] = clockKey
	vc.events = nil
	vc.nfresh = 0
	vc.ordinals = map[string]int{}
	vc.declared = map[string]bool{}
	vc.Notes = nil
	vc.newKey = false
}

func (vc *VC) note(format string, args ...interface{}) {
	s := fmt.Sprintf(format, args...)
	for _, n := range vc.Notes {
		if n == s {
			return
		}
	}
	vc.Notes = append(vc.Notes, s)
}

func (vc *VC) decl(name, sort string) string {
	if !vc.declared[name] {
		vc.declared[name] = true
		vc.events = append(vc.events, Event{Kind: evDecl, Text: fmt.Sprintf("(declare-const %s %s)", name, sort)})
	}
	return name
}

func (vc *VC) declFun(name, sig string) {
	if !vc.declared[name] {
		vc.declared[name] = true
		vc.events = append(vc.events, Event{Kind: evDecl, Text: fmt.Sprintf("(declare-fun %s %s)", name, sig)})
	}
}

func (vc *VC) fresh(hint, sort string) string {
	vc.nfresh++
	return vc.decl(fmt.Sprintf("%s!%d", hint, vc.nfresh), sort)
}

func (vc *VC) def(f string) {
	if f == "true" {
		return
	}
	vc.events = append(vc.events, Event{Kind: evDef, Text: f})
}

func (vc *VC) assume(f string) {
	if f == "true" {
		return
	}
	vc.events = append(vc.events, Event{Kind: evAssume, Text: f})
}

func (vc *VC) ordinal(base string) string {
	n := vc.ordinals[base]
	vc.ordinals[base] = n + 1
	return fmt.Sprintf("%s#%d", base, n)
}

func (vc *VC) oblige(o *Obligation) {
	if o.Fn == "" && vc.Fn != nil {
		o.Fn = FuncKey(vc.Fn)
	}
	// obligations explicitly declared "unchecked" in the contract are assumed and reported, never counted
	if vc.Fn != nil {
		if c := vc.P.Contract(vc.Fn); c != nil {
			for _, u := range c.Extra["unchecked"] {
				if strings.HasSuffix(o.Name, "#"+u) {
					vc.note("UNCHECKED obligation (assumed, not proved): %s - %s", o.Name, strings.Join(c.Extra["unchecked-reason:"+u], " "))
					vc.assume(sImp(o.Guard, o.Cond))
					return
				}
			}
		}
	}
	o.idx = len(vc.events)
	vc.events = append(vc.events, Event{Kind: evObl, Obl: o})
}

func (vc *VC) Obligations() []*Obligation {
	var out []*Obligation
	for _, e := range vc.events {
		if e.Kind == evObl {
			out = append(out, e.Obl)
		}
	}
	return out
}

// key registers a heap key; unknown keys trigger another encoding pass.
func (vc *VC) key(k HeapKey) HeapKey {
	if _, ok := vc.keys[k.Name]; !ok {
		vc.keys[k.Name] = k
		vc.newKey = true
	}
	return k
}

func (vc *VC) sortedKeyNames() []string {
	var ks []string
	for k := range vc.keys {
		ks = append(ks, k)
	}
	sort.Strings(ks)
	return ks
}

// Query renders the SMT-LIB text for obligation o.
func (vc *VC) Query(o *Obligation, axioms *AxiomSet) string {
	var decls, body []string
	for i, e := range vc.events {
		switch e.Kind {
		case evDecl:
			decls = append(decls, e.Text)
		case evDef, evAssume:
			if i < o.idx {
				body = append(body, "(assert "+e.Text+")")
			}
		case evObl:
			if i < o.idx && !e.Obl.Cover && !e.Obl.Canary && !o.Cover {
				body = append(body, "(assert "+sImp(e.Obl.Guard, e.Obl.Cond)+")")
			}
		}
	}
	for _, x := range o.Extra {
		body = append(body, "(assert "+x+")")
	}
	if o.Cover {
		body = append(body, "(assert "+sAnd(o.Guard, o.Cond)+")")
	} else {
		body = append(body, "(assert "+sAnd(o.Guard, sNot(o.Cond))+")")
	}
	return vc.assemble(decls, body, axioms)
}

func (vc *VC) assemble(decls, body []string, axioms *AxiomSet) string {
	text := strings.Join(body, "\n")
	if qi := instantiateForalls(text); len(qi) > 0 {
		text = text + "\n" + strings.Join(qi, "\n")
	}
	var axDecls, axInst []string
	if axioms != nil {
		axDecls, axInst = axioms.Instantiate(text + "\n" + strings.Join(decls, "\n"))
	}
	all := strings.Join(decls, "\n") + "\n" + strings.Join(axDecls, "\n") + "\n" + strings.Join(axInst, "\n") + "\n" + text
	// datatype declarations needed
	S := vc.P.Sorts
	need := map[int]bool{}
	hay := all
	for changed := true; changed; {
		changed = false
		for i := len(S.decls) - 1; i >= 0; i-- {
			if need[i] {
				continue
			}
			name := declName(S.decls[i])
			if strings.Contains(hay, name) {
				need[i] = true
				hay += S.decls[i]
				changed = true
			}
		}
	}
	var dts []string
	for i := range S.decls {
		if need[i] {
			dts = append(dts, S.decls[i])
		}
	}
	var sb strings.Builder
	sb.WriteString("(set-option :produce-models true)\n(set-logic ALL)\n")
	sb.WriteString(prelude)
	sb.WriteString(strings.Join(dts, "\n"))
	sb.WriteString("\n")
	sb.WriteString(strings.Join(decls, "\n"))
	sb.WriteString("\n")
	sb.WriteString(strings.Join(axDecls, "\n"))
	sb.WriteString("\n")
	for _, a := range axInst {
		sb.WriteString("(assert " + a + ")\n")
	}
	sb.WriteString(text)
	sb.WriteString("\n(check-sat)\n")
	return sb.String()
}

func declName(decl string) string {
	// (declare-datatypes ((NAME 0)) ...
	i := strings.Index(decl, "((")
	j := strings.Index(decl[i+2:], " ")
	return decl[i+2 : i+2+j]
}

var versionSuffix = regexp.MustCompile(`![0-9]+`)

func eraseVersions(s string) string { return versionSuffix.ReplaceAllString(s, "") }

// instantiateForalls adds ground instances of quantified hypotheses of the shape
// (assert (forall ((q Int)) (! BODY :pattern ((select ARR IDX))))) for every select term in the
// query over the same array (modulo heap versions). The solvers' own E-matching misses these
// once arithmetic normalisation has flattened the index sums. Sound: only instances are added.
func instantiateForalls(text string) []string {
	var out []string
	seen := map[string]bool{}
	lines := strings.Split(text, "\n")
	type sel struct{ arr, idx string }
	var sels []sel
	selSeen := map[string]bool{}
	for _, a := range applications(text, "select") {
		if len(a) != 2 {
			continue
		}
		k := a[0] + "|" + a[1]
		if selSeen[k] || strings.Contains(a[1], "q!") || strings.Contains(a[0], "q!") {
			continue
		}
		selSeen[k] = true
		sels = append(sels, sel{a[0], a[1]})
	}
	for _, ln := range lines {
		if !strings.HasPrefix(ln, "(assert (forall ((") {
			continue
		}
		parts := sexprParts(ln)
		if len(parts) != 2 {
			continue
		}
		fa := sexprParts(parts[1]) // forall, ((q Int)), (! body :pattern (pat))
		if len(fa) != 3 || fa[0] != "forall" {
			continue
		}
		bvs := sexprParts(fa[1])
		if len(bvs) != 1 {
			continue
		}
		bvp := sexprParts(bvs[0])
		if len(bvp) != 2 {
			continue
		}
		bv := bvp[0]
		bang := sexprParts(fa[2])
		if len(bang) != 4 || bang[0] != "!" || bang[2] != ":pattern" {
			continue
		}
		body := bang[1]
		pats := sexprParts(bang[3])
		if len(pats) < 1 {
			continue
		}
		pat := sexprParts(pats[0])
		if len(pat) != 3 || pat[0] != "select" {
			continue
		}
		arr, idx := pat[1], pat[2]
		var off string
		switch {
		case idx == bv:
			off = ""
		default:
			ip := sexprParts(idx)
			if len(ip) == 3 && ip[0] == "+" && ip[2] == bv && !strings.Contains(ip[1], bv) {
				off = ip[1]
			} else {
				continue
			}
		}
		arrE := eraseVersions(arr)
		n := 0
		for _, sl := range sels {
			if eraseVersions(sl.arr) != arrE {
				continue
			}
			inst := sl.idx
			if off != "" {
				inst = "(- " + sl.idx + " " + off + ")"
			}
			g := "(assert " + strings.ReplaceAll(body, bv, inst) + ")"
			if !seen[g] {
				seen[g] = true
				out = append(out, g)
				n++
			}
			if n >= 60 {
				break
			}
		}
	}
	return out
}
