package engine

import (
	"fmt"
	"regexp"
	"go/token"
	"go/types"
	"sort"
	"strings"

	"golang.org/x/tools/go/ssa"
)

type evKind int

const (
	evDecl evKind = iota
	evDef
	evAssume
	evObl
)

type Event struct {
	Kind evKind
	Text string
	Obl  *Obligation
}

// Obligation is one named proof obligation: Guard => Cond must be valid given everything before it.
type Obligation struct {
	Name   string
	Kind   string
	Fn     string
	Props  []string
	Guard  string
	Cond   string
	Pos    token.Pos
	Src    string
	idx    int
	Cover  bool // satisfiability (vacuity) check: expected sat
	Canary bool // must fail
	Extra  []string // extra hypotheses only for this obligation (e.g. lemma uses)
	CandOf *Clause
}

// TV is a typed SMT term.
type TV struct {
	T    string
	Sort string
	Ty   types.Type
}

// VC accumulates the passive encoding of one function under proof.
type VC struct {
	P        *Program
	Fn       *ssa.Function
	events   []Event
	keys     map[string]HeapKey
	newKey   bool
	nfresh   int
	ordinals map[string]int
	Notes    []string
	declared map[string]bool
	litSeen  map[string]bool
	Opt      VCOptions
	inlineDepth int
	lookupNames map[string]string
	lightAssemble bool // Houdini candidate checks: skip the generator-side forall instantiation
}

type VCOptions struct {
	SafetyKinds   map[string]bool // which implicit obligation kinds to emit (bounds, nil, ...)
	SafetyProps   []string        // properties the implicit obligations belong to
	InlineDepth   int
	ExtraInvs     map[int][]string // loop ordinal -> extra (inferred) invariants in source syntax
	CandidateInvs map[int][]*Clause
}

func NewVC(p *Program, fn *ssa.Function, opt VCOptions) *VC {
	return &VC{P: p, Fn: fn, keys: map[string]HeapKey{}, ordinals: map[string]int{}, declared: map[string]bool{}, litSeen: map[string]bool{}, Opt: opt}
}

func (vc *VC) reset() {
	vc.lookupNames = nil
	vc.keys[clockKey.Name] = clockKey
	vc.events = nil
	vc.nfresh = 0
	vc.ordinals = map[string]int{}
	vc.declared = map[string]bool{}
	vc.Notes = nil
	vc.newKey = false
}

func (vc *VC) note(format string, args ...interface{}) {
	s := fmt.Sprintf(format, args...)
	for _, n := range vc.Notes {
		if n == s {
			return
		}
	}
	vc.Notes = append(vc.Notes, s)
}

func (vc *VC) decl(name, sort string) string {
	if !vc.declared[name] {
		vc.declared[name] = true
		vc.events = append(vc.events, Event{Kind: evDecl, Text: fmt.Sprintf("(declare-const %s %s)", name, sort)})
	}
	return name
}

func (vc *VC) declFun(name, sig string) {
	if !vc.declared[name] {
		vc.declared[name] = true
		vc.events = append(vc.events, Event{Kind: evDecl, Text: fmt.Sprintf("(declare-fun %s %s)", name, sig)})
	}
}

func (vc *VC) fresh(hint, sort string) string {
	vc.nfresh++
	return vc.decl(fmt.Sprintf("%s!%d", hint, vc.nfresh), sort)
}

func (vc *VC) def(f string) {
	if f == "true" {
		return
	}
	vc.events = append(vc.events, Event{Kind: evDef, Text: f})
}

func (vc *VC) assume(f string) {
	if f == "true" {
		return
	}
	vc.events = append(vc.events, Event{Kind: evAssume, Text: f})
}

func (vc *VC) ordinal(base string) string {
	n := vc.ordinals[base]
	vc.ordinals[base] = n + 1
	return fmt.Sprintf("%s#%d", base, n)
}

func (vc *VC) oblige(o *Obligation) {
	if o.Fn == "" && vc.Fn != nil {
		o.Fn = FuncKey(vc.Fn)
	}
	// obligations explicitly declared "unchecked" in the contract are assumed and reported, never counted
	if vc.Fn != nil {
		if c := vc.P.Contract(vc.Fn); c != nil {
			for _, u := range c.Extra["unchecked"] {
				if strings.HasSuffix(o.Name, "#"+u) {
					vc.note("UNCHECKED obligation (assumed, not proved): %s - %s", o.Name, strings.Join(c.Extra["unchecked-reason:"+u], " "))
					vc.assume(sImp(o.Guard, o.Cond))
					return
				}
			}
		}
	}
	o.idx = len(vc.events)
	vc.events = append(vc.events, Event{Kind: evObl, Obl: o})
}

func (vc *VC) Obligations() []*Obligation {
	var out []*Obligation
	for _, e := range vc.events {
		if e.Kind == evObl {
			out = append(out, e.Obl)
		}
	}
	return out
}

// key registers a heap key; unknown keys trigger another encoding pass.
func (vc *VC) key(k HeapKey) HeapKey {
	if _, ok := vc.keys[k.Name]; !ok {
		vc.keys[k.Name] = k
		vc.newKey = true
	}
	return k
}

func (vc *VC) sortedKeyNames() []string {
	var ks []string
	for k := range vc.keys {
		ks = append(ks, k)
	}
	sort.Strings(ks)
	return ks
}

// Query renders the SMT-LIB text for obligation o.
func (vc *VC) Query(o *Obligation, axioms *AxiomSet) string {
	var decls, body []string
	for i, e := range vc.events {
		switch e.Kind {
		case evDecl:
			decls = append(decls, e.Text)
		case evDef, evAssume:
			if i < o.idx {
				t, d := skolemizeHyp(e.Text)
				decls = append(decls, d...)
				body = append(body, "(assert "+t+")")
			}
		case evObl:
			if i < o.idx && !e.Obl.Cover && !e.Obl.Canary && !o.Cover && !vc.foreignGhost(e.Obl) {
				t, d := skolemizeHyp(sImp(e.Obl.Guard, e.Obl.Cond))
				decls = append(decls, d...)
				body = append(body, "(assert "+t+")")
			}
		}
	}
	for _, x := range o.Extra {
		body = append(body, "(assert "+x+")")
	}
	if o.Cover {
		body = append(body, "(assert "+sAnd(o.Guard, o.Cond)+")")
	} else {
		// skolemise the universally quantified parts of the goal so that generator-side instantiation sees the witnesses
		cases := phiCases(o.Cond, body)
		if len(cases) == 0 {
			goal, skDecls := skolemizeGoal(o.Cond)
			decls = append(decls, skDecls...)
			body = append(body, "(assert "+sAnd(o.Guard, sNot(goal))+")")
		} else {
			// quantified goal over a value merged from several paths (a phi): refute it path by path, with the
			// merged name replaced by the value of that path, so that hypotheses about that value match syntactically
			var alts, edges []string
			for _, c := range cases {
				g, skDecls := skolemizeGoal(c.cond)
				decls = append(decls, skDecls...)
				alts = append(alts, sAnd(c.edge, sNot(g)))
				edges = append(edges, c.edge)
			}
			g, skDecls := skolemizeGoal(o.Cond)
			decls = append(decls, skDecls...)
			alts = append(alts, sAnd(sNot("(or "+strings.Join(edges, " ")+")"), sNot(g)))
			body = append(body, "(assert "+sAnd(o.Guard, "(or "+strings.Join(alts, " ")+")")+")")
		}
	}
	return vc.assemble(decls, body, axioms)
}

func (vc *VC) assemble(decls, body []string, axioms *AxiomSet) string {
	text := strings.Join(body, "\n")
	var axDecls, axInst []string
	if axioms != nil {
		axDecls, axInst = axioms.Instantiate(text + "\n" + strings.Join(decls, "\n"))
	}
	// ground instances of quantified hypotheses (user foralls and those inside axiom instances)
	var axText []string
	for _, a := range axInst {
		axText = append(axText, "(assert "+a+")")
	}
	var qi []string
	if !vc.lightAssemble {
		qi = instantiateForalls(text + "\n" + strings.Join(axText, "\n"))
	}
	if len(qi) > 0 {
		text = text + "\n" + strings.Join(qi, "\n")
		if axioms != nil {
			// new ground terms may trigger further axiom instances
			_, more := axioms.Instantiate(text + "\n" + strings.Join(axText, "\n"))
			have := map[string]bool{}
			for _, a := range axInst {
				have[a] = true
			}
			for _, a := range more {
				if !have[a] {
					axInst = append(axInst, a)
				}
			}
		}
	}
	if !vc.lightAssemble {
		// every closed quantified formula gets a Boolean name: instances "(=> FORALL inst)" then cost a few
		// bytes instead of a copy of the quantifier, and the propositional structure is visible to the solver
		var faDecls []string
		text, axInst, faDecls = nameForalls(text, axInst)
		decls = append(append([]string{}, decls...), faDecls...)
	}
	all := strings.Join(decls, "\n") + "\n" + strings.Join(axDecls, "\n") + "\n" + strings.Join(axInst, "\n") + "\n" + text
	// datatype declarations needed
	S := vc.P.Sorts
	need := map[int]bool{}
	hay := all
	for changed := true; changed; {
		changed = false
		for i := len(S.decls) - 1; i >= 0; i-- {
			if need[i] {
				continue
			}
			name := declName(S.decls[i])
			if strings.Contains(hay, name) {
				need[i] = true
				hay += S.decls[i]
				changed = true
			}
		}
	}
	var dts []string
	for i := range S.decls {
		if need[i] {
			dts = append(dts, S.decls[i])
		}
	}
	var sb strings.Builder
	sb.WriteString("(set-option :produce-models true)\n(set-logic ALL)\n")
	sb.WriteString(prelude)
	sb.WriteString(strings.Join(dts, "\n"))
	sb.WriteString("\n")
	sb.WriteString(strings.Join(decls, "\n"))
	sb.WriteString("\n")
	sb.WriteString(strings.Join(axDecls, "\n"))
	sb.WriteString("\n")
	for _, a := range axInst {
		sb.WriteString("(assert " + a + ")\n")
	}
	sb.WriteString(text)
	sb.WriteString("\n(check-sat)\n")
	return sb.String()
}

func declName(decl string) string {
	// (declare-datatypes ((NAME 0)) ...
	i := strings.Index(decl, "((")
	j := strings.Index(decl[i+2:], " ")
	return decl[i+2 : i+2+j]
}

var versionSuffix = regexp.MustCompile(`![0-9]+`)

func eraseVersions(s string) string { return versionSuffix.ReplaceAllString(s, "") }

// instantiateForalls adds ground instances of quantified hypotheses of the shape
// (assert (forall ((q Int)) (! BODY :pattern ((select ARR IDX))))) for every select term in the
// query over the same array (modulo heap versions). The solvers' own E-matching misses these
// once arithmetic normalisation has flattened the index sums. Sound: only instances are added.
func instantiateForalls(text string) []string {
	var out []string
	seen := map[string]bool{}
	hay := text
	for round := 0; round < 2; round++ {
		added := instantiateForallsOnce(hay, seen)
		if len(added) == 0 {
			break
		}
		out = append(out, added...)
		hay = hay + "\n" + strings.Join(added, "\n")
		if len(out) > 600 {
			break
		}
	}
	return out
}

// balancedAt returns the balanced s-expression starting at text[i] ('(').
func balancedAt(text string, i int) string {
	d := 0
	for j := i; j < len(text); j++ {
		switch text[j] {
		case '(':
			d++
		case ')':
			d--
			if d == 0 {
				return text[i : j+1]
			}
		}
	}
	return ""
}

var defLine = regexp.MustCompile(`(?m)^\(assert \(= ([A-Za-z_!][^ ()]*) (.*)\)\)$`)

// expandDefs replaces defined names (from "(assert (= name term))" lines) by their definitions, a few levels deep.
func expandDefs(term string, defs map[string]string) string {
	for depth := 0; depth < 4; depth++ {
		changed := false
		var b strings.Builder
		i := 0
		for i < len(term) {
			c := term[i]
			if c == '(' || c == ')' || c == ' ' {
				b.WriteByte(c)
				i++
				continue
			}
			j := i
			for j < len(term) && term[j] != '(' && term[j] != ')' && term[j] != ' ' {
				j++
			}
			tok := term[i:j]
			if d, ok := defs[tok]; ok && len(d) < 400 {
				b.WriteString(d)
				changed = true
			} else {
				b.WriteString(tok)
			}
			i = j
		}
		term = b.String()
		if !changed {
			break
		}
	}
	return term
}

func instantiateForallsOnce(text string, seen map[string]bool) []string {
	var out []string
	defs := map[string]string{}
	for _, m := range defLine.FindAllStringSubmatch(text, -1) {
		if _, dup := defs[m[1]]; !dup && balanced2(m[2]) {
			defs[m[1]] = m[2]
		}
	}
	// a string-valued phi all of whose incoming values are windows of one text reads that text's array: record
	// (s-base phi) -> base so that hypotheses about the text are instantiated at reads through the phi
	baseAlias := phiBaseAliases(text, defs)
	norm := func(t string) string {
		t = expandDefs(t, defs)
		for k := 0; k < 3 && len(baseAlias) > 0 && strings.Contains(t, "(s-base "); k++ {
			changed := false
			for v, b := range baseAlias {
				if strings.Contains(t, "(s-base "+v+")") {
					t = strings.ReplaceAll(t, "(s-base "+v+")", b)
					changed = true
				}
			}
			if !changed {
				break
			}
			t = expandDefs(t, defs)
		}
		return eraseVersions(simplifyAccessors(t))
	}
	type sel struct{ arr, idx string }
	var sels []sel
	selSeen := map[string]bool{}
	for _, a := range applications(text, "select") {
		if len(a) != 2 {
			continue
		}
		k := a[0] + "|" + a[1]
		if selSeen[k] || strings.Contains(a[1], "q!") || strings.Contains(a[0], "q!") {
			continue
		}
		selSeen[k] = true
		sels = append(sels, sel{a[0], a[1]})
	}
	// goal witnesses (skolem constants) first: they are what the hypotheses must be instantiated at
	sort.SliceStable(sels, func(i, j int) bool {
		return strings.Contains(sels[i].idx, "sk!") && !strings.Contains(sels[j].idx, "sk!")
	})
	faSeen := map[string]bool{}
	idx := 0
	for {
		i := strings.Index(text[idx:], "(forall ((")
		if i < 0 {
			break
		}
		start := idx + i
		idx = start + 9
		fa := balancedAt(text, start)
		if fa == "" || faSeen[fa] {
			continue
		}
		faSeen[fa] = true
		parts := sexprParts(fa) // forall, ((q Int)), (! body :pattern (pat))
		if len(parts) != 3 {
			continue
		}
		bvs := sexprParts(parts[1])
		if len(bvs) != 1 {
			continue
		}
		bvp := sexprParts(bvs[0])
		if len(bvp) != 2 {
			continue
		}
		bv := bvp[0]
		bang := sexprParts(parts[2])
		if len(bang) != 4 || bang[0] != "!" || bang[2] != ":pattern" {
			continue
		}
		body := bang[1]
		// the quantifier must be closed (no variable of an enclosing quantifier)
		if strings.Contains(strings.ReplaceAll(fa, bv, ""), "q!") {
			closed := true
			for _, tok := range strings.FieldsFunc(strings.ReplaceAll(fa, bv, ""), func(r rune) bool { return r == '(' || r == ')' || r == ' ' }) {
				if strings.HasPrefix(tok, "q!") && !strings.Contains(fa, "(("+tok+" Int))") {
					closed = false
				}
			}
			if !closed {
				continue
			}
		}
		pats := sexprParts(bang[3])
		if len(pats) < 1 {
			continue
		}
		// the select of the pattern that is indexed by the bound variable (possibly nested inside field reads)
		var arr, off string
		found := false
		for _, sa := range applications(pats[0], "select") {
			if len(sa) != 2 || strings.Contains(sa[0], bv) {
				continue
			}
			if sa[1] == bv {
				arr, off, found = sa[0], "", true
				break
			}
			ip := sexprParts(sa[1])
			if len(ip) == 3 && ip[0] == "+" && ip[2] == bv && !strings.Contains(ip[1], bv) {
				arr, off, found = sa[0], ip[1], true
				break
			}
		}
		if !found {
			continue
		}
		arrE := norm(arr)
		fam := heapFamily(arrE)
		n := 0
		// exact (modulo definitions and heap versions) array matches first, then same-heap-family selects:
		// the array may be equal only semantically (through a phi or a callee result); instances are sound either way
		for pass := 0; pass < 2; pass++ {
			for _, sl := range sels {
				na := norm(sl.arr)
				if pass == 0 && na != arrE {
					continue
				}
				if pass == 1 && (na == arrE || heapFamily(na) != fam || fam == "" || strings.HasPrefix(na, "(select ") != strings.HasPrefix(arrE, "(select ")) {
					continue
				}
				if pass == 1 && n > 0 {
					break // the family fallback is only for quantifiers that found no syntactic match at all
				}
				inst := sl.idx
				if off != "" && pass == 1 {
					// another name of (possibly) the same slice: use the logical index, never offset arithmetic across objects
					ip := sexprParts(sl.idx)
					if len(ip) != 3 || ip[0] != "+" || !strings.HasPrefix(ip[1], "(c-off ") {
						continue
					}
					inst = ip[2]
				} else if off != "" {
					inst = "(- " + sl.idx + " " + off + ")"
					// (+ off x) - off is x: keep instances in the shape the code and the contracts use
					if ip := sexprParts(sl.idx); len(ip) == 3 && ip[0] == "+" {
						if ip[1] == off || norm(ip[1]) == norm(off) {
							inst = ip[2]
						} else if ip[2] == off || norm(ip[2]) == norm(off) {
							inst = ip[1]
						}
					}
				}
				g := "(assert (=> " + fa + " " + strings.ReplaceAll(body, bv, inst) + "))"
				if !seen[g] {
					seen[g] = true
					out = append(out, g)
					n++
				}
				if n >= 40 {
					break
				}
			}
		}
	}
	return out
}

var phiEqLine = regexp.MustCompile(`(?m)^\(assert \(=> (.*)\)\)$`)

// phiBaseAliases finds the names defined only by guarded equations (=> edge (= v term)) - the encoding of a phi -
// whose terms all have the same base array after expanding definitions, and maps each to that base.
func phiBaseAliases(text string, defs map[string]string) map[string]string {
	terms := map[string][]string{}
	for _, m := range phiEqLine.FindAllStringSubmatch(text, -1) {
		in := "(=> " + m[1] + ")"
		if !balanced2(in) {
			continue
		}
		parts := sexprParts(in)
		if len(parts) != 3 {
			continue
		}
		eq := sexprParts(parts[2])
		if len(eq) != 3 || eq[0] != "=" || strings.ContainsAny(eq[1], "() ") || !strings.Contains(eq[1], "v!") {
			continue
		}
		terms[eq[1]] = append(terms[eq[1]], eq[2])
	}
	out := map[string]string{}
	for round := 0; round < 3; round++ {
		for v, ts := range terms {
			if _, isDef := defs[v]; isDef || out[v] != "" {
				continue
			}
			base := ""
			ok := true
			for _, t := range ts {
				b := "(s-base " + t + ")"
				b = expandDefs(b, defs)
				for a, ab := range out {
					b = strings.ReplaceAll(b, "(s-base "+a+")", ab)
				}
				b = simplifyAccessors(expandDefs(b, defs))
				if strings.Contains(b, "(mk-str") || strings.Contains(b, "q!") {
					ok = false
					break
				}
				if base == "" {
					base = b
				} else if base != b {
					ok = false
					break
				}
			}
			if ok && base != "" && base != "(s-base "+v+")" {
				out[v] = base
			}
		}
	}
	return out
}

// simplifyAccessors rewrites (s-base (mk-str a b c)) to a, (s-off ...) to b, (s-len ...) to c (and the slice
// accessors alike), bottom-up, so that windows cut from one text are recognised as reading the same array.
func simplifyAccessors(t string) string {
	if len(t) == 0 || t[0] != '(' || !strings.Contains(t, "(mk-") {
		return t
	}
	parts := sexprParts(t)
	if len(parts) == 0 {
		return t
	}
	for i := 1; i < len(parts); i++ {
		parts[i] = simplifyAccessors(parts[i])
	}
	if len(parts) == 2 {
		sel := map[string]int{"s-base": 1, "s-off": 2, "s-len": 3}
		if k, ok := sel[parts[0]]; ok && strings.HasPrefix(parts[1], "(mk-str ") {
			if in := sexprParts(parts[1]); len(in) == 4 {
				return in[k]
			}
		}
		selc := map[string]int{"c-ref": 1, "c-off": 2, "c-len": 3, "c-cap": 4}
		if k, ok := selc[parts[0]]; ok && strings.HasPrefix(parts[1], "(mk-slc ") {
			if in := sexprParts(parts[1]); len(in) == 5 {
				return in[k]
			}
		}
	}
	return "(" + strings.Join(parts, " ") + ")"
}

func balanced2(s string) bool {
	d := 0
	for i := 0; i < len(s); i++ {
		switch s[i] {
		case '(':
			d++
		case ')':
			d--
			if d < 0 {
				return false
			}
		}
	}
	return d == 0
}

// nameForalls replaces each outermost closed (forall ...) term of the assertions by a fresh Boolean
// constant defined to be equal to it (a definitional extension: equisatisfiable for either polarity).
func nameForalls(text string, axInst []string) (string, []string, []string) {
	joined := text
	for _, a := range axInst {
		joined += "\n" + a
	}
	names := map[string]string{}
	var order []string
	idx := 0
	for {
		i := strings.Index(joined[idx:], "(forall ((")
		if i < 0 {
			break
		}
		start := idx + i
		fa := balancedAt(joined, start)
		if fa == "" {
			idx = start + 9
			continue
		}
		idx = start + len(fa) // outermost only: skip what is nested inside
		if _, ok := names[fa]; ok {
			continue
		}
		// closed: every q! variable it mentions is bound inside it
		closed := true
		for _, tok := range strings.FieldsFunc(fa, func(r rune) bool { return r == '(' || r == ')' || r == ' ' }) {
			if strings.HasPrefix(tok, "q!") && !strings.Contains(fa, "("+tok+" ") {
				closed = false
				break
			}
			if strings.HasPrefix(tok, "AXV!") {
				closed = false
				break
			}
		}
		if !closed || len(fa) < 80 {
			continue
		}
		names[fa] = fmt.Sprintf("fa!%d", len(names))
		order = append(order, fa)
	}
	if len(order) == 0 {
		return text, axInst, nil
	}
	// longest first, so that a formula that contains another named one as a proper part is handled consistently
	sort.SliceStable(order, func(i, j int) bool { return len(order[i]) > len(order[j]) })
	var decls, defs []string
	rep := func(t string) string {
		for _, fa := range order {
			if strings.Contains(t, fa) {
				t = strings.ReplaceAll(t, fa, names[fa])
			}
		}
		return t
	}
	text = rep(text)
	out := make([]string, len(axInst))
	for i, a := range axInst {
		out[i] = rep(a)
	}
	for k, fa := range order {
		decls = append(decls, fmt.Sprintf("(declare-const %s Bool)", names[fa]))
		body := fa
		for _, other := range order[k+1:] {
			if strings.Contains(body, other) {
				body = strings.ReplaceAll(body, other, names[other])
			}
		}
		defs = append(defs, fmt.Sprintf("(assert (= %s %s))", names[fa], body))
	}
	return strings.Join(defs, "\n") + "\n" + text, out, decls
}

var skCounter int

type phiCase struct{ edge, cond string }

var phiDefLine = regexp.MustCompile(`^\(assert \(=> (.+) \(= ([A-Za-z_!][^ ()]*) (.+)\)\)\)$`)
var valTok = regexp.MustCompile(`[A-Za-z_.$0-9]*v![A-Za-z0-9_.]+`)

// phiCases: for a quantified goal that mentions a value defined by phi equations "(=> EDGE (= NAME TERM))",
// returns the goal specialised to each incoming edge. Only the first such name with 2..4 cases is expanded.
func phiCases(goal string, body []string) []phiCase {
	if !strings.Contains(goal, "(forall ") {
		return nil
	}
	names := map[string]bool{}
	for _, n := range valTok.FindAllString(goal, -1) {
		names[n] = true
	}
	defs := map[string][]phiCase{}
	other := map[string]bool{}
	for _, l := range body {
		if !strings.HasPrefix(l, "(assert (=> ") {
			continue
		}
		inner := l[len("(assert ") : len(l)-1]
		parts := sexprParts(inner)
		if len(parts) != 3 || parts[0] != "=>" {
			continue
		}
		eq := sexprParts(parts[2])
		if len(eq) != 3 || eq[0] != "=" || !names[eq[1]] {
			continue
		}
		if strings.Contains(eq[2], eq[1]) {
			other[eq[1]] = true
			continue
		}
		defs[eq[1]] = append(defs[eq[1]], phiCase{edge: parts[1], cond: eq[2]})
	}
	var ns []string
	for n := range defs {
		ns = append(ns, n)
	}
	sort.Strings(ns)
	for _, n := range ns {
		cs := defs[n]
		if other[n] || len(cs) < 2 || len(cs) > 4 {
			continue
		}
		var out []phiCase
		re := regexp.MustCompile(`(^|[ (])` + regexp.QuoteMeta(n) + `($|[ )])`)
		for _, c := range cs {
			g := goal
			for re.MatchString(g) {
				g = re.ReplaceAllString(g, "${1}"+strings.ReplaceAll(c.cond, "$", "$$")+"${2}")
			}
			out = append(out, phiCase{edge: c.edge, cond: g})
		}
		return out
	}
	return nil
}

// skolemizeGoal replaces every positively occurring (forall ((v Int)) body) of a goal by body[v := fresh constant].
// Proving the result for arbitrary constants proves the goal.
func skolemize(goal string, pos0 bool) (string, []string) {
	var decls []string
	var walk func(t string, pos bool) string
	walk = func(t string, pos bool) string {
		if len(t) == 0 || t[0] != '(' {
			return t
		}
		parts := sexprParts(t)
		if len(parts) == 0 {
			return t
		}
		switch parts[0] {
		case "and", "or":
			out := []string{parts[0]}
			for _, p := range parts[1:] {
				out = append(out, walk(p, pos))
			}
			return "(" + strings.Join(out, " ") + ")"
		case "not":
			if len(parts) == 2 {
				return "(not " + walk(parts[1], !pos) + ")"
			}
		case "=>":
			if len(parts) == 3 {
				return "(=> " + walk(parts[1], !pos) + " " + walk(parts[2], pos) + ")"
			}
		case "!":
			if len(parts) >= 2 {
				return walk(parts[1], pos)
			}
		case "forall":
			if pos && len(parts) == 3 {
				bvs := sexprParts(parts[1])
				body := parts[2]
				for _, b := range bvs {
					bp := sexprParts(b)
					if len(bp) != 2 {
						return t
					}
					skCounter++
					c := fmt.Sprintf("sk!%d", skCounter)
					decls = append(decls, fmt.Sprintf("(declare-const %s %s)", c, bp[1]))
					body = strings.ReplaceAll(body, bp[0], c)
				}
				return walk(body, pos)
			}
		case "exists":
			if !pos && len(parts) == 3 {
				bvs := sexprParts(parts[1])
				body := parts[2]
				for _, b := range bvs {
					bp := sexprParts(b)
					if len(bp) != 2 {
						return t
					}
					skCounter++
					c := fmt.Sprintf("sk!%d", skCounter)
					decls = append(decls, fmt.Sprintf("(declare-const %s %s)", c, bp[1]))
					body = strings.ReplaceAll(body, bp[0], c)
				}
				return walk(body, pos)
			}
		}
		return t
	}
	return walk(goal, pos0), decls
}

// skolemizeGoal: see skolemize; the goal is about to be negated, so its positive universals become witnesses.
func skolemizeGoal(goal string) (string, []string) { return skolemize(goal, true) }

// skolemizeHyp: a hypothesis "(forall k. P k) => Q" is equivalent to "exists k. (P k => Q)"; naming the witness
// gives the generator-side instantiation a ground term to instantiate the other hypotheses at.
func skolemizeHyp(h string) (string, []string) {
	if !strings.Contains(h, "(forall ((") && !strings.Contains(h, "(exists ((") {
		return h, nil
	}
	return skolemize(h, false)
}

// heapFamily names the heap component an array term reads from, e.g. "H!E!Int" for (select H!E!Int!12 r).
func heapFamily(arr string) string {
	i := strings.Index(arr, "H")
	for i >= 0 && i < len(arr) {
		if strings.HasPrefix(arr[i:], "H!") || strings.HasPrefix(arr[i:], "H0!") {
			j := i
			for j < len(arr) && arr[j] != ' ' && arr[j] != ')' {
				j++
			}
			return strings.Replace(arr[i:j], "H0!", "H!", 1)
		}
		k := strings.Index(arr[i+1:], "H")
		if k < 0 {
			break
		}
		i = i + 1 + k
	}
	return ""
}

// foreignGhost reports whether o is a ghost assertion of the contract (a site clause, a step clause, an early-exit
// clause) that is NOT among the obligations of the property being checked. Such a clause is proved in another property's
// run; using it as a hypothesis here would let a change that falsifies it make every later obligation of THIS run
// vacuously true (the run for a property must stand on what it proves itself, on program semantics - a failed safety
// condition ends the execution - and on the declared assumptions).
func (vc *VC) foreignGhost(o *Obligation) bool {
	if len(vc.Opt.SafetyProps) == 0 {
		return false
	}
	switch o.Kind {
	case "assert", "step", "early-exit":
		return !hasProp(o.Props, vc.Opt.SafetyProps[0])
	}
	return false
}
