package engine

import (
	"fmt"
	"go/token"
	"go/types"
	"sort"
	"strings"

	"golang.org/x/tools/go/ssa"
)

type evKind int

const (
	evDecl evKind = iota
	evDef
	evAssume
	evObl
)

type Event struct {
	Kind evKind
	Text string
	Obl  *Obligation
}

// Obligation is one named proof obligation: Guard => Cond must be valid given everything before it.
type Obligation struct {
	Name   string
	Kind   string
	Fn     string
	Props  []string
	Guard  string
	Cond   string
	Pos    token.Pos
	Src    string
	idx    int
	Cover  bool // satisfiability (vacuity) check: expected sat
	Canary bool // must fail
	Extra  []string // extra hypotheses only for this obligation (e.g. lemma uses)
	CandOf *Clause
}

// TV is a typed SMT term.
type TV struct {
	T    string
	Sort string
	Ty   types.Type
}

// VC accumulates the passive encoding of one function under proof.
type VC struct {
	P        *Program
	Fn       *ssa.Function
	events   []Event
	keys     map[string]HeapKey
	newKey   bool
	nfresh   int
	ordinals map[string]int
	Notes    []string
	declared map[string]bool
	litSeen  map[string]bool
	Opt      VCOptions
	inlineDepth int
}

type VCOptions struct {
	SafetyKinds   map[string]bool // which implicit obligation kinds to emit (bounds, nil, ...)
	SafetyProps   []string        // properties the implicit obligations belong to
	InlineDepth   int
	ExtraInvs     map[int][]string // loop ordinal -> extra (inferred) invariants in source syntax
	CandidateInvs map[int][]*Clause
}

func NewVC(p *Program, fn *ssa.Function, opt VCOptions) *VC {
	return &VC{P: p, Fn: fn, keys: map[string]HeapKey{}, ordinals: map[string]int{}, declared: map[string]bool{}, litSeen: map[string]bool{}, Opt: opt}
}

func (vc *VC) reset() {
	vc.keys[clockKey.Name] = clockKey
	vc.events = nil
	vc.nfresh = 0
	vc.ordinals = map[string]int{}
	vc.declared = map[string]bool{}
	vc.Notes = nil
	vc.newKey = false
}

func (vc *VC) note(format string, args ...interface{}) {
	s := fmt.Sprintf(format, args...)
	for _, n := range vc.Notes {
		if n == s {
			return
		}
	}
	vc.Notes = append(vc.Notes, s)
}

func (vc *VC) decl(name, sort string) string {
	if !vc.declared[name] {
		vc.declared[name] = true
		vc.events = append(vc.events, Event{Kind: evDecl, Text: fmt.Sprintf("(declare-const %s %s)", name, sort)})
	}
	return name
}

func (vc *VC) declFun(name, sig string) {
	if !vc.declared[name] {
		vc.declared[name] = true
		vc.events = append(vc.events, Event{Kind: evDecl, Text: fmt.Sprintf("(declare-fun %s %s)", name, sig)})
	}
}

func (vc *VC) fresh(hint, sort string) string {
	vc.nfresh++
	return vc.decl(fmt.Sprintf("%s!%d", hint, vc.nfresh), sort)
}

func (vc *VC) def(f string) {
	if f == "true" {
		return
	}
	vc.events = append(vc.events, Event{Kind: evDef, Text: f})
}

func (vc *VC) assume(f string) {
	if f == "true" {
		return
	}
	vc.events = append(vc.events, Event{Kind: evAssume, Text: f})
}

func (vc *VC) ordinal(base string) string {
	n := vc.ordinals[base]
	vc.ordinals[base] = n + 1
	return fmt.Sprintf("%s#%d", base, n)
}

func (vc *VC) oblige(o *Obligation) {
	o.idx = len(vc.events)
	if o.Fn == "" {
		o.Fn = FuncKey(vc.Fn)
	}
	vc.events = append(vc.events, Event{Kind: evObl, Obl: o})
}

func (vc *VC) Obligations() []*Obligation {
	var out []*Obligation
	for _, e := range vc.events {
		if e.Kind == evObl {
			out = append(out, e.Obl)
		}
	}
	return out
}

// key registers a heap key; unknown keys trigger another encoding pass.
func (vc *VC) key(k HeapKey) HeapKey {
	if _, ok := vc.keys[k.Name]; !ok {
		vc.keys[k.Name] = k
		vc.newKey = true
	}
	return k
}

func (vc *VC) sortedKeyNames() []string {
	var ks []string
	for k := range vc.keys {
		ks = append(ks, k)
	}
	sort.Strings(ks)
	return ks
}

// Query renders the SMT-LIB text for obligation o.
func (vc *VC) Query(o *Obligation, axioms *AxiomSet) string {
	var decls, body []string
	for i, e := range vc.events {
		switch e.Kind {
		case evDecl:
			decls = append(decls, e.Text)
		case evDef, evAssume:
			if i < o.idx {
				body = append(body, "(assert "+e.Text+")")
			}
		case evObl:
			if i < o.idx && !e.Obl.Cover && !e.Obl.Canary {
				body = append(body, "(assert "+sImp(e.Obl.Guard, e.Obl.Cond)+")")
			}
		}
	}
	for _, x := range o.Extra {
		body = append(body, "(assert "+x+")")
	}
	if o.Cover {
		body = append(body, "(assert "+sAnd(o.Guard, o.Cond)+")")
	} else {
		body = append(body, "(assert "+sAnd(o.Guard, sNot(o.Cond))+")")
	}
	return vc.assemble(decls, body, axioms)
}

func (vc *VC) assemble(decls, body []string, axioms *AxiomSet) string {
	text := strings.Join(body, "\n")
	var axDecls, axInst []string
	if axioms != nil {
		axDecls, axInst = axioms.Instantiate(text + "\n" + strings.Join(decls, "\n"))
	}
	all := strings.Join(decls, "\n") + "\n" + strings.Join(axDecls, "\n") + "\n" + strings.Join(axInst, "\n") + "\n" + text
	// datatype declarations needed
	S := vc.P.Sorts
	need := map[int]bool{}
	hay := all
	for changed := true; changed; {
		changed = false
		for i := len(S.decls) - 1; i >= 0; i-- {
			if need[i] {
				continue
			}
			name := declName(S.decls[i])
			if strings.Contains(hay, name) {
				need[i] = true
				hay += S.decls[i]
				changed = true
			}
		}
	}
	var dts []string
	for i := range S.decls {
		if need[i] {
			dts = append(dts, S.decls[i])
		}
	}
	var sb strings.Builder
	sb.WriteString("(set-option :produce-models true)\n(set-logic ALL)\n")
	sb.WriteString(prelude)
	sb.WriteString(strings.Join(dts, "\n"))
	sb.WriteString("\n")
	sb.WriteString(strings.Join(decls, "\n"))
	sb.WriteString("\n")
	sb.WriteString(strings.Join(axDecls, "\n"))
	sb.WriteString("\n")
	for _, a := range axInst {
		sb.WriteString("(assert " + a + ")\n")
	}
	sb.WriteString(text)
	sb.WriteString("\n(check-sat)\n")
	return sb.String()
}

func declName(decl string) string {
	// (declare-datatypes ((NAME 0)) ...
	i := strings.Index(decl, "((")
	j := strings.Index(decl[i+2:], " ")
	return decl[i+2 : i+2+j]
}
