package engine

import (
	"fmt"
	"sort"
	"strings"
)

type compiledAxiom struct {
	name     string
	vars     []string // placeholder tokens, in declaration order
	triggers []compiledTrigger
	body     string
}

type compiledTrigger struct {
	fn   string
	args []string // placeholder token per argument position ("" = anything)
}

// AxiomSet holds the axioms compiled to SMT templates for generator-side instantiation.
type AxiomSet struct {
	axioms []compiledAxiom
	Rounds int
}

// CompileAxioms translates all declared axioms in the context of vc (for declarations).
func (vc *VC) CompileAxioms(pkg string) (*AxiomSet, error) {
	as := &AxiomSet{Rounds: 2}
	for _, ax := range vc.P.Contracts.Axioms {
		env := &specEnv{vc: vc, pkg: ax.Pkg, bound: map[string]TV{}}
		ca := compiledAxiom{name: ax.Name}
		for _, v := range ax.Vars {
			s, T, err := env.specSort(v.Type)
			if err != nil {
				return nil, fmt.Errorf("axiom %s: %v", ax.Name, err)
			}
			tok := "AXV!" + ax.Name + "!" + v.Name + "!"
			env.bound[v.Name] = TV{tok, s, T}
			ca.vars = append(ca.vars, tok)
		}
		body, err := env.Bool(ax.Body)
		if err != nil {
			return nil, fmt.Errorf("axiom %s: %v", ax.Name, err)
		}
		ca.body = body
		for _, tr := range ax.Triggers {
			call, ok := tr.(*SCall)
			if !ok {
				return nil, fmt.Errorf("axiom %s: trigger must be a call", ax.Name)
			}
			// make sure the function is declared
			if _, err := env.Term(call); err != nil {
				return nil, fmt.Errorf("axiom %s trigger: %v", ax.Name, err)
			}
			ct := compiledTrigger{fn: call.Fn}
			for _, a := range call.Args {
				if id, ok := a.(*SIdent); ok {
					if tv, ok := env.bound[id.Name]; ok {
						ct.args = append(ct.args, tv.T)
						continue
					}
				}
				ct.args = append(ct.args, "")
			}
			ca.triggers = append(ca.triggers, ct)
		}
		as.axioms = append(as.axioms, ca)
	}
	return as, nil
}

// applications finds all "(fn a1 .. an)" in text.
func applications(text, fn string) [][]string {
	var out [][]string
	pat := "(" + fn + " "
	idx := 0
	for {
		i := strings.Index(text[idx:], pat)
		if i < 0 {
			break
		}
		start := idx + i
		d := 0
		end := -1
		for j := start; j < len(text); j++ {
			if text[j] == '(' {
				d++
			} else if text[j] == ')' {
				d--
				if d == 0 {
					end = j
					break
				}
			}
		}
		if end < 0 {
			break
		}
		parts := sexprParts(text[start : end+1])
		if len(parts) > 1 {
			out = append(out, parts[1:])
		}
		idx = start + len(pat)
	}
	return out
}

// Instantiate returns axiom instances for every ground application of a trigger in text.
func (as *AxiomSet) Instantiate(text string) (decls, insts []string) {
	seen := map[string]bool{}
	hay := text
	for round := 0; round < as.Rounds; round++ {
		var added []string
		for _, ax := range as.axioms {
			for _, tr := range ax.triggers {
				for _, args := range applications(hay, tr.fn) {
					if len(args) != len(tr.args) {
						continue
					}
					// skip applications that mention quantifier-bound or placeholder variables
					skip := false
					sub := map[string]string{}
					for k, a := range args {
						if strings.Contains(a, "AXV!") || strings.Contains(a, "q!") {
							skip = true
							break
						}
						if tr.args[k] != "" {
							if prev, ok := sub[tr.args[k]]; ok && prev != a {
								skip = true
								break
							}
							sub[tr.args[k]] = a
						}
					}
					if skip || len(sub) != len(ax.vars) {
						continue
					}
					inst := ax.body
					for _, v := range ax.vars {
						inst = strings.ReplaceAll(inst, v, sub[v])
					}
					if !seen[inst] {
						seen[inst] = true
						added = append(added, inst)
					}
				}
			}
		}
		if len(added) == 0 {
			break
		}
		sort.Strings(added)
		insts = append(insts, added...)
		hay = hay + "\n" + strings.Join(added, "\n")
		if len(insts) > 4000 {
			break
		}
	}
	return nil, insts
}
