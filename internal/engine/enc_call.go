package engine

import (
	"fmt"
	"go/token"
	"sort"
	"go/types"
	"strings"

	"golang.org/x/tools/go/ssa"
)

var inlineCounter int

func (e *fnEnc) staticCallee(c *ssa.CallCommon) *ssa.Function {
	if c.IsInvoke() {
		return nil
	}
	switch v := c.Value.(type) {
	case *ssa.Function:
		return v
	case *ssa.MakeClosure:
		return v.Fn.(*ssa.Function)
	}
	return nil
}

// bindResult records the result value(s) of a call instruction.
func (e *fnEnc) bindResults(v ssa.Value, sig *types.Signature, terms []string) {
	if v == nil {
		return
	}
	res := sig.Results()
	switch res.Len() {
	case 0:
	case 1:
		e.setVal(v, terms[0])
	default:
		e.tuples[v] = terms
	}
}

func (e *fnEnc) freshResults(v ssa.Value, sig *types.Signature, hint string) []string {
	e.bumpClock()
	res := sig.Results()
	var out []string
	for k := 0; k < res.Len(); k++ {
		n := e.vc.fresh(hint+".r", e.S().SortOf(res.At(k).Type()))
		e.vc.assume(e.typeFacts(n, res.At(k).Type(), 2))
		e.assumeLoadedInv(n, res.At(k).Type())
		out = append(out, n)
	}
	return out
}

func (e *fnEnc) call(v ssa.Value, c *ssa.CallCommon, instr ssa.Instruction) {
	e.countHit(c, instr)
	e.siteAsserts(v, c, instr, true)
	e.call0(v, c, instr)
	e.recordResult(v, c, instr)
	e.recordSnapshots(c, instr)
	e.siteAsserts(v, c, instr, false)
}

// resKey is the ghost cell holding the value the call site last returned (lastresult("name#k")).
func resKey(site, sort string) HeapKey { return HeapKey{Name: "RES!" + mangle(site), Sort: sort} }

// recordResult stores the (first) result of a call whose site the contract names in lastresult("name#k").
func (e *fnEnc) recordResult(v ssa.Value, c *ssa.CallCommon, instr ssa.Instruction) {
	if !e.top || e.contract == nil || len(e.contract.ResSites) == 0 || v == nil {
		return
	}
	res := c.Signature().Results()
	if res.Len() == 0 {
		return
	}
	for _, n := range e.callNames(c) {
		site := fmt.Sprintf("%s#%d", n, e.siteOrdinal(instr, n))
		if !e.contract.ResSites[site] {
			continue
		}
		term := ""
		if ts, ok := e.tuples[v]; ok {
			term = ts[0]
		} else {
			term = e.term(v)
		}
		e.setHeap(resKey(site, e.S().SortOf(res.At(0).Type())), term)
		if e.resTypes == nil {
			e.resTypes = map[string]types.Type{}
		}
		e.resTypes[site] = res.At(0).Type()
	}
}

// snapKey is the ghost cell of snapshot("site", expr): the value of expr right after that call site last executed.
func snapKey(site, expr, sort string) HeapKey { return HeapKey{Name: "SNAP!" + mangle(site+"|"+expr), Sort: sort} }

// recordSnapshots evaluates, right after a call whose site the contract names in snapshot("name#k", e), each such e in
// the state the call left and stores it in its ghost cell.
func (e *fnEnc) recordSnapshots(c *ssa.CallCommon, instr ssa.Instruction) {
	if !e.top || e.contract == nil || len(e.contract.Snaps) == 0 {
		return
	}
	for _, n := range e.callNames(c) {
		site := fmt.Sprintf("%s#%d", n, e.siteOrdinal(instr, n))
		exprs := e.contract.Snaps[site]
		if len(exprs) == 0 {
			continue
		}
		for _, li := range e.loops {
			if li.body[e.curBlk] {
				e.fail("snapshot(%q, ...): the call site lies inside a loop (not supported)", site)
			}
		}
		idx := -1
		for k, in := range e.curBlk.Instrs {
			if in == instr {
				idx = k
			}
		}
		blk := e.curBlk
		for _, ex := range exprs {
			env := e.newEnv()
			env.heapAt = e.cur
			env.oldHeap = e.entryHeap
			env.lookup = func(name string) (TV, bool) { return e.varAtIdx(name, blk, idx+1, nil, e.cur) }
			tv, err := env.Term(ex)
			if err != nil {
				e.fail("snapshot(%q, %s): %v", site, ex.String(), err)
			}
			e.setHeap(snapKey(site, ex.String(), tv.Sort), tv.T)
		}
	}
}

// resultTypeOfSite finds the static result type of call site "name#k" of the function (for lastresult in clauses that
// are translated before the call has been encoded).
func (e *fnEnc) resultTypeOfSite(site string) types.Type {
	if t, ok := e.resTypes[site]; ok {
		return t
	}
	for _, b := range e.fn.Blocks {
		for _, in := range b.Instrs {
			ci, ok := in.(ssa.CallInstruction)
			if !ok {
				continue
			}
			for _, n := range e.callNames(ci.Common()) {
				if fmt.Sprintf("%s#%d", n, e.siteOrdinal(in, n)) == site {
					if res := ci.Common().Signature().Results(); res.Len() > 0 {
						return res.At(0).Type()
					}
				}
			}
		}
	}
	return nil
}

// siteAsserts checks `at call NAME#k assert` clauses right after the matching call.
func (e *fnEnc) siteAsserts(v ssa.Value, c *ssa.CallCommon, instr ssa.Instruction, before bool) {
	if !e.top || e.contract == nil || len(e.contract.AtCalls) == 0 {
		return
	}
	var names []string
	if fn := e.staticCallee(c); fn != nil {
		names = append(names, fn.Name(), fn.String())
		if fn.Pkg != nil {
			names = append(names, fn.RelString(fn.Pkg.Pkg))
		}
	} else if c.IsInvoke() {
		names = append(names, c.Method.Name())
	} else if b, ok := c.Value.(*ssa.Builtin); ok {
		names = append(names, b.Name())
	}
	seen := map[string]bool{}
	for _, n := range names {
		if seen[n] {
			continue
		}
		seen[n] = true
		site := fmt.Sprintf("%s#%d", n, e.siteOrdinal(instr, n))
		for _, cl := range e.contract.AtCalls {
			if (cl.Site != site && cl.Site != n+"#*") || (cl.Kind == "assert-before") != before {
				continue
			}
			isAssume := cl.Kind == "assume-after"
			idx := -1
			for k, in := range e.curBlk.Instrs {
				if in == instr {
					idx = k
				}
			}
			env := e.newEnv()
			env.heapAt = e.cur
			env.oldHeap = e.entryHeap
			blk := e.curBlk
			env.lookup = func(name string) (TV, bool) {
				if name == "result" && v != nil {
					if ts, ok := e.tuples[v]; ok {
						res := c.Signature().Results()
						return TV{ts[0], e.S().SortOf(res.At(0).Type()), res.At(0).Type()}, true
					}
					return TV{e.term(v), e.S().SortOf(v.Type()), v.Type()}, true
				}
				if strings.HasPrefix(name, "arg") {
					var k int
					if _, err := fmt.Sscanf(name, "arg%d", &k); err == nil && k < len(c.Args) {
						return TV{e.term(c.Args[k]), e.S().SortOf(c.Args[k].Type()), c.Args[k].Type()}, true
					}
				}
				return e.varAtIdx(name, blk, idx, nil, e.cur)
			}
			f, err := env.Bool(cl.Expr)
			if err != nil {
				e.fail("at call %s assert %q: %v", cl.Site, cl.Src, err)
			}
			if isAssume {
				e.vc.assume(sImp(e.guard(), f))
				e.vc.note("ASSUMED (library contract, not proved) at call %s in %s: %s", site, FuncKey(e.fn), cl.Src)
				continue
			}
			props := cl.Props
			if len(props) == 0 {
				props = e.contract.AllProps()
			}
			tag := cl.Tag
			if tag == "" {
				tag = "a"
			}
			e.vc.oblige(&Obligation{Name: fmt.Sprintf("%s#assert:%s@%s", FuncKey(e.fn), tag, site), Kind: "assert", Guard: e.guard(), Cond: f, Props: props, Pos: instr.Pos(), Src: cl.Src})
		}
	}
}

func (e *fnEnc) call0(v ssa.Value, c *ssa.CallCommon, instr ssa.Instruction) {
	if b, ok := c.Value.(*ssa.Builtin); ok {
		e.builtin(v, b, c, instr)
		return
	}
	sig := c.Signature()
	var args []string
	for _, a := range c.Args {
		args = append(args, e.term(a))
	}
	hint := e.prefix + "call"
	if v != nil {
		hint = e.name(v)
	}
	fn := e.staticCallee(c)
	if fn == nil {
		// dynamic or interface call
		if c.IsInvoke() {
			recv := e.term(c.Value)
			e.safety("nil", "invoke", fmt.Sprintf("(not (= (i-tag %s) 0))", recv), instr.Pos(), "method call on nil interface value ("+c.Method.Name()+")")
		} else {
			fv := e.term(c.Value)
			e.safety("nil", "callfunc", fmt.Sprintf("(not (= %s 0))", fv), instr.Pos(), "call of nil function value")
		}
		fns, unknown := e.vc.P.Callees(c)
		all := unknown
		merged := &Summary{Writes: map[string]bool{}}
		for _, f := range fns {
			if s := e.vc.P.Summ[f]; s != nil {
				if s.All {
					all = true
				}
				for k := range s.Writes {
					merged.Writes[k] = true
				}
			}
		}
		if c.IsInvoke() && len(fns) == 0 {
			if e.libInvoke(v, c, hint) {
				return
			}
		}
		e.havocSummary(merged, all)
		e.bindResults(v, sig, e.freshResults(v, sig, hint))
		return
	}
	if !e.vc.P.InModule(fn) {
		e.libCall(v, fn, c, args, hint, instr)
		return
	}
	if fn.Signature.Recv() != nil && len(args) > 0 {
		if _, ok := c.Args[0].Type().Underlying().(*types.Pointer); ok {
			if _, isAlloc := c.Args[0].(*ssa.Alloc); !isAlloc {
				e.safety("nil", "recv", fmt.Sprintf("(not (= %s 0))", args[0]), instr.Pos(), "method "+fn.Name()+" called on a nil receiver")
			}
		}
	}
	if e.vc.Opt.SafetyKinds["lock"] && !e.inlineAssume && len(c.Args) > 0 {
		if pt, ok := c.Args[0].Type().Underlying().(*types.Pointer); ok && fn.Signature.Recv() != nil {
			if g := e.vc.P.guardFor(pt.Elem()); g != nil {
				if li := e.vc.P.Lock[fn]; li != nil && (li.needs || li.takes) {
					if _, isGo := instr.(*ssa.Go); !isGo {
						h := e.heldTerm(pt.Elem(), g, args[0])
						if li.needs {
							name := e.vc.ordinal(fmt.Sprintf("%s#lock:call.%s", FuncKey(e.fn), fn.Name()))
							e.vc.oblige(&Obligation{Name: name, Kind: "lock", Guard: e.guard(), Cond: h, Props: e.vc.Opt.SafetyProps, Pos: instr.Pos(), Src: fn.Name() + " touches guarded state: caller must hold " + g.Mutex})
						} else {
							name := e.vc.ordinal(fmt.Sprintf("%s#lock:reacquire.%s", FuncKey(e.fn), fn.Name()))
							e.vc.oblige(&Obligation{Name: name, Kind: "lock", Guard: e.guard(), Cond: sNot(h), Props: e.vc.Opt.SafetyProps, Pos: instr.Pos(), Src: fn.Name() + " takes " + g.Mutex + " itself: calling it with the mutex held deadlocks"})
						}
					}
				}
			}
		}
	}
	contract := e.vc.P.Contract(fn)
	if contract.IsTransparent() {
		contract = nil
	}
	if contract != nil && !contract.Pure {
		defer e.materialiseInterior(fn, c, args)()
	}
	switch {
	case contract != nil && !contract.Pure:
		e.applyContract(v, fn, contract, c, args, hint, instr)
	case (contract != nil && contract.Pure) || e.canInline(fn):
		e.inline(v, fn, c, args, hint, instr)
	default:
		e.havocSummary(e.vc.P.Summ[fn], false)
		e.bindResults(v, sig, e.freshResults(v, sig, hint))
	}
}

func (e *fnEnc) canInline(fn *ssa.Function) bool {
	if e.vc.Opt.InlineDepth <= 0 || fn.Blocks == nil {
		return false
	}
	if e.vc.inlineDepth >= e.vc.Opt.InlineDepth {
		return false
	}
	n := 0
	for _, b := range fn.Blocks {
		n += len(b.Instrs)
		for _, s := range b.Succs {
			if s.Dominates(b) {
				return false // loops
			}
		}
		for _, in := range b.Instrs {
			switch in.(type) {
			case *ssa.Defer, *ssa.Go, *ssa.Select:
				return false
			}
		}
	}
	if n > 80 {
		return false
	}
	if fn.Recover != nil {
		return false
	}
	return !e.onInlineStack(fn)
}

var inlineStack []*ssa.Function

func (e *fnEnc) onInlineStack(fn *ssa.Function) bool {
	if fn == e.vc.Fn {
		return true
	}
	for _, f := range inlineStack {
		if f == fn {
			return true
		}
	}
	return false
}

func (e *fnEnc) calleeEnv(fn *ssa.Function, args []string, results []string, pre, post map[string]string) *specEnv {
	env := &specEnv{e: e, bound: map[string]TV{}}
	if fn.Pkg != nil {
		env.pkg = fn.Pkg.Pkg.Path()
	} else if fn.Parent() != nil && fn.Parent().Pkg != nil {
		env.pkg = fn.Parent().Pkg.Pkg.Path()
	}
	env.heapAt = post
	env.oldHeap = pre
	res := fn.Signature.Results()
	env.lookup = func(name string) (TV, bool) {
		for k, p := range fn.Params {
			if p.Name() == name && k < len(args) {
				return TV{args[k], e.S().SortOf(p.Type()), p.Type()}, true
			}
		}
		if results != nil {
			for k := 0; k < res.Len(); k++ {
				if res.At(k).Name() == name && name != "" && name != "_" {
					return TV{results[k], e.S().SortOf(res.At(k).Type()), res.At(k).Type()}, true
				}
			}
			if name == "result" && res.Len() >= 1 {
				return TV{results[0], e.S().SortOf(res.At(0).Type()), res.At(0).Type()}, true
			}
			var i int
			if _, err := fmt.Sscanf(name, "result%d", &i); err == nil && strings.HasPrefix(name, "result") && i < res.Len() {
				return TV{results[i], e.S().SortOf(res.At(i).Type()), res.At(i).Type()}, true
			}
		}
		return TV{}, false
	}
	return env
}

func (e *fnEnc) applyContract(v ssa.Value, fn *ssa.Function, ct *FuncContract, c *ssa.CallCommon, args []string, hint string, instr ssa.Instruction) {
	pre := copyMap(e.cur)
	envPre := e.calleeEnv(fn, args, nil, pre, pre)
	short := fn.Name()
	for k, r := range ct.Requires {
		f, err := envPre.Bool(r.Expr)
		if err != nil {
			e.fail("call %s: requires %q: %v", short, r.Src, err)
		}
		if e.inlineAssume {
			e.vc.assume(sImp(e.guard(), f))
			continue
		}
		tag := r.Tag
		if tag == "" {
			tag = fmt.Sprintf("r%d", k)
		}
		props := r.Props
		if len(props) == 0 {
			props = append(append([]string{}, ct.Props...), ct.Extra["sweep"]...)
		}
		name := e.vc.ordinal(fmt.Sprintf("%s#pre:%s.%s", FuncKey(e.fn), short, tag))
		e.vc.oblige(&Obligation{Name: name, Kind: "pre", Guard: e.guard(), Cond: f, Props: props, Pos: instr.Pos(), Src: "requires of " + short + ": " + r.Src})
	}
	// recursion measure (lexicographic tuple): every call into the recursion decreases it
	if ct.Measure != nil && e.top && e.contract != nil && e.contract.Measure != nil && !e.inlineAssume {
		calleeM := append([]SExpr{ct.Measure.Expr}, ct.Measure.More...)
		ownM := append([]SExpr{e.contract.Measure.Expr}, e.contract.Measure.More...)
		if len(calleeM) == len(ownM) {
			var cs, os []string
			ok := true
			ownEnv := e.entryEnv()
			for k := range calleeM {
				c, err1 := envPre.Term(calleeM[k])
				o, err2 := ownEnv.Term(ownM[k])
				if err1 != nil || err2 != nil {
					e.fail("measure: %v %v", err1, err2)
				}
				cs, os = append(cs, c.T), append(os, o.T)
				_ = ok
			}
			// lexicographic decrease with every component bounded below by 0
			dec := "false"
			for k := len(cs) - 1; k >= 0; k-- {
				dec = fmt.Sprintf("(or (< %s %s) (and (= %s %s) %s))", cs[k], os[k], cs[k], os[k], dec)
			}
			var nonneg []string
			for k := range os {
				nonneg = append(nonneg, fmt.Sprintf("(>= %s 0)", os[k]), fmt.Sprintf("(>= %s 0)", cs[k]))
			}
			name := e.vc.ordinal(fmt.Sprintf("%s#rec-measure:%s", FuncKey(e.fn), short))
			props := ct.Measure.Props
			if len(props) == 0 {
				props = ct.AllProps()
			}
			e.vc.oblige(&Obligation{Name: name, Kind: "rec-measure", Guard: e.guard(), Cond: sAnd(append(nonneg, dec)...), Props: props, Pos: instr.Pos(), Src: "recursion measure decreases: " + ct.Measure.Src})
		}
	}
	// frame
	if len(ct.Assigns) > 0 {
		for _, a := range ct.Assigns {
			if a == "nothing" {
				continue
			}
			for _, k := range e.vc.P.assignKeys(env0(fn), a) {
				e.havoc(k)
			}
		}
	} else {
		e.havocSummary(e.vc.P.Summ[fn], false)
	}
	results := e.freshResults(v, fn.Signature, hint)
	if ct.Functional && len(results) == 1 {
		e.vc.def(sEq(results[0], e.vc.functionalApp(fn, args)))
	}
	envPost := e.calleeEnv(fn, args, results, pre, e.cur)
	for _, cl := range ct.Ensures {
		if strings.Contains(cl.Src, "hits(") {
			continue // speaks about the callee's own call sites: proved in the callee, meaningless to a caller
		}
		f, err := envPost.Bool(cl.Expr)
		if err != nil {
			if strings.Contains(err.Error(), "unknown name") {
				continue // speaks about the callee's locals: proved inside the callee only
			}
			e.fail("call %s: ensures %q: %v", short, cl.Src, err)
		}
		e.vc.assume(sImp(e.guard(), f))
	}
	e.bindResults(v, fn.Signature, results)
	e.assumeInvsAfterCall(fn, c, args, results)
}

// assumeInvsAfterCall: a contracted callee re-establishes the type invariants of the objects it was given and returns.
func (e *fnEnc) assumeInvsAfterCall(fn *ssa.Function, c *ssa.CallCommon, args, results []string) {
	for k, a := range c.Args {
		if k < len(args) {
			for _, f := range e.typeInvFormulas(args[k], a.Type(), e.cur) {
				e.vc.assume(sImp(e.guard(), f.f))
			}
		}
	}
	res := fn.Signature.Results()
	for k := 0; k < res.Len() && k < len(results); k++ {
		for _, f := range e.typeInvFormulas(results[k], res.At(k).Type(), e.cur) {
			e.vc.assume(sImp(e.guard(), f.f))
		}
	}
}

func env0(fn *ssa.Function) string {
	if fn.Pkg != nil {
		return fn.Pkg.Pkg.Path()
	}
	if fn.Parent() != nil && fn.Parent().Pkg != nil {
		return fn.Parent().Pkg.Pkg.Path()
	}
	return ""
}

// assignKeys resolves an "assigns" item "Type.field" (or a raw heap key) to heap key names.
func (p *Program) assignKeys(pkgPath, item string) []string {
	if strings.Contains(item, "!") {
		return []string{item}
	}
	i := strings.LastIndex(item, ".")
	if i < 0 {
		return nil
	}
	tn, fn := item[:i], item[i+1:]
	T, err := p.LookupType(pkgPath, tn)
	if err != nil {
		p.Warn("assigns: %v", err)
		return nil
	}
	st, ok := T.Underlying().(*types.Struct)
	if !ok {
		return nil
	}
	var out []string
	for k := 0; k < st.NumFields(); k++ {
		if st.Field(k).Name() == fn || fn == "*" {
			out = append(out, p.Sorts.FieldKey(T, k).Name)
		}
	}
	return out
}

func (e *fnEnc) inline(v ssa.Value, fn *ssa.Function, c *ssa.CallCommon, args []string, hint string, instr ssa.Instruction) {
	inlineCounter++
	e.vc.nfresh++
	child := e.vc.newFnEnc(fn, fmt.Sprintf("%sc%d!", e.prefix, e.vc.nfresh), false)
	child.inlineAssume = true
	child.analyseCFG()
	if len(child.loops) > 0 {
		// loops need invariants; fall back to havoc
		e.havocSummary(e.vc.P.Summ[fn], false)
		e.bindResults(v, fn.Signature, e.freshResults(v, fn.Signature, hint))
		return
	}
	// preconditions of a contracted pure function are checked at the call site
	if ct := e.vc.P.Contract(fn); ct != nil {
		pre := copyMap(e.cur)
		envPre := e.calleeEnv(fn, args, nil, pre, pre)
		for k, r := range ct.Requires {
			f, err := envPre.Bool(r.Expr)
			if err != nil {
				e.fail("call %s: requires %q: %v", fn.Name(), r.Src, err)
			}
			if e.inlineAssume {
				e.vc.assume(sImp(e.guard(), f))
				continue
			}
			tag := r.Tag
			if tag == "" {
				tag = fmt.Sprintf("r%d", k)
			}
			props := r.Props
			if len(props) == 0 {
				props = append(append([]string{}, ct.Props...), ct.Extra["sweep"]...)
			}
			name := e.vc.ordinal(fmt.Sprintf("%s#pre:%s.%s", FuncKey(e.fn), fn.Name(), tag))
			e.vc.oblige(&Obligation{Name: name, Kind: "pre", Guard: e.guard(), Cond: f, Props: props, Pos: instr.Pos(), Src: "requires of " + fn.Name() + ": " + r.Src})
		}
	}
	for k, p := range fn.Params {
		if k < len(args) {
			child.val[p] = args[k]
			child.params[p.Name()] = TV{args[k], e.S().SortOf(p.Type()), p.Type()}
			// an interior address (&x.f, &a[i], &global) keeps its static resolution inside the inlined body
			if k < len(c.Args) {
				if lv, ok := e.lvOf(c.Args[k]); ok {
					child.lvs[p] = lv
				}
			}
		}
	}
	if mc, ok := c.Value.(*ssa.MakeClosure); ok {
		for k, fv := range fn.FreeVars {
			child.val[fv] = e.term(mc.Bindings[k])
		}
	}
	child.cur = copyMap(e.cur)
	child.entryHeap = copyMap(e.cur)
	inlineStack = append(inlineStack, fn)
	e.vc.inlineDepth++
	savedBlk := e.curBlk
	for _, b := range child.order {
		if b == fn.Blocks[0] {
			child.curBlk = b
			child.reach[b] = e.guard()
			for _, in := range b.Instrs {
				child.instr(in)
			}
			child.heapOut[b] = copyMap(child.cur)
			continue
		}
		child.block(b, e.guard())
	}
	e.vc.inlineDepth--
	inlineStack = inlineStack[:len(inlineStack)-1]
	e.curBlk = savedBlk
	e.vc.note("transparent (body-as-contract) callee: %s", FuncKey(fn))
	// merge returns
	res := fn.Signature.Results()
	switch len(child.rets) {
	case 0:
		// never returns (always panics): the rest of the block is unreachable
		e.vc.assume(sNot(e.guard()))
		e.bindResults(v, fn.Signature, e.freshResults(v, fn.Signature, hint))
	case 1:
		e.cur = child.rets[0].heap
		e.bindResults(v, fn.Signature, child.rets[0].vals)
	default:
		var results []string
		for k := 0; k < res.Len(); k++ {
			n := e.vc.fresh(hint+".r", e.S().SortOf(res.At(k).Type()))
			for _, r := range child.rets {
				e.vc.def(sImp(r.guard, sEq(n, r.vals[k])))
			}
			results = append(results, n)
		}
		merged := map[string]string{}
		for _, k := range e.vc.sortedKeyNames() {
			same := true
			first := child.rets[0].heap[k]
			for _, r := range child.rets {
				if r.heap[k] != first {
					same = false
				}
			}
			if same && first != "" {
				merged[k] = first
				continue
			}
			n := e.vc.fresh("H!"+k, e.vc.keys[k].Sort)
			for _, r := range child.rets {
				hv := r.heap[k]
				if hv == "" {
					hv = e.vc.decl("H0!"+k, e.vc.keys[k].Sort)
				}
				e.vc.def(sImp(r.guard, sEq(n, hv)))
			}
			merged[k] = n
		}
		e.cur = merged
		e.bindResults(v, fn.Signature, results)
	}
}

// ---------- builtins ----------

func (e *fnEnc) builtin(v ssa.Value, b *ssa.Builtin, c *ssa.CallCommon, instr ssa.Instruction) {
	arg := func(i int) string { return e.term(c.Args[i]) }
	switch b.Name() {
	case "len":
		x := arg(0)
		switch xt := c.Args[0].Type().Underlying().(type) {
		case *types.Basic:
			e.setVal(v, fmt.Sprintf("(s-len %s)", x))
		case *types.Slice:
			e.setVal(v, fmt.Sprintf("(c-len %s)", x))
		case *types.Array:
			e.setVal(v, fmt.Sprint(xt.Len()))
		case *types.Pointer:
			e.setVal(v, fmt.Sprint(xt.Elem().Underlying().(*types.Array).Len()))
		case *types.Map:
			e.vc.declFun("maplen", "((Array Int Bool)) Int")
			n := fmt.Sprintf("(maplen (select %s %s))", e.heap(e.S().MapHasKey(xt)), x)
			e.setVal(v, sIte(fmt.Sprintf("(= %s 0)", x), "0", n))
			e.vc.assume(fmt.Sprintf("(>= %s 0)", e.val[v]))
		default:
			n := e.opaque(v)
			e.vc.assume(fmt.Sprintf("(>= %s 0)", n))
		}
	case "cap":
		x := arg(0)
		if _, ok := c.Args[0].Type().Underlying().(*types.Slice); ok {
			e.setVal(v, fmt.Sprintf("(c-cap %s)", x))
		} else {
			n := e.opaque(v)
			e.vc.assume(fmt.Sprintf("(>= %s 0)", n))
		}
	case "append":
		e.appendBuiltin(v, c)
	case "copy":
		dst, src := arg(0), arg(1)
		n := e.opaque(v)
		srcLen := fmt.Sprintf("(c-len %s)", src)
		if isString(c.Args[1].Type()) {
			srcLen = fmt.Sprintf("(s-len %s)", src)
		}
		e.vc.assume(fmt.Sprintf("(= %s (ite (< (c-len %s) %s) (c-len %s) %s))", n, dst, srcLen, dst, srcLen))
		st := c.Args[0].Type().Underlying().(*types.Slice)
		ek := e.S().ElemKey(st.Elem())
		row := e.vc.fresh("copyrow", "(Array Int "+e.S().SortOf(st.Elem())+")")
		h := e.heap(ek)
		e.setHeap(ek, fmt.Sprintf("(store %s (c-ref %s) %s)", h, dst, row))
	case "delete":
		m := arg(0)
		mt := c.Args[0].Type().Underlying().(*types.Map)
		k := e.mapKey(arg(1), mt.Key())
		hk := e.S().MapHasKey(mt)
		hh := e.heap(hk)
		e.setHeap(hk, sIte(fmt.Sprintf("(= %s 0)", m), hh, fmt.Sprintf("(store %s %s (store (select %s %s) %s false))", hh, m, hh, m, k)))
		e.vc.declFun("maplen", "((Array Int Bool)) Int")
		e.vc.assume(fmt.Sprintf("(and (>= (maplen (select %s %s)) 0) (>= (maplen (select %s %s)) (- (maplen (select %s %s)) 1)) (=> (not (select (select %s %s) %s)) (= (maplen (select %s %s)) (maplen (select %s %s)))))", e.heap(hk), m, e.heap(hk), m, hh, m, hh, m, k, e.heap(hk), m, hh, m))
	case "print", "println", "close", "clear":
	case "recover":
		e.opaque(v)
	case "min", "max":
		x, y := arg(0), arg(1)
		op := "<="
		if b.Name() == "max" {
			op = ">="
		}
		e.setVal(v, fmt.Sprintf("(ite (%s %s %s) %s %s)", op, x, y, x, y))
	default:
		if v != nil {
			e.opaque(v)
		}
	}
}

func (e *fnEnc) appendBuiltin(v ssa.Value, c *ssa.CallCommon) {
	s := e.term(c.Args[0])
	st := c.Args[0].Type().Underlying().(*types.Slice)
	ek := e.S().ElemKey(st.Elem())
	r := e.freshRefRaw("appendref")
	capn := e.vc.fresh("appendcap", "Int")
	h := e.heap(ek)
	oldRow := fmt.Sprintf("(select %s (c-ref %s))", h, s)
	// single-element append: the argument slice was built from a one-element array
	if one, ok := e.singleAppendElem(c.Args[1]); ok {
		newLen := fmt.Sprintf("(+ (c-len %s) 1)", s)
		e.setHeap(ek, fmt.Sprintf("(store %s %s (store %s (+ (c-off %s) (c-len %s)) %s))", h, r, oldRow, s, s, one))
		e.vc.assume(fmt.Sprintf("(>= %s %s)", capn, newLen))
		e.setVal(v, fmt.Sprintf("(mk-slc %s (c-off %s) %s %s)", r, s, newLen, capn))
		return
	}
	var addLen string
	if isString(c.Args[1].Type()) {
		addLen = fmt.Sprintf("(s-len %s)", e.term(c.Args[1]))
	} else {
		addLen = fmt.Sprintf("(c-len %s)", e.term(c.Args[1]))
	}
	newLen := fmt.Sprintf("(+ (c-len %s) %s)", s, addLen)
	row := e.vc.fresh("appendrow", "(Array Int "+e.S().SortOf(st.Elem())+")")
	// the old window is preserved (quantified; only used when a proof needs it)
	e.vc.nfresh++
	bv := fmt.Sprintf("q!ai!%d", e.vc.nfresh)
	e.vc.assume(fmt.Sprintf("(forall ((%s Int)) (! (=> (and (<= (c-off %s) %s) (< %s (+ (c-off %s) (c-len %s)))) (= (select %s %s) (select %s %s))) :pattern ((select %s %s))))", bv, s, bv, bv, s, s, row, bv, oldRow, bv, row, bv))
	e.setHeap(ek, fmt.Sprintf("(store %s %s %s)", h, r, row))
	e.vc.assume(fmt.Sprintf("(>= %s %s)", capn, newLen))
	e.setVal(v, fmt.Sprintf("(mk-slc %s (c-off %s) %s %s)", r, s, newLen, capn))
}

// singleAppendElem recognises append(s, x): the variadic slice is `new [1]T; store; slice`.
func (e *fnEnc) singleAppendElem(arg ssa.Value) (string, bool) {
	sl, ok := arg.(*ssa.Slice)
	if !ok {
		return "", false
	}
	al, ok := sl.X.(*ssa.Alloc)
	if !ok {
		return "", false
	}
	at, ok := al.Type().Underlying().(*types.Pointer).Elem().Underlying().(*types.Array)
	if !ok || at.Len() != 1 {
		return "", false
	}
	// value currently stored in element 0
	arr := e.loadPtr(e.term(al), al.Type().Underlying().(*types.Pointer).Elem())
	return fmt.Sprintf("(select %s 0)", arr), true
}

// callNames lists the names under which a call can be addressed in "at call" / hits() clauses.
func (e *fnEnc) callNames(c *ssa.CallCommon) []string {
	var names []string
	if fn := e.staticCallee(c); fn != nil {
		names = append(names, fn.Name(), fn.String())
		if fn.Pkg != nil {
			names = append(names, fn.RelString(fn.Pkg.Pkg))
		}
	} else if c.IsInvoke() {
		names = append(names, c.Method.Name())
	} else if b, ok := c.Value.(*ssa.Builtin); ok {
		names = append(names, b.Name())
	}
	return names
}

// countHit increments the ghost counters of call sites the contract mentions through hits("name#k").
func (e *fnEnc) countHit(c *ssa.CallCommon, instr ssa.Instruction) {
	if !e.top || e.contract == nil || len(e.contract.HitSites) == 0 {
		return
	}
	seen := map[string]bool{}
	for _, n := range e.callNames(c) {
		if seen[n] {
			continue
		}
		seen[n] = true
		site := fmt.Sprintf("%s#%d", n, e.siteOrdinal(instr, n))
		if e.contract.HitSites[site] {
			k := hitsKey(site)
			e.setHeap(k, fmt.Sprintf("(+ %s 1)", e.heap(k)))
		}
		// "name@argN=V": every call of name whose N-th argument is the constant V
		for hs := range e.contract.HitSites {
			if !strings.HasPrefix(hs, n+"@arg") {
				continue
			}
			var k int
			var val string
			if _, err := fmt.Sscanf(strings.TrimPrefix(hs, n+"@"), "arg%d=%s", &k, &val); err != nil || k >= len(c.Args) {
				continue
			}
			if e.term(c.Args[k]) == val {
				hk := hitsKey(hs)
				e.setHeap(hk, fmt.Sprintf("(+ %s 1)", e.heap(hk)))
			}
		}
	}
}

// siteOrdinal numbers the call sites of one callee name by source position (k-th call to name in the
// function text), independent of block layout.
// allSiteNames: every "NAME#k" a site clause of this function could name (the same naming as siteAsserts).
func (e *fnEnc) allSiteNames() map[string]bool {
	out := map[string]bool{}
	for _, b := range e.fn.Blocks {
		for _, in := range b.Instrs {
			ci, ok := in.(ssa.CallInstruction)
			if !ok {
				continue
			}
			c := ci.Common()
			var names []string
			if fn := e.staticCallee(c); fn != nil {
				names = append(names, fn.Name(), fn.String())
				if fn.Pkg != nil {
					names = append(names, fn.RelString(fn.Pkg.Pkg))
				}
			} else if c.IsInvoke() {
				names = append(names, c.Method.Name())
			} else if bi, ok := c.Value.(*ssa.Builtin); ok {
				names = append(names, bi.Name())
			}
			for _, n := range names {
				out[fmt.Sprintf("%s#%d", n, e.siteOrdinal(in, n))] = true
			}
		}
	}
	return out
}

func (e *fnEnc) siteOrdinal(instr ssa.Instruction, name string) int {
	if e.siteOrd == nil {
		e.siteOrd = map[ssa.Instruction]map[string]int{}
		type site struct {
			in  ssa.Instruction
			pos token.Pos
			blk int
			idx int
		}
		var all []site
		for _, b := range e.fn.Blocks {
			for k, in := range b.Instrs {
				if ci, ok := in.(ssa.CallInstruction); ok {
					p := in.Pos()
					if !p.IsValid() {
						p = ci.Common().Pos()
					}
					all = append(all, site{in, p, b.Index, k})
				}
			}
		}
		sort.SliceStable(all, func(i, j int) bool {
			if all[i].pos != all[j].pos {
				return all[i].pos < all[j].pos
			}
			if all[i].blk != all[j].blk {
				return all[i].blk < all[j].blk
			}
			return all[i].idx < all[j].idx
		})
		count := map[string]int{}
		for _, s := range all {
			m := map[string]int{}
			seen := map[string]bool{}
			for _, n := range e.callNames(s.in.(ssa.CallInstruction).Common()) {
				if seen[n] {
					continue
				}
				seen[n] = true
				m[n] = count[n]
				count[n]++
			}
			e.siteOrd[s.in] = m
		}
	}
	if m, ok := e.siteOrd[instr]; ok {
		if k, ok := m[name]; ok {
			return k
		}
	}
	return -1
}

// functionalApp is the uninterpreted-function application standing for a call of a "functional" contracted function.
func (vc *VC) functionalApp(fn *ssa.Function, args []string) string {
	S := vc.P.Sorts
	name := "fn!" + mangle(FuncKey(fn))
	var sorts []string
	for _, p := range fn.Params {
		sorts = append(sorts, S.SortOf(p.Type()))
	}
	vc.declFun(name, "("+strings.Join(sorts, " ")+") "+S.SortOf(fn.Signature.Results().At(0).Type()))
	if c := vc.P.Contract(fn); c != nil && !c.Trusted && len(c.Assigns) == 1 && c.Assigns[0] == "nothing" {
		// the "writes nothing" half is an obligation of the callee (frame:assigns, write summary); what stays assumed is that the data it reads is stable
		vc.note("FUNCTIONAL (assumed in part): %s returns a function of its arguments only - that it writes nothing is checked (its frame:assigns obligation), that the data it reads is not modified between calls is assumed", FuncKey(fn))
	} else {
		vc.note("FUNCTIONAL (assumed): %s returns a function of its arguments only (the data it reads is not modified between calls)", FuncKey(fn))
	}
	return sApp(name, args...)
}

// materialiseInterior: a pointer argument that is the address of a struct-valued field (&x.f) is an
// opaque reference in this model. So that the callee's contract, which speaks about the pointee through
// the pointee type's own field heaps, sees the right values, the current value of x.f is copied into
// those heaps at that reference before the call; the returned function copies it back after the call
// when the callee may write those heaps.
func (e *fnEnc) materialiseInterior(fn *ssa.Function, c *ssa.CallCommon, args []string) func() {
	type mat struct {
		lv   *LValue
		addr string
		T    types.Type
		st   *types.Struct
	}
	var mats []mat
	for k, a := range c.Args {
		lv, ok := e.lvs[a]
		if !ok || k >= len(args) || (lv.Kind == "deref" && len(lv.Path) == 0) {
			continue
		}
		pt, ok := a.Type().Underlying().(*types.Pointer)
		if !ok {
			continue
		}
		st, ok := pt.Elem().Underlying().(*types.Struct)
		if !ok || strings.HasPrefix(types.TypeString(pt.Elem(), nil), "sync.") {
			continue
		}
		cur := e.load(lv)
		sortName := e.S().SortOf(pt.Elem())
		for i := 0; i < st.NumFields(); i++ {
			key := e.S().FieldKey(pt.Elem(), i)
			e.setHeap(key, fmt.Sprintf("(store %s %s (%s %s))", e.heap(key), args[k], e.S().fieldSel(sortName, st.Field(i).Name(), i), cur))
		}
		mats = append(mats, mat{lv, args[k], pt.Elem(), st})
	}
	return func() {
		sum := e.vc.P.Summ[fn]
		for _, m := range mats {
			written := sum == nil || sum.All
			var parts []string
			for i := 0; i < m.st.NumFields(); i++ {
				key := e.S().FieldKey(m.T, i)
				if sum != nil && sum.Writes[key.Name] {
					written = true
				}
				parts = append(parts, fmt.Sprintf("(select %s %s)", e.heap(key), m.addr))
			}
			if !written || m.st.NumFields() == 0 {
				continue
			}
			e.store(m.lv, fmt.Sprintf("(mk-%s %s)", e.S().SortOf(m.T), strings.Join(parts, " ")))
		}
	}
}
