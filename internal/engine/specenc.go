package engine

import (
	"fmt"
	"go/types"
	"math/big"
	"strings"
)

// specEnv translates contract expressions to SMT in a given variable/heap context.
type specEnv struct {
	e       *fnEnc
	vc      *VC
	pkg     string
	lookup  func(name string) (TV, bool)
	heapAt  map[string]string
	oldHeap map[string]string
	bound   map[string]TV
	depth   int
	lookupOld func(name string) (TV, bool) // entry-state values of variables, used inside old(...)
	iterKey   string                       // heap key of the iterator position of the loop whose invariant is being translated
	loopEntryHeap map[string]string         // heap in which the loop was entered (atentry(e) in loop clauses)
	prevHeap   map[string]string            // heap at the head of the current iteration (step clauses)
	lookupPrev func(name string) (TV, bool)
}

func (env *specEnv) VC() *VC {
	if env.vc != nil {
		return env.vc
	}
	return env.e.vc
}

func (env *specEnv) S() *Sorts { return env.VC().P.Sorts }

func (env *specEnv) h(k HeapKey) string {
	vc := env.VC()
	vc.key(k)
	if env.heapAt != nil {
		if v, ok := env.heapAt[k.Name]; ok {
			return v
		}
	}
	return vc.decl("H0!"+k.Name, k.Sort)
}

func (env *specEnv) Bool(x SExpr) (string, error) {
	tv, err := env.Term(x)
	if err != nil {
		return "", err
	}
	if tv.Sort != "Bool" {
		return "", fmt.Errorf("expected a boolean: %s (sort %s)", x, tv.Sort)
	}
	return tv.T, nil
}

func byteT() types.Type { return types.Typ[types.Uint8] }
func intT() types.Type  { return types.Typ[types.Int] }

// specSort gives the SMT sort and Go type for a textual type in a spec declaration.
func (env *specEnv) specSort(t string) (string, types.Type, error) {
	switch t {
	case "string", "[]byte", "Str":
		return "Str", types.Typ[types.String], nil
	case "int", "Int":
		return "Int", intT(), nil
	case "bool", "Bool":
		return "Bool", types.Typ[types.Bool], nil
	case "ref":
		return "Int", nil, nil
	}
	T, err := env.VC().P.LookupType(env.pkg, t)
	if err != nil {
		return "", nil, err
	}
	return env.S().SortOf(T), T, nil
}

// view converts a byte slice value to the immutable Str view of its current contents.
func (env *specEnv) view(tv TV) TV {
	if tv.Sort == "Slc" {
		ek := env.S().ElemKey(byteT())
		return TV{fmt.Sprintf("(mk-str (select %s (c-ref %s)) (c-off %s) (c-len %s))", env.h(ek), tv.T, tv.T, tv.T), "Str", types.Typ[types.String]}
	}
	return tv
}

func (env *specEnv) coerce(tv TV, sort string) (TV, error) {
	if tv.Sort == sort {
		return tv, nil
	}
	if sort == "Str" && tv.Sort == "Slc" {
		return env.view(tv), nil
	}
	if tv.Sort == "nil" {
		switch sort {
		case "Int":
			return TV{"0", "Int", nil}, nil
		case "Slc":
			return TV{"(mk-slc 0 0 0 0)", "Slc", nil}, nil
		case "Ifc":
			return TV{"(mk-ifc 0 0)", "Ifc", nil}, nil
		}
	}
	return tv, fmt.Errorf("sort mismatch: have %s, want %s (%s)", tv.Sort, sort, tv.T)
}

func (env *specEnv) Term(x SExpr) (TV, error) {
	S := env.S()
	switch n := x.(type) {
	case *SInt:
		return TV{sBigStr(n.V), "Int", intT()}, nil
	case *SBool:
		if n.V {
			return TV{"true", "Bool", nil}, nil
		}
		return TV{"false", "Bool", nil}, nil
	case *SStr:
		return TV{StrLitTerm(n.V), "Str", types.Typ[types.String]}, nil
	case *SIdent:
		if tv, ok := env.bound[n.Name]; ok {
			return tv, nil
		}
		if n.Name == "nil" {
			return TV{"nil", "nil", nil}, nil
		}
		if env.lookup != nil {
			if tv, ok := env.lookup(n.Name); ok {
				return tv, nil
			}
		}
		// package-level constant or variable
		if tv, ok := env.pkgObject(n.Name); ok {
			return tv, nil
		}
		return TV{}, fmt.Errorf("unknown name %q", n.Name)
	case *SUnary:
		a, err := env.Term(n.X)
		if err != nil {
			return TV{}, err
		}
		switch n.Op {
		case "!":
			if a.Sort != "Bool" {
				return TV{}, fmt.Errorf("! on non-bool %s", n.X)
			}
			return TV{sNot(a.T), "Bool", nil}, nil
		case "-":
			return TV{"(- " + a.T + ")", a.Sort, a.Ty}, nil
		}
	case *SCond:
		c, err := env.Bool(n.C)
		if err != nil {
			return TV{}, err
		}
		a, err := env.Term(n.A)
		if err != nil {
			return TV{}, err
		}
		b, err := env.Term(n.B)
		if err != nil {
			return TV{}, err
		}
		if a.Sort != b.Sort {
			if bb, err := env.coerce(b, a.Sort); err == nil {
				b = bb
			} else if aa, err := env.coerce(a, b.Sort); err == nil {
				a = aa
			} else {
				return TV{}, fmt.Errorf("branches of ?: differ in sort: %s vs %s", a.Sort, b.Sort)
			}
		}
		return TV{sIte(c, a.T, b.T), a.Sort, a.Ty}, nil
	case *SBinary:
		return env.binary(n)
	case *SSel:
		// qualified package object?
		if id, ok := n.X.(*SIdent); ok {
			if _, isVar := env.bound[id.Name]; !isVar {
				if _, isVar2 := env.lookupOK(id.Name); !isVar2 {
					if tv, ok := env.qualified(id.Name, n.Name); ok {
						return tv, nil
					}
				}
			}
		}
		a, err := env.Term(n.X)
		if err != nil {
			return TV{}, err
		}
		return env.sel(a, n.Name)
	case *SIndex:
		a, err := env.Term(n.X)
		if err != nil {
			return TV{}, err
		}
		i, err := env.Term(n.I)
		if err != nil {
			return TV{}, err
		}
		return env.index(a, i)
	case *SSlice:
		a, err := env.Term(n.X)
		if err != nil {
			return TV{}, err
		}
		a = env.view(a)
		if a.Sort != "Str" {
			return TV{}, fmt.Errorf("slice expression on %s", a.Sort)
		}
		lo, hi := "0", fmt.Sprintf("(s-len %s)", a.T)
		if n.Lo != nil {
			t, err := env.Term(n.Lo)
			if err != nil {
				return TV{}, err
			}
			lo = t.T
		}
		if n.Hi != nil {
			t, err := env.Term(n.Hi)
			if err != nil {
				return TV{}, err
			}
			hi = t.T
		}
		return TV{fmt.Sprintf("(mk-str (s-base %s) (+ (s-off %s) %s) (- %s %s))", a.T, a.T, lo, hi, lo), "Str", a.Ty}, nil
	case *SCall:
		return env.call(n)
	}
	_ = S
	return TV{}, fmt.Errorf("unsupported expression %s", x)
}

func sBigStr(v string) string {
	n, ok := new(big.Int).SetString(v, 10)
	if !ok {
		return v
	}
	return sBig(n)
}

func (env *specEnv) lookupOK(name string) (TV, bool) {
	if env.lookup == nil {
		return TV{}, false
	}
	return env.lookup(name)
}

// pkgObject resolves a package-level constant (or variable) of the current package.
func (env *specEnv) pkgObject(name string) (TV, bool) {
	return env.objectIn(env.pkg, name)
}

func (env *specEnv) objectIn(pkgPath, name string) (TV, bool) {
	P := env.VC().P
	tp := P.TypesPkgs[pkgPath]
	if tp == nil {
		return TV{}, false
	}
	o := tp.Scope().Lookup(name)
	switch ob := o.(type) {
	case *types.Const:
		T := ob.Type()
		switch {
		case isInteger(T) || (T.Underlying().(*types.Basic).Info()&types.IsUntyped != 0 && ob.Val().Kind().String() == "Int"):
			return TV{sBigStr(ob.Val().ExactString()), "Int", T}, true
		case isBool(T):
			return TV{ob.Val().ExactString(), "Bool", T}, true
		case isString(T):
			s := ob.Val().ExactString()
			if len(s) >= 2 {
				var u string
				fmt.Sscanf(s, "%q", &u)
				return TV{StrLitTerm(u), "Str", T}, true
			}
		}
	case *types.Var:
		k := env.S().GlobalKey(pkgPath, name, ob.Type())
		return TV{env.h(k), env.S().SortOf(ob.Type()), ob.Type()}, true
	}
	return TV{}, false
}

func (env *specEnv) qualified(pkgName, name string) (TV, bool) {
	P := env.VC().P
	var best string
	for path, tp := range P.TypesPkgs {
		if tp.Name() == pkgName || strings.HasSuffix(path, "/"+pkgName) {
			if tp.Scope().Lookup(name) != nil {
				if best == "" || (inModule(path) && !inModule(best)) || (inModule(path) == inModule(best) && path < best) {
					best = path
				}
			}
		}
	}
	if best == "" {
		return TV{}, false
	}
	return env.objectIn(best, name)
}

func (env *specEnv) sel(a TV, name string) (TV, error) {
	S := env.S()
	if a.Ty == nil {
		return TV{}, fmt.Errorf("selector .%s on untyped term", name)
	}
	T := a.Ty
	if pt, ok := T.Underlying().(*types.Pointer); ok {
		st, ok := pt.Elem().Underlying().(*types.Struct)
		if !ok {
			return TV{}, fmt.Errorf("selector .%s on pointer to non-struct", name)
		}
		for i := 0; i < st.NumFields(); i++ {
			if st.Field(i).Name() == name {
				k := S.FieldKey(pt.Elem(), i)
				ft := st.Field(i).Type()
				t := fmt.Sprintf("(select %s %s)", env.h(k), a.T)
				env.refAge(t, ft)
				return TV{t, S.SortOf(ft), ft}, nil
			}
		}
		return TV{}, fmt.Errorf("no field %s in %s", name, pt.Elem())
	}
	if st, ok := T.Underlying().(*types.Struct); ok {
		sn := S.SortOf(T)
		for i := 0; i < st.NumFields(); i++ {
			if st.Field(i).Name() == name {
				ft := st.Field(i).Type()
				return TV{fmt.Sprintf("(%s %s)", S.fieldSel(sn, name, i), a.T), S.SortOf(ft), ft}, nil
			}
		}
		return TV{}, fmt.Errorf("no field %s in %s", name, T)
	}
	return TV{}, fmt.Errorf("selector .%s on %s", name, T)
}

func (env *specEnv) index(a, i TV) (TV, error) {
	S := env.S()
	switch {
	case a.Sort == "Str":
		return TV{fmt.Sprintf("(select (s-base %s) (+ (s-off %s) %s))", a.T, a.T, i.T), "Int", byteT()}, nil
	case a.Sort == "Slc":
		var el types.Type = byteT()
		if a.Ty != nil {
			if st, ok := a.Ty.Underlying().(*types.Slice); ok {
				el = st.Elem()
			}
		}
		return TV{fmt.Sprintf("(select (select %s (c-ref %s)) (+ (c-off %s) %s))", env.h(S.ElemKey(el)), a.T, a.T, i.T), S.SortOf(el), el}, nil
	case strings.HasPrefix(a.Sort, "(Array"):
		var el types.Type
		if a.Ty != nil {
			if at, ok := a.Ty.Underlying().(*types.Array); ok {
				el = at.Elem()
			}
		}
		es := "Int"
		if el != nil {
			es = S.SortOf(el)
		}
		return TV{fmt.Sprintf("(select %s %s)", a.T, i.T), es, el}, nil
	}
	if a.Ty != nil {
		if mt, ok := a.Ty.Underlying().(*types.Map); ok {
			k := mapKeyTerm(env.VC(), S, env.view2(i, mt.Key()).T, mt.Key())
			// Go semantics: a missing key (or a nil map) yields the zero value
			has := fmt.Sprintf("(and (not (= %s 0)) (select (select %s %s) %s))", a.T, env.h(S.MapHasKey(mt)), a.T, k)
			val := fmt.Sprintf("(select (select %s %s) %s)", env.h(S.MapValKey(mt)), a.T, k)
			full := sIte(has, val, S.Zero(mt.Elem()))
			// name the lookup once (keeps quantified formulas small) unless it mentions a bound variable
			if !strings.Contains(full, "q!") && !strings.Contains(full, "AXV!") && !strings.Contains(full, "lv!") {
				vc := env.VC()
				if vc.lookupNames == nil {
					vc.lookupNames = map[string]string{}
				}
				n, ok := vc.lookupNames[full]
				if !ok || !vc.declared[n] {
					n = vc.fresh("maplookup", S.SortOf(mt.Elem()))
					vc.lookupNames[full] = n
					vc.def(sEq(n, full))
				}
				return TV{n, S.SortOf(mt.Elem()), mt.Elem()}, nil
			}
			return TV{full, S.SortOf(mt.Elem()), mt.Elem()}, nil
		}
	}
	return TV{}, fmt.Errorf("index on %s", a.Sort)
}

func (env *specEnv) binary(n *SBinary) (TV, error) {
	switch n.Op {
	case "&&", "||", "==>", "<==>":
		a, err := env.Bool(n.X)
		if err != nil {
			return TV{}, err
		}
		b, err := env.Bool(n.Y)
		if err != nil {
			return TV{}, err
		}
		switch n.Op {
		case "&&":
			return TV{sAnd(a, b), "Bool", nil}, nil
		case "||":
			return TV{sOr(a, b), "Bool", nil}, nil
		case "==>":
			return TV{sImp(a, b), "Bool", nil}, nil
		default:
			return TV{sEq(a, b), "Bool", nil}, nil
		}
	}
	a, err := env.Term(n.X)
	if err != nil {
		return TV{}, err
	}
	b, err := env.Term(n.Y)
	if err != nil {
		return TV{}, err
	}
	switch n.Op {
	case "==", "!=":
		eq, err := env.equal(a, b, n)
		if err != nil {
			return TV{}, err
		}
		if n.Op == "!=" {
			eq = sNot(eq)
		}
		return TV{eq, "Bool", nil}, nil
	case "<", "<=", ">", ">=":
		if a.Sort == "Real" || b.Sort == "Real" {
			return TV{fmt.Sprintf("(%s %s %s)", n.Op, a.T, b.T), "Bool", nil}, nil
		}
		if a.Sort != "Int" || b.Sort != "Int" {
			return TV{}, fmt.Errorf("comparison %s on %s/%s", n.Op, a.Sort, b.Sort)
		}
		return TV{fmt.Sprintf("(%s %s %s)", n.Op, a.T, b.T), "Bool", nil}, nil
	case "+", "-", "*":
		if a.Sort != "Int" || b.Sort != "Int" {
			return TV{}, fmt.Errorf("arithmetic %s on %s/%s in %s", n.Op, a.Sort, b.Sort, n)
		}
		return TV{fmt.Sprintf("(%s %s %s)", n.Op, a.T, b.T), "Int", intT()}, nil
	case "/":
		return TV{fmt.Sprintf("(div %s %s)", a.T, b.T), "Int", intT()}, nil
	case "%":
		return TV{fmt.Sprintf("(mod %s %s)", a.T, b.T), "Int", intT()}, nil
	case "&":
		if c, ok := bigOf(b.T); ok && c.Sign() >= 0 {
			return TV{bitAndConst(a.T, c), "Int", intT()}, nil
		}
		if c, ok := bigOf(a.T); ok && c.Sign() >= 0 {
			return TV{bitAndConst(b.T, c), "Int", intT()}, nil
		}
	case "<<":
		if c, ok := bigOf(b.T); ok && c.Sign() >= 0 && c.IsInt64() {
			return TV{fmt.Sprintf("(* %s %s)", a.T, pow2(int(c.Int64())).String()), "Int", intT()}, nil
		}
	case ">>":
		if c, ok := bigOf(b.T); ok && c.Sign() >= 0 && c.IsInt64() {
			return TV{fmt.Sprintf("(div %s %s)", a.T, pow2(int(c.Int64())).String()), "Int", intT()}, nil
		}
	}
	return TV{}, fmt.Errorf("unsupported operator %s in %s", n.Op, n)
}

func (env *specEnv) equal(a, b TV, n *SBinary) (string, error) {
	if a.Sort == "nil" {
		a, b = b, a
	}
	if b.Sort == "nil" {
		switch a.Sort {
		case "Int":
			return fmt.Sprintf("(= %s 0)", a.T), nil
		case "Slc":
			return fmt.Sprintf("(= (c-ref %s) 0)", a.T), nil
		case "Ifc":
			return fmt.Sprintf("(= (i-tag %s) 0)", a.T), nil
		case "nil":
			return "true", nil
		}
		return "", fmt.Errorf("nil comparison with %s", a.Sort)
	}
	if a.Sort == "Str" || b.Sort == "Str" {
		a, b = env.view(a), env.view(b)
		if l, ok := n.Y.(*SStr); ok {
			return StrEqLit(a.T, l.V), nil
		}
		if l, ok := n.X.(*SStr); ok {
			return StrEqLit(b.T, l.V), nil
		}
	}
	if a.Sort != b.Sort {
		return "", fmt.Errorf("equality between %s and %s in %s", a.Sort, b.Sort, n)
	}
	return sEq(a.T, b.T), nil
}

func (env *specEnv) withBound(name string, tv TV, f func() (TV, error)) (TV, error) {
	old, had := env.bound[name]
	env.bound[name] = tv
	r, err := f()
	if had {
		env.bound[name] = old
	} else {
		delete(env.bound, name)
	}
	return r, err
}

func (env *specEnv) call(n *SCall) (TV, error) {
	S := env.S()
	vc := env.VC()
	argN := func(k int) error {
		if len(n.Args) != k {
			return fmt.Errorf("%s expects %d arguments", n.Fn, k)
		}
		return nil
	}
	switch n.Fn {
	case "len":
		if err := argN(1); err != nil {
			return TV{}, err
		}
		a, err := env.Term(n.Args[0])
		if err != nil {
			return TV{}, err
		}
		switch {
		case a.Sort == "Str":
			return TV{fmt.Sprintf("(s-len %s)", a.T), "Int", intT()}, nil
		case a.Sort == "Slc":
			return TV{fmt.Sprintf("(c-len %s)", a.T), "Int", intT()}, nil
		}
		if a.Ty != nil {
			switch u := a.Ty.Underlying().(type) {
			case *types.Array:
				return TV{fmt.Sprint(u.Len()), "Int", intT()}, nil
			case *types.Map:
				vc.declFun("maplen", "((Array Int Bool)) Int")
				return TV{fmt.Sprintf("(ite (= %s 0) 0 (maplen (select %s %s)))", a.T, env.h(S.MapHasKey(u)), a.T), "Int", intT()}, nil
			}
		}
		return TV{}, fmt.Errorf("len of %s", a.Sort)
	case "cap":
		a, err := env.Term(n.Args[0])
		if err != nil {
			return TV{}, err
		}
		return TV{fmt.Sprintf("(c-cap %s)", a.T), "Int", intT()}, nil
	case "byteat":
		// byteat(s, p): the byte at ABSOLUTE position p of the text that string s is a window of
		// (s[k] == byteat(s, off(s) + k)); windows cut from one text share it, whatever their offsets
		if err := argN(2); err != nil {
			return TV{}, err
		}
		a, err := env.Term(n.Args[0])
		if err != nil {
			return TV{}, err
		}
		a = env.view(a)
		if a.Sort != "Str" {
			return TV{}, fmt.Errorf("byteat: not a string")
		}
		pidx, err := env.Term(n.Args[1])
		if err != nil {
			return TV{}, err
		}
		return TV{fmt.Sprintf("(select (s-base %s) %s)", a.T, pidx.T), "Int", intT()}, nil
	case "sametext":
		// sametext(a, b): a and b are windows of the same underlying text
		if err := argN(2); err != nil {
			return TV{}, err
		}
		a, err := env.Term(n.Args[0])
		if err != nil {
			return TV{}, err
		}
		b, err := env.Term(n.Args[1])
		if err != nil {
			return TV{}, err
		}
		a, b = env.view(a), env.view(b)
		if a.Sort != "Str" || b.Sort != "Str" {
			return TV{}, fmt.Errorf("sametext: not strings")
		}
		return TV{fmt.Sprintf("(= (s-base %s) (s-base %s))", a.T, b.T), "Bool", nil}, nil
	case "off":
		a, err := env.Term(n.Args[0])
		if err != nil {
			return TV{}, err
		}
		if a.Sort == "Slc" {
			return TV{fmt.Sprintf("(c-off %s)", a.T), "Int", intT()}, nil
		}
		return TV{fmt.Sprintf("(s-off %s)", a.T), "Int", intT()}, nil
	case "ref":
		a, err := env.Term(n.Args[0])
		if err != nil {
			return TV{}, err
		}
		if a.Sort == "Slc" {
			return TV{fmt.Sprintf("(c-ref %s)", a.T), "Int", nil}, nil
		}
		if a.Sort == "Ifc" {
			return TV{fmt.Sprintf("(i-ref %s)", a.T), "Int", nil}, nil
		}
		return a, nil
	case "view":
		a, err := env.Term(n.Args[0])
		if err != nil {
			return TV{}, err
		}
		return env.view(a), nil
	case "old":
		if err := argN(1); err != nil {
			return TV{}, err
		}
		saved, savedL := env.heapAt, env.lookup
		env.heapAt = env.oldHeap
		if env.lookupOld != nil {
			env.lookup = env.lookupOld
		}
		r, err := env.Term(n.Args[0])
		env.heapAt, env.lookup = saved, savedL
		return r, err
	case "atentry":
		// atentry(e): e in the state in which the loop was entered; only heap-based ghost/field expressions
		// over parameters (local SSA values are those of the current point)
		if err := argN(1); err != nil {
			return TV{}, err
		}
		if env.loopEntryHeap == nil {
			return TV{}, fmt.Errorf("atentry() is only meaningful in a loop invariant or step clause")
		}
		savedH := env.heapAt
		env.heapAt = env.loopEntryHeap
		r, err := env.Term(n.Args[0])
		env.heapAt = savedH
		return r, err
	case "prev":
		if err := argN(1); err != nil {
			return TV{}, err
		}
		if env.prevHeap == nil || env.lookupPrev == nil {
			return TV{}, fmt.Errorf("prev() is only meaningful in a loop step clause")
		}
		saved, savedL := env.heapAt, env.lookup
		env.heapAt, env.lookup = env.prevHeap, env.lookupPrev
		r, err := env.Term(n.Args[0])
		env.heapAt, env.lookup = saved, savedL
		return r, err
	case "forall", "exists":
		// forall(i, lo, hi, P)  or  forall(i, P)
		id, ok := n.Args[0].(*SIdent)
		if !ok {
			return TV{}, fmt.Errorf("%s: first argument must be a variable", n.Fn)
		}
		vc.nfresh++
		bv := fmt.Sprintf("q!%s!%d", id.Name, vc.nfresh)
		var rng string
		if len(n.Args) == 4 {
			lo, err := env.Term(n.Args[1])
			if err != nil {
				return TV{}, err
			}
			hi, err := env.Term(n.Args[2])
			if err != nil {
				return TV{}, err
			}
			rng = fmt.Sprintf("(and (<= %s %s) (< %s %s))", lo.T, bv, bv, hi.T)
		} else if len(n.Args) != 2 {
			return TV{}, fmt.Errorf("%s expects (i, lo, hi, P) or (i, P)", n.Fn)
		}
		body, err := env.withBound(id.Name, TV{bv, "Int", intT()}, func() (TV, error) { return env.Term(n.Args[len(n.Args)-1]) })
		if err != nil {
			return TV{}, err
		}
		if body.Sort != "Bool" {
			return TV{}, fmt.Errorf("%s body is not boolean", n.Fn)
		}
		if n.Fn == "forall" {
			inner := sImp(rng, body.T)
			if pats := selectPatterns(inner, bv); len(pats) > 0 {
				return TV{fmt.Sprintf("(forall ((%s Int)) (! %s :pattern (%s)))", bv, inner, pats[0]), "Bool", nil}, nil
			}
			return TV{fmt.Sprintf("(forall ((%s Int)) %s)", bv, inner), "Bool", nil}, nil
		}
		return TV{fmt.Sprintf("(exists ((%s Int)) %s)", bv, sAnd(rng, body.T)), "Bool", nil}, nil
	case "has":
		m, err := env.Term(n.Args[0])
		if err != nil {
			return TV{}, err
		}
		k, err := env.Term(n.Args[1])
		if err != nil {
			return TV{}, err
		}
		mt, ok := m.Ty.Underlying().(*types.Map)
		if !ok {
			return TV{}, fmt.Errorf("has: not a map")
		}
		kk := mapKeyTerm(vc, S, env.view2(k, mt.Key()).T, mt.Key())
		return TV{fmt.Sprintf("(and (not (= %s 0)) (select (select %s %s) %s))", m.T, env.h(S.MapHasKey(mt)), m.T, kk), "Bool", nil}, nil
	case "forallvals":
		// forallvals(v, m, P): P holds for every value v stored in map m
		id, ok := n.Args[0].(*SIdent)
		if !ok || len(n.Args) != 3 {
			return TV{}, fmt.Errorf("forallvals(v, m, P)")
		}
		m, err := env.Term(n.Args[1])
		if err != nil {
			return TV{}, err
		}
		mt, ok := m.Ty.Underlying().(*types.Map)
		if !ok {
			return TV{}, fmt.Errorf("forallvals: not a map")
		}
		vc.nfresh++
		bv := fmt.Sprintf("q!mk!%d", vc.nfresh)
		val := fmt.Sprintf("(select (select %s %s) %s)", env.h(S.MapValKey(mt)), m.T, bv)
		body, err := env.withBound(id.Name, TV{val, S.SortOf(mt.Elem()), mt.Elem()}, func() (TV, error) { return env.Term(n.Args[2]) })
		if err != nil {
			return TV{}, err
		}
		return TV{fmt.Sprintf("(=> (not (= %s 0)) (forall ((%s Int)) (! (=> (select (select %s %s) %s) %s) :pattern (%s))))", m.T, bv, env.h(S.MapHasKey(mt)), m.T, bv, body.T, val), "Bool", nil}, nil
	case "nonnilvals":
		// every value stored in map m is a non-nil reference
		m, err := env.Term(n.Args[0])
		if err != nil {
			return TV{}, err
		}
		mt, ok := m.Ty.Underlying().(*types.Map)
		if !ok {
			return TV{}, fmt.Errorf("nonnilvals: not a map")
		}
		vc.nfresh++
		bv := fmt.Sprintf("q!mk!%d", vc.nfresh)
		val := fmt.Sprintf("(select (select %s %s) %s)", env.h(S.MapValKey(mt)), m.T, bv)
		return TV{fmt.Sprintf("(=> (not (= %s 0)) (forall ((%s Int)) (! (=> (select (select %s %s) %s) (not (= %s 0))) :pattern (%s))))", m.T, bv, env.h(S.MapHasKey(mt)), m.T, bv, val, val), "Bool", nil}, nil
	case "isnil", "nonnil":
		a, err := env.Term(n.Args[0])
		if err != nil {
			return TV{}, err
		}
		eq, err := env.equal(a, TV{"nil", "nil", nil}, &SBinary{"==", n.Args[0], &SIdent{"nil"}})
		if err != nil {
			return TV{}, err
		}
		if n.Fn == "nonnil" {
			eq = sNot(eq)
		}
		return TV{eq, "Bool", nil}, nil
	case "typeis":
		a, err := env.Term(n.Args[0])
		if err != nil {
			return TV{}, err
		}
		ts, ok := n.Args[1].(*SStr)
		if !ok {
			return TV{}, fmt.Errorf("typeis: second argument must be a quoted type")
		}
		T, err := vc.P.LookupType(env.pkg, ts.V)
		if err != nil {
			return TV{}, err
		}
		return TV{fmt.Sprintf("(= (i-tag %s) %d)", a.T, S.Tag(T)), "Bool", nil}, nil
	case "iterpos":
		// number of completed steps of the range iteration of the loop this invariant belongs to
		if env.iterKey == "" {
			return TV{}, fmt.Errorf("iterpos() is only meaningful in the invariant of a range-over-map/string loop")
		}
		return TV{env.h(HeapKey{Name: env.iterKey, Sort: "Int"}), "Int", intT()}, nil
	case "hits":
		// hits("callee#k"): how many times that call site has executed so far in this invocation (ghost counter)
		ts, ok := n.Args[0].(*SStr)
		if !ok {
			return TV{}, fmt.Errorf("hits: argument must be a quoted call site \"callee#k\"")
		}
		return TV{env.h(hitsKey(ts.V)), "Int", intT()}, nil
	case "containsByte":
		// containsByte(s, "c"): the string s contains the byte c (what strings.Contains(s, "c") decides)
		a, err := env.Term(n.Args[0])
		if err != nil {
			return TV{}, err
		}
		lit, ok := n.Args[1].(*SStr)
		if !ok || len(lit.V) != 1 {
			return TV{}, fmt.Errorf("containsByte: second argument must be a one-byte string literal")
		}
		return TV{containsByteFormula(env.view(a).T, int(lit.V[0]), vc), "Bool", nil}, nil
	case "snapshot":
		// snapshot("callee#k", e): the value e had right after that call site last executed in this invocation
		site, ok := n.Args[0].(*SStr)
		if !ok || len(n.Args) != 2 {
			return TV{}, fmt.Errorf("snapshot: want (\"callee#k\", expression)")
		}
		cur, err := env.Term(n.Args[1]) // for the sort and type only
		if err != nil {
			return TV{}, err
		}
		return TV{env.h(snapKey(site.V, n.Args[1].String(), cur.Sort)), cur.Sort, cur.Ty}, nil
	case "lastresult":
		// lastresult("callee#k"): the value that call site returned the last time it executed in this invocation
		ts, ok := n.Args[0].(*SStr)
		if !ok || env.e == nil {
			return TV{}, fmt.Errorf("lastresult: argument must be a quoted call site \"callee#k\"")
		}
		T := env.e.resultTypeOfSite(ts.V)
		if T == nil {
			return TV{}, fmt.Errorf("lastresult: no call site %q with a result in this function", ts.V)
		}
		sort := env.S().SortOf(T)
		return TV{env.h(resKey(ts.V, sort)), sort, T}, nil
	case "concat", "hasSuffix", "hasPrefix", "strIndex", "strLastIndex", "splitLast":
		a, err := env.Term(n.Args[0])
		if err != nil {
			return TV{}, err
		}
		b, err := env.Term(n.Args[1])
		if err != nil {
			return TV{}, err
		}
		a, b = env.view(a), env.view(b)
		switch n.Fn {
		case "strIndex":
			return TV{fmt.Sprintf("(strindex %s %s)", a.T, b.T), "Int", intT()}, nil
		case "strLastIndex":
			return TV{fmt.Sprintf("(strlastindex %s %s)", a.T, b.T), "Int", intT()}, nil
		case "splitLast":
			return TV{fmt.Sprintf("(splitlast %s %s)", a.T, b.T), "Str", types.Typ[types.String]}, nil
		case "concat":
			return TV{fmt.Sprintf("(strcat %s %s)", a.T, b.T), "Str", types.Typ[types.String]}, nil
		case "hasSuffix":
			return TV{fmt.Sprintf("(strsuffix %s %s)", a.T, b.T), "Bool", nil}, nil
		}
		return TV{fmt.Sprintf("(strprefix %s %s)", a.T, b.T), "Bool", nil}, nil
	case "regexp_compiles":
		a, err := env.Term(n.Args[0])
		if err != nil {
			return TV{}, err
		}
		vc.declFun("regexp_compiles", "(Str) Bool")
		return TV{fmt.Sprintf("(regexp_compiles %s)", env.view(a).T), "Bool", nil}, nil
	case "streq", "strord":
		a, err := env.Term(n.Args[0])
		if err != nil {
			return TV{}, err
		}
		a = env.view(a)
		if n.Fn == "strord" {
			return TV{fmt.Sprintf("(strord %s)", a.T), "Int", intT()}, nil
		}
		// comparison with a literal is by content, exactly as the engine encodes Go's s == "lit"
		if lit, ok := n.Args[1].(*SStr); ok && len(lit.V) <= 64 && a.Sort == "Str" {
			return TV{StrEqLit(a.T, lit.V), "Bool", nil}, nil
		}
		b, err := env.Term(n.Args[1])
		if err != nil {
			return TV{}, err
		}
		b = env.view(b)
		if lit, ok := n.Args[0].(*SStr); ok && len(lit.V) <= 64 && b.Sort == "Str" {
			return TV{StrEqLit(b.T, lit.V), "Bool", nil}, nil
		}
		if a.Sort != "Str" || b.Sort != "Str" {
			return TV{}, fmt.Errorf("streq: arguments must be strings (got %s and %s)", a.Sort, b.Sort)
		}
		return TV{fmt.Sprintf("(streq %s %s)", a.T, b.T), "Bool", nil}, nil
	case "deref":
		a, err := env.Term(n.Args[0])
		if err != nil {
			return TV{}, err
		}
		if a.Ty == nil {
			return TV{}, fmt.Errorf("deref of untyped term")
		}
		pt, ok := a.Ty.Underlying().(*types.Pointer)
		if !ok {
			return TV{}, fmt.Errorf("deref of non-pointer")
		}
		if _, isStruct := pt.Elem().Underlying().(*types.Struct); isStruct {
			return TV{}, fmt.Errorf("deref of struct pointer: use field selectors")
		}
		return TV{fmt.Sprintf("(select %s %s)", env.h(S.DerefKey(pt.Elem())), a.T), S.SortOf(pt.Elem()), pt.Elem()}, nil
	case "as":
		// as(x, "T"): the value held by interface x viewed as concrete type T (meaningful when typeis(x, "T"))
		a, err := env.Term(n.Args[0])
		if err != nil {
			return TV{}, err
		}
		ts, ok := n.Args[1].(*SStr)
		if !ok {
			return TV{}, fmt.Errorf("as: second argument must be a quoted type")
		}
		T, err := vc.P.LookupType(env.pkg, ts.V)
		if err != nil {
			return TV{}, err
		}
		if a.Sort != "Ifc" {
			return TV{}, fmt.Errorf("as: not an interface value")
		}
		sn := S.SortOf(T)
		if sn == "Int" {
			return TV{fmt.Sprintf("(i-ref %s)", a.T), "Int", T}, nil
		}
		un := "unbox!" + mangle(sn)
		vc.declFun("box!"+mangle(sn), "("+sn+") Int")
		vc.declFun(un, "(Int) "+sn)
		return TV{fmt.Sprintf("(%s (i-ref %s))", un, a.T), sn, T}, nil
	case "ite":
		return env.Term(&SCond{n.Args[0], n.Args[1], n.Args[2]})
	case "held":
		a, err := env.Term(n.Args[0])
		if err != nil {
			return TV{}, err
		}
		return TV{fmt.Sprintf("(select %s %s)", env.h(lockKey), a.T), "Bool", nil}, nil
	case "min", "max":
		a, err := env.Term(n.Args[0])
		if err != nil {
			return TV{}, err
		}
		b, err := env.Term(n.Args[1])
		if err != nil {
			return TV{}, err
		}
		op := "<="
		if n.Fn == "max" {
			op = ">="
		}
		return TV{fmt.Sprintf("(ite (%s %s %s) %s %s)", op, a.T, b.T, a.T, b.T), "Int", intT()}, nil
	case "addr":
		// addr(p, "Type.field"): the opaque reference the engine uses for &p.field
		a, err := env.Term(n.Args[0])
		if err != nil {
			return TV{}, err
		}
		ts, ok := n.Args[1].(*SStr)
		if !ok {
			return TV{}, fmt.Errorf("addr: second argument must be \"Type.field\"")
		}
		ks := vc.P.assignKeys(env.pkg, ts.V)
		if len(ks) != 1 {
			return TV{}, fmt.Errorf("addr: cannot resolve %s", ts.V)
		}
		fname := "addr!" + ks[0]
		vc.declFun(fname, "(Int) Int")
		return TV{fmt.Sprintf("(%s %s)", fname, a.T), "Int", nil}, nil
	}
	sf := vc.P.Contracts.Specs[n.Fn]
	if sf == nil {
		// a Go function declared "functional" may be used in contracts: same uninterpreted function as at its call sites
		if gf := vc.P.functionalByName(env.pkg, n.Fn); gf != nil && len(n.Args) == len(gf.Params) && gf.Signature.Results().Len() == 1 {
			var args []string
			for k, a := range n.Args {
				tv, err := env.Term(a)
				if err != nil {
					return TV{}, err
				}
				tv, err = env.coerce(tv, S.SortOf(gf.Params[k].Type()))
				if err != nil {
					return TV{}, fmt.Errorf("argument %d of %s: %v", k, n.Fn, err)
				}
				args = append(args, tv.T)
			}
			rt := gf.Signature.Results().At(0).Type()
			return TV{vc.functionalApp(gf, args), S.SortOf(rt), rt}, nil
		}
		return TV{}, fmt.Errorf("unknown function %s", n.Fn)
	}
	if len(n.Args) != len(sf.Params) {
		return TV{}, fmt.Errorf("%s expects %d arguments", n.Fn, len(sf.Params))
	}
	var args []TV
	for k, a := range n.Args {
		tv, err := env.Term(a)
		if err != nil {
			return TV{}, err
		}
		ps, pT, err := env.inPkg(sf.Pkg).specSort(sf.Params[k].Type)
		if err != nil {
			return TV{}, err
		}
		tv, err = env.coerce(tv, ps)
		if err != nil {
			return TV{}, fmt.Errorf("argument %d of %s: %v", k, n.Fn, err)
		}
		if tv.Ty == nil {
			tv.Ty = pT
		}
		args = append(args, tv)
	}
	rs, rT, err := env.inPkg(sf.Pkg).specSort(sf.Result)
	if err != nil {
		return TV{}, err
	}
	if sf.Body == nil {
		var sorts, ts []string
		for k, a := range args {
			ps, _, _ := env.inPkg(sf.Pkg).specSort(sf.Params[k].Type)
			sorts = append(sorts, ps)
			ts = append(ts, a.T)
		}
		vc.declFun(sf.Name, "("+strings.Join(sorts, " ")+") "+rs)
		return TV{sApp(sf.Name, ts...), rs, rT}, nil
	}
	// inline: evaluate the body with parameters bound; the body sees no program variables
	if env.depth > 40 {
		return TV{}, fmt.Errorf("spec function nesting too deep at %s", n.Fn)
	}
	sub := &specEnv{e: env.e, vc: env.vc, pkg: sf.Pkg, heapAt: env.heapAt, oldHeap: env.oldHeap, bound: map[string]TV{}, depth: env.depth + 1}
	for k, p := range sf.Params {
		sub.bound[p.Name] = args[k]
	}
	// quantifier-bound variables of the caller stay visible by value (already substituted in args)
	r, err := sub.Term(sf.Body)
	if err != nil {
		return TV{}, fmt.Errorf("in %s: %v", n.Fn, err)
	}
	if r.Sort != rs {
		return TV{}, fmt.Errorf("spec %s: body has sort %s, declared %s", n.Fn, r.Sort, rs)
	}
	if r.Ty == nil {
		r.Ty = rT
	}
	return r, nil
}

func (env *specEnv) view2(tv TV, T types.Type) TV {
	if isString(T) {
		return env.view(tv)
	}
	return tv
}

// selectPatterns returns the innermost "(select A I)" subterms of t whose index I mentions bv and whose array A does not
// (usable as E-matching triggers).
func selectPatterns(t, bv string) []string {
	var out []string
	seen := map[string]bool{}
	var walk func(x string)
	walk = func(x string) {
		if len(x) == 0 || x[0] != '(' {
			return
		}
		parts := sexprParts(x)
		if len(parts) == 3 && parts[0] == "select" && strings.Contains(parts[2], bv) && !strings.Contains(parts[1], bv) {
			if !seen[x] {
				seen[x] = true
				out = append(out, x)
			}
		}
		for _, p := range parts[1:] {
			walk(p)
		}
	}
	walk(t)
	return out
}

// inPkg returns a shallow copy of env resolving type names in package pkg.
func (env *specEnv) inPkg(pkg string) *specEnv {
	if pkg == "" || pkg == env.pkg {
		return env
	}
	c := *env
	c.pkg = pkg
	return &c
}

func hitsKey(site string) HeapKey {
	return HeapKey{Name: "HITS!" + mangle(site), Sort: "Int"}
}

// refAge: a reference read from the heap in a contract was allocated before the state it is read in
// (the same fact the encoder assumes for every load in the code).
func (env *specEnv) refAge(t string, T types.Type) {
	if strings.Contains(t, "q!") || strings.Contains(t, "AXV!") || strings.Contains(t, "lv!") || env.heapAt == nil {
		return
	}
	clock, ok := env.heapAt[clockKey.Name]
	if !ok {
		return
	}
	switch T.Underlying().(type) {
	case *types.Pointer, *types.Map, *types.Chan:
		env.VC().assume(fmt.Sprintf("(<= %s %s)", t, clock))
	case *types.Slice:
		env.VC().assume(fmt.Sprintf("(<= (c-ref %s) %s)", t, clock))
	}
}
