package engine

import (
	"fmt"
	"go/constant"
	"go/token"
	"go/types"
	"math/big"
	"strings"

	"golang.org/x/tools/go/ssa"
)

func (e *fnEnc) guard() string { return e.reach[e.curBlk] }

// safety emits an implicit (run-time panic) obligation of the given kind.
func (e *fnEnc) safety(kind, anchor, cond string, pos token.Pos, src string) {
	if cond == "true" {
		return
	}
	if e.inlineAssume {
		// the callee's own check discharges this under its precondition
		e.vc.assume(sImp(e.guard(), cond))
		return
	}
	if !e.vc.Opt.SafetyKinds[kind] {
		// not claimed: assume, so later obligations see the usual "execution got past here" facts
		e.vc.assume(sImp(e.guard(), cond))
		return
	}
	name := e.vc.ordinal(fmt.Sprintf("%s#%s:%s", FuncKey(e.fn), kind, anchor))
	e.vc.oblige(&Obligation{Name: name, Kind: kind, Guard: e.guard(), Cond: cond, Props: e.vc.Opt.SafetyProps, Pos: pos, Src: src})
}

func (e *fnEnc) setVal(v ssa.Value, t string) {
	n := e.vc.decl(e.name(v), e.S().SortOf(v.Type()))
	e.vc.def(sEq(n, t))
	e.val[v] = n
	if e.defs == nil {
		e.defs = map[string]string{}
	}
	if len(t) < 4000 {
		e.defs[n] = t
	}
}

func (e *fnEnc) opaque(v ssa.Value) string {
	n := e.vc.decl(e.name(v), e.S().SortOf(v.Type()))
	e.val[v] = n
	e.vc.assume(e.typeFacts(n, v.Type(), 1))
	return n
}

func (e *fnEnc) instr(in ssa.Instruction) {
	if in.Parent() == e.fn {
		// (instructions of inlined callees keep the call instruction of the function under proof)
		saved := e.curInstr
		e.curInstr = in
		defer func() { e.curInstr = saved }()
	}
	switch i := in.(type) {
	case *ssa.DebugRef:
	case *ssa.Alloc:
		e.alloc(i)
	case *ssa.BinOp:
		e.setVal(i, e.binop(i.Op, i.X, i.Y, i.Type(), i.Pos()))
	case *ssa.UnOp:
		e.unop(i)
	case *ssa.Call:
		e.call(i, i.Common(), i)
	case *ssa.Go:
		e.vc.note("go statement: callee runs concurrently, not modelled")
	case *ssa.Defer:
		e.deferred = append(e.deferred, i)
	case *ssa.RunDefers:
		e.runDefers()
	case *ssa.ChangeInterface:
		e.setVal(i, e.term(i.X))
	case *ssa.ChangeType:
		e.setVal(i, e.term(i.X))
	case *ssa.Convert:
		e.convert(i)
	case *ssa.MultiConvert:
		e.opaque(i)
	case *ssa.SliceToArrayPointer:
		e.opaque(i)
	case *ssa.Extract:
		if ts, ok := e.tuples[i.Tuple]; ok && i.Index < len(ts) {
			e.setVal(i, ts[i.Index])
		} else {
			e.opaque(i)
		}
	case *ssa.Field:
		st := i.X.Type().Underlying().(*types.Struct)
		sn := e.S().SortOf(i.X.Type())
		e.setVal(i, fmt.Sprintf("(%s %s)", e.S().fieldSel(sn, st.Field(i.Field).Name(), i.Field), e.term(i.X)))
	case *ssa.FieldAddr:
		e.fieldAddr(i)
	case *ssa.Index:
		e.index(i)
	case *ssa.IndexAddr:
		e.indexAddr(i)
	case *ssa.Lookup:
		e.lookup(i)
	case *ssa.MakeChan:
		e.freshRef(i)
	case *ssa.MakeClosure:
		e.freshRef(i)
		e.closures[i] = i.Fn.(*ssa.Function)
	case *ssa.MakeInterface:
		e.makeInterface(i)
	case *ssa.MakeMap:
		n := e.freshRef(i)
		mt := i.Type().Underlying().(*types.Map)
		hk := e.S().MapHasKey(mt)
		e.setHeap(hk, fmt.Sprintf("(store %s %s ((as const (Array Int Bool)) false))", e.heap(hk), n))
		e.vc.declFun("maplen", "((Array Int Bool)) Int")
		e.vc.def("(= (maplen ((as const (Array Int Bool)) false)) 0)")
		e.localMaps = append(e.localMaps, i)
	case *ssa.MakeSlice:
		e.makeSlice(i)
	case *ssa.Range:
		e.rangeInit(i)
	case *ssa.Next:
		e.next(i)
	case *ssa.Phi:
	case *ssa.Select:
		e.opaque(i)
		e.vc.note("select statement not modelled")
	case *ssa.Slice:
		e.slice(i)
	case *ssa.TypeAssert:
		e.typeAssert(i)
	case *ssa.If, *ssa.Jump:
	case *ssa.MapUpdate:
		e.mapUpdate(i)
	case *ssa.Panic:
		e.panicInstr(i)
	case *ssa.Return:
		e.ret(i)
	case *ssa.Send:
		e.vc.note("channel send not modelled")
	case *ssa.Store:
		e.storeInstr(i)
	default:
		e.fail("unsupported instruction %T", in)
	}
}

var clockKey = HeapKey{Name: "CLOCK", Sort: "Int"}

// freshRefRaw allocates a reference strictly newer than every value that exists so far (allocation clock).
func (e *fnEnc) freshRefRaw(hint string) string {
	n := e.vc.fresh(hint, "Int")
	e.vc.assume(fmt.Sprintf("(> %s %s)", n, e.heap(clockKey)))
	e.cur[clockKey.Name] = n
	return n
}

func (e *fnEnc) freshRef(v ssa.Value) string {
	n := e.vc.decl(e.name(v), "Int")
	e.val[v] = n
	e.vc.assume(fmt.Sprintf("(> %s %s)", n, e.heap(clockKey)))
	e.cur[clockKey.Name] = n
	return n
}

// bumpClock: unknown code may have allocated.
func (e *fnEnc) bumpClock() {
	old := e.heap(clockKey)
	n := e.vc.fresh("clock", "Int")
	e.vc.assume(fmt.Sprintf("(>= %s %s)", n, old))
	e.cur[clockKey.Name] = n
}

func (e *fnEnc) alloc(i *ssa.Alloc) {
	n := e.freshRef(i)
	if !i.Heap || onlyDeferredClosures(i) {
		// no callee can reach this cell: it is local, or shared only with closures that run at function exit
		e.localAllocs = append(e.localAllocs, n)
	}
	T := i.Type().Underlying().(*types.Pointer).Elem()
	e.storePtr(n, T, e.S().Zero(T))
	e.initBufIfBuffer(n, T)
}

// ---------- arithmetic ----------

func pow2Const(s string) (int, bool) {
	n, ok := new(big.Int).SetString(s, 10)
	if !ok || n.Sign() <= 0 {
		return 0, false
	}
	if new(big.Int).And(n, new(big.Int).Sub(n, big.NewInt(1))).Sign() != 0 {
		return 0, false
	}
	return n.BitLen() - 1, true
}

// bitAnd encodes x & c for a non-negative constant c by modular arithmetic.
func bitAndConst(x string, c *big.Int) string {
	if c.Sign() == 0 {
		return "0"
	}
	var parts []string
	n := c.BitLen()
	i := 0
	for i < n {
		if c.Bit(i) == 0 {
			i++
			continue
		}
		j := i
		for j < n && c.Bit(j) == 1 {
			j++
		}
		// bits [i, j)
		if i == 0 {
			parts = append(parts, fmt.Sprintf("(mod %s %s)", x, pow2(j).String()))
		} else {
			parts = append(parts, fmt.Sprintf("(- (mod %s %s) (mod %s %s))", x, pow2(j).String(), x, pow2(i).String()))
		}
		i = j
	}
	if len(parts) == 1 {
		return parts[0]
	}
	return "(+ " + strings.Join(parts, " ") + ")"
}

func bigOf(s string) (*big.Int, bool) {
	if strings.HasPrefix(s, "(- ") && strings.HasSuffix(s, ")") {
		n, ok := new(big.Int).SetString(s[3:len(s)-1], 10)
		if ok {
			return n.Neg(n), true
		}
		return nil, false
	}
	return new(big.Int).SetString(s, 10)
}

// iteLeaves maps f over the constant leaves of an ite-tree; ok is false when t is not such a tree.
func mapIteConst(t string, f func(c *big.Int) string) (string, bool) {
	if c, ok := bigOf(t); ok {
		return f(c), true
	}
	if strings.HasPrefix(t, "(ite ") {
		parts := sexprParts(t)
		if len(parts) == 4 {
			a, ok1 := mapIteConst(parts[2], f)
			b, ok2 := mapIteConst(parts[3], f)
			if ok1 && ok2 {
				return fmt.Sprintf("(ite %s %s %s)", parts[1], a, b), true
			}
		}
	}
	return "", false
}

func (e *fnEnc) bitop(op token.Token, x, y string, T types.Type) string {
	if d, ok := e.defs[y]; ok && strings.HasPrefix(d, "(ite ") {
		if _, ok := mapIteConst(d, func(c *big.Int) string { return "0" }); ok {
			y = d
		}
	}
	if d, ok := e.defs[x]; ok && strings.HasPrefix(d, "(ite ") {
		if _, ok := mapIteConst(d, func(c *big.Int) string { return "0" }); ok {
			x = d
		}
	}
	and := func(x, y string) (string, bool) {
		if r, ok := mapIteConst(y, func(c *big.Int) string {
			if c.Sign() < 0 {
				return ""
			}
			return bitAndConst(x, c)
		}); ok && !strings.Contains(r, "  ") && r != "" {
			return r, true
		}
		if r, ok := mapIteConst(x, func(c *big.Int) string {
			if c.Sign() < 0 {
				return ""
			}
			return bitAndConst(y, c)
		}); ok && r != "" {
			return r, true
		}
		return "", false
	}
	switch op {
	case token.AND:
		if r, ok := and(x, y); ok {
			return r
		}
	case token.OR:
		if r, ok := and(x, y); ok {
			return fmt.Sprintf("(- (+ %s %s) %s)", x, y, r)
		}
	case token.XOR:
		if r, ok := and(x, y); ok {
			return fmt.Sprintf("(- (+ %s %s) (* 2 %s))", x, y, r)
		}
	case token.AND_NOT:
		if r, ok := and(x, y); ok {
			return fmt.Sprintf("(- %s %s)", x, r)
		}
	}
	fn := map[token.Token]string{token.AND: "band", token.OR: "bor", token.XOR: "bxor", token.AND_NOT: "bandnot"}[op]
	e.vc.declFun(fn, "(Int Int) Int")
	t := fmt.Sprintf("(%s %s %s)", fn, x, y)
	e.vc.note("bit operation %s on two non-constant operands: uninterpreted", op)
	if op == token.AND {
		e.vc.def(fmt.Sprintf("(=> (and (>= %s 0) (>= %s 0)) (and (>= %s 0) (<= %s %s) (<= %s %s)))", x, y, t, t, x, t, y))
	}
	return t
}

func (e *fnEnc) shift(op token.Token, x, y string, T types.Type, yT types.Type, pos token.Pos) string {
	bits, _ := intBits(T)
	if bits == 0 {
		bits = 64
	}
	if _, uns := intBits(yT); !uns {
		if _, isConst := bigOf(y); !isConst {
			e.safety("shift", "negative-count", fmt.Sprintf("(>= %s 0)", y), pos, "shift count must be non-negative")
		}
	}
	one := func(k int) string {
		if c, ok := bigOf(x); ok {
			// constant operand: fold
			var r *big.Int
			if op == token.SHL {
				r = new(big.Int).Lsh(c, uint(k))
				if b, uns := intBits(T); b > 0 && uns {
					r.Mod(r, pow2(b))
				} else if b > 0 && b < 64 {
					r.Add(r, pow2(b-1)).Mod(r, pow2(b)).Sub(r, pow2(b-1))
				}
			} else {
				r = new(big.Int).Rsh(c, uint(k))
			}
			return sBig(r)
		}
		if op == token.SHL {
			return wrapInt(fmt.Sprintf("(* %s %s)", x, pow2(k).String()), T)
		}
		return fmt.Sprintf("(div %s %s)", x, pow2(k).String())
	}
	if c, ok := bigOf(y); ok {
		if c.Sign() < 0 || c.Cmp(big.NewInt(int64(bits))) >= 0 {
			if op == token.SHR {
				if _, uns := intBits(T); !uns {
					return fmt.Sprintf("(ite (< %s 0) (- 1) 0)", x)
				}
			}
			return "0"
		}
		return one(int(c.Int64()))
	}
	res := "0"
	if op == token.SHR {
		if _, uns := intBits(T); !uns {
			res = fmt.Sprintf("(ite (< %s 0) (- 1) 0)", x)
		}
	}
	for k := bits - 1; k >= 0; k-- {
		res = fmt.Sprintf("(ite (= %s %d) %s %s)", y, k, one(k), res)
	}
	return res
}

func (e *fnEnc) binop(op token.Token, X, Y ssa.Value, resT types.Type, pos token.Pos) string {
	x, y := e.term(X), e.term(Y)
	T := X.Type()
	switch op {
	case token.EQL, token.NEQ:
		eq := e.equal(x, y, T, Y.Type(), X, Y)
		if op == token.NEQ {
			return sNot(eq)
		}
		return eq
	}
	switch {
	case isInteger(T):
		switch op {
		case token.ADD:
			return wrapInt(fmt.Sprintf("(+ %s %s)", x, y), resT)
		case token.SUB:
			r := fmt.Sprintf("(- %s %s)", x, y)
			if b, uns := intBits(resT); b == 64 && uns {
				return fmt.Sprintf("(mod %s %s)", r, pow2(64).String())
			}
			return wrapInt(r, resT)
		case token.MUL:
			return wrapInt(fmt.Sprintf("(* %s %s)", x, y), resT)
		case token.QUO:
			e.safety("div", "quo", fmt.Sprintf("(not (= %s 0))", y), pos, "division by zero")
			if _, uns := intBits(T); uns {
				return fmt.Sprintf("(div %s %s)", x, y)
			}
			// Go truncates toward zero
			return fmt.Sprintf("(ite (>= %s 0) (div %s %s) (- (div (- %s) %s)))", x, x, y, x, y)
		case token.REM:
			e.safety("div", "rem", fmt.Sprintf("(not (= %s 0))", y), pos, "division by zero")
			if _, uns := intBits(T); uns {
				return fmt.Sprintf("(mod %s %s)", x, y)
			}
			return fmt.Sprintf("(ite (>= %s 0) (mod %s %s) (- (mod (- %s) %s)))", x, x, y, x, y)
		case token.AND, token.OR, token.XOR, token.AND_NOT:
			return e.bitop(op, x, y, T)
		case token.SHL, token.SHR:
			return e.shift(op, x, y, T, Y.Type(), pos)
		case token.LSS:
			return fmt.Sprintf("(< %s %s)", x, y)
		case token.LEQ:
			return fmt.Sprintf("(<= %s %s)", x, y)
		case token.GTR:
			return fmt.Sprintf("(> %s %s)", x, y)
		case token.GEQ:
			return fmt.Sprintf("(>= %s %s)", x, y)
		}
	case isFloat(T):
		switch op {
		case token.ADD:
			return fmt.Sprintf("(+ %s %s)", x, y)
		case token.SUB:
			return fmt.Sprintf("(- %s %s)", x, y)
		case token.MUL:
			return fmt.Sprintf("(* %s %s)", x, y)
		case token.QUO:
			return fmt.Sprintf("(/ %s %s)", x, y)
		case token.LSS:
			return fmt.Sprintf("(< %s %s)", x, y)
		case token.LEQ:
			return fmt.Sprintf("(<= %s %s)", x, y)
		case token.GTR:
			return fmt.Sprintf("(> %s %s)", x, y)
		case token.GEQ:
			return fmt.Sprintf("(>= %s %s)", x, y)
		}
	case isString(T):
		switch op {
		case token.ADD:
			// concatenation is a function of its operands (so contracts can name the same string)
			n := fmt.Sprintf("(strcat %s %s)", x, y)
			e.vc.def(fmt.Sprintf("(and (= (s-off %s) 0) (= (s-len %s) (+ (s-len %s) (s-len %s))))", n, n, x, y))
			// content, as ground facts (no quantifier): the bytes of a short literal operand stand where concatenation
			// puts them, and the last bytes of the left operand are carried over in front of a literal right operand
			{
				if l, ok := litOf(Y); ok && len(l) >= 1 && len(l) <= 8 {
					for i := 0; i < len(l); i++ {
						e.vc.def(fmt.Sprintf("(= (select (s-base %s) (+ (s-len %s) %d)) %d)", n, x, i, l[i]))
					}
					for j := 1; j <= 6; j++ {
						e.vc.def(fmt.Sprintf("(=> (>= (s-len %s) %d) (= (select (s-base %s) (- (s-len %s) %d)) (select (s-base %s) (+ (s-off %s) (- (s-len %s) %d)))))", x, j, n, x, j, x, x, x, j))
					}
				}
				if l, ok := litOf(X); ok && len(l) >= 1 && len(l) <= 8 {
					for i := 0; i < len(l); i++ {
						e.vc.def(fmt.Sprintf("(= (select (s-base %s) %d) %d)", n, i, l[i]))
					}
				}
			}
			return n
		case token.LSS, token.LEQ, token.GTR, token.GEQ:
			// strord is an order embedding of the (finitely many) strings of a query into Int
			return fmt.Sprintf("(%s (strord %s) (strord %s))", map[token.Token]string{token.LSS: "<", token.LEQ: "<=", token.GTR: ">", token.GEQ: ">="}[op], x, y)
		}
	case isBool(T):
		switch op {
		case token.AND:
			return sAnd(x, y)
		case token.OR:
			return sOr(x, y)
		}
	}
	e.vc.note("binary operation %s on %s: uninterpreted", op, T)
	return e.vc.fresh("binop", e.S().SortOf(resT))
}

// litOf returns the literal string of a constant string operand.
func litOf(v ssa.Value) (string, bool) {
	if c, ok := v.(*ssa.Const); ok && c.Value != nil && c.Value.Kind() == constant.String {
		return constant.StringVal(c.Value), true
	}
	return "", false
}

// StrEqLit expands s == "lit".
func StrEqLit(s, lit string) string {
	parts := []string{fmt.Sprintf("(= (s-len %s) %d)", s, len(lit))}
	if len(lit) <= 64 {
		for i := 0; i < len(lit); i++ {
			parts = append(parts, fmt.Sprintf("(= (select (s-base %s) (+ (s-off %s) %d)) %d)", s, s, i, lit[i]))
		}
	}
	return sAnd(parts...)
}

func (e *fnEnc) equal(x, y string, T, YT types.Type, X, Y ssa.Value) string {
	switch u := T.Underlying().(type) {
	case *types.Basic:
		if u.Info()&types.IsString != 0 {
			if X != nil {
				if l, ok := litOf(Y); ok && len(l) <= 64 {
					return StrEqLit(x, l)
				}
				if l, ok := litOf(X); ok && len(l) <= 64 {
					return StrEqLit(y, l)
				}
			}
			if x == y {
				return "true"
			}
			t := fmt.Sprintf("(streq %s %s)", x, y)
			e.vc.def(fmt.Sprintf("(=> %s (= (s-len %s) (s-len %s)))", t, x, y))
			e.vc.def(fmt.Sprintf("(=> (and (= (s-len %s) 0) (= (s-len %s) 0)) %s)", x, y, t))
			return t
		}
	case *types.Slice:
		// only comparable with nil
		if isNilConst(Y) {
			return fmt.Sprintf("(= (c-ref %s) 0)", x)
		}
		if isNilConst(X) {
			return fmt.Sprintf("(= (c-ref %s) 0)", y)
		}
	case *types.Interface:
		if isNilConst(Y) {
			return fmt.Sprintf("(= (i-tag %s) 0)", x)
		}
		if isNilConst(X) {
			return fmt.Sprintf("(= (i-tag %s) 0)", y)
		}
	}
	return sEq(x, y)
}

func isNilConst(v ssa.Value) bool {
	c, ok := v.(*ssa.Const)
	return ok && c.Value == nil
}

func (e *fnEnc) unop(i *ssa.UnOp) {
	switch i.Op {
	case token.MUL: // load
		T := i.Type()
		var t string
		if lv, ok := e.lvOf(i.X); ok {
			t = e.load(lv)
		} else {
			r := e.term(i.X)
			if _, isAlloc := i.X.(*ssa.Alloc); !isAlloc {
				e.safety("nil", "load", fmt.Sprintf("(not (= %s 0))", r), i.Pos(), "nil pointer dereference")
			}
			t = e.loadPtr(r, T)
		}
		e.setVal(i, t)
		e.vc.assume(e.typeFacts(e.val[i], T, 2))
		e.assumeLoadedInv(e.val[i], T)
		if g, ok := i.X.(*ssa.Global); ok && e.vc.P.NonNilGlobals[g] {
			// assigned a fresh object in the package initialiser and never stored to again (scan of every store)
			e.vc.assume(fmt.Sprintf("(not (= %s 0))", e.val[i]))
		}
	case token.NOT:
		e.setVal(i, sNot(e.term(i.X)))
	case token.SUB:
		if isFloat(i.Type()) {
			e.setVal(i, fmt.Sprintf("(- %s)", e.term(i.X)))
			return
		}
		r := fmt.Sprintf("(- %s)", e.term(i.X))
		if b, uns := intBits(i.Type()); b == 64 && uns {
			r = fmt.Sprintf("(mod %s %s)", r, pow2(64).String())
		}
		e.setVal(i, wrapInt(r, i.Type()))
	case token.XOR:
		// ^x = -x-1 (signed) ; for unsigned: max - x
		bits, uns := intBits(i.Type())
		if uns {
			e.setVal(i, fmt.Sprintf("(- %s %s)", new(big.Int).Sub(pow2(bits), big.NewInt(1)).String(), e.term(i.X)))
		} else {
			e.setVal(i, fmt.Sprintf("(- (- %s) 1)", e.term(i.X)))
		}
	case token.ARROW:
		e.opaque(i)
		e.vc.note("channel receive not modelled")
	default:
		e.fail("unsupported unary %s", i.Op)
	}
}

func (e *fnEnc) convert(i *ssa.Convert) {
	from, to := i.X.Type(), i.Type()
	x := e.term(i.X)
	switch {
	case isInteger(from) && isInteger(to):
		e.setVal(i, wrapInt(x, to))
		if b, uns := intBits(to); b == 64 && uns {
			// signed -> uint64 of a negative number wraps
			e.val[i] = e.vc.decl(e.name(i), "Int")
			e.setVal(i, fmt.Sprintf("(mod %s %s)", x, pow2(64).String()))
		}
	case isInteger(from) && isFloat(to):
		e.setVal(i, fmt.Sprintf("(to_real %s)", x))
	case isFloat(from) && isInteger(to):
		e.setVal(i, fmt.Sprintf("(ite (>= %s 0.0) (to_int %s) (- (to_int (- %s))))", x, x, x))
	case isFloat(from) && isFloat(to):
		e.setVal(i, x)
	case isString(from) && isString(to):
		e.setVal(i, x)
	case isString(to):
		if sl, ok := from.Underlying().(*types.Slice); ok && e.S().SortOf(sl.Elem()) == "Int" {
			if b, _ := intBits(sl.Elem()); b == 8 {
				ek := e.S().ElemKey(sl.Elem())
				e.setVal(i, fmt.Sprintf("(mk-str (select %s (c-ref %s)) (c-off %s) (c-len %s))", e.heap(ek), x, x, x))
				return
			}
		}
		n := e.opaque(i)
		if isInteger(from) {
			e.vc.assume(fmt.Sprintf("(and (>= (s-len %s) 1) (<= (s-len %s) 4))", n, n))
		}
	case isString(from):
		if sl, ok := to.Underlying().(*types.Slice); ok {
			if b, _ := intBits(sl.Elem()); b == 8 {
				ek := e.S().ElemKey(sl.Elem())
				n := e.freshRefRaw("bytesref")
				e.setHeap(ek, fmt.Sprintf("(store %s %s (s-base %s))", e.heap(ek), n, x))
				e.setVal(i, fmt.Sprintf("(mk-slc %s (s-off %s) (s-len %s) (s-len %s))", n, x, x, x))
				return
			}
			n := e.opaque(i) // []rune
			e.vc.assume(fmt.Sprintf("(<= (c-len %s) (s-len %s))", n, x))
			return
		}
		e.opaque(i)
	default:
		if e.S().SortOf(from) == e.S().SortOf(to) {
			e.setVal(i, x)
		} else {
			e.opaque(i)
		}
	}
}

// ---------- addresses ----------

func (e *fnEnc) fieldAddr(i *ssa.FieldAddr) {
	pt := i.X.Type().Underlying().(*types.Pointer).Elem()
	st := pt.Underlying().(*types.Struct)
	ft := st.Field(i.Field).Type()
	if base, ok := e.lvOf(i.X); ok {
		sn := e.S().SortOf(pt)
		nlv := *base
		nlv.Path = append(append([]pathStep{}, base.Path...), pathStep{field: e.S().fieldSel(sn, st.Field(i.Field).Name(), i.Field), sortN: sn, fidx: i.Field, inT: pt})
		nlv.ElemT = ft
		e.lvs[i] = &nlv
		return
	}
	r := e.term(i.X)
	if _, isAlloc := i.X.(*ssa.Alloc); !isAlloc {
		e.safety("nil", "field", fmt.Sprintf("(not (= %s 0))", r), i.Pos(), "nil pointer dereference (field "+st.Field(i.Field).Name()+")")
	}
	if e.vc.Opt.SafetyKinds["lock"] && !e.inlineAssume {
		if g := e.vc.P.guardFor(pt); g != nil && g.Fields[st.Field(i.Field).Name()] {
			if _, isAlloc := i.X.(*ssa.Alloc); !isAlloc {
				name := e.vc.ordinal(fmt.Sprintf("%s#lock:access.%s", FuncKey(e.fn), st.Field(i.Field).Name()))
				e.vc.oblige(&Obligation{Name: name, Kind: "lock", Guard: e.guard(), Cond: e.heldTerm(pt, g, r), Props: e.vc.Opt.SafetyProps, Pos: i.Pos(), Src: "guarded field " + g.Type + "." + st.Field(i.Field).Name() + " is accessed with " + g.Mutex + " held"})
			}
		}
	}
	k := e.vc.key(e.S().FieldKey(pt, i.Field))
	e.lvs[i] = &LValue{Key: k, Kind: "field", Ref: r, ElemT: ft, RootT: ft}
}

func (e *fnEnc) indexAddr(i *ssa.IndexAddr) {
	idx := e.term(i.Index)
	switch xt := i.X.Type().Underlying().(type) {
	case *types.Slice:
		s := e.term(i.X)
		e.safety("bounds", "index", fmt.Sprintf("(and (>= %s 0) (< %s (c-len %s)))", idx, idx, s), i.Pos(), "slice index out of range")
		k := e.vc.key(e.S().ElemKey(xt.Elem()))
		e.lvs[i] = &LValue{Key: k, Kind: "elem", Ref: fmt.Sprintf("(c-ref %s)", s), Idx: fmt.Sprintf("(+ (c-off %s) %s)", s, idx), ElemT: xt.Elem(), RootT: xt.Elem()}
	case *types.Pointer:
		at := xt.Elem().Underlying().(*types.Array)
		e.safety("bounds", "index", fmt.Sprintf("(and (>= %s 0) (< %s %d))", idx, idx, at.Len()), i.Pos(), "array index out of range")
		var base *LValue
		if b, ok := e.lvOf(i.X); ok {
			base = b
		} else {
			r := e.term(i.X)
			if _, isAlloc := i.X.(*ssa.Alloc); !isAlloc {
				e.safety("nil", "index", fmt.Sprintf("(not (= %s 0))", r), i.Pos(), "nil array pointer")
			}
			k := e.vc.key(e.S().DerefKey(xt.Elem()))
			base = &LValue{Key: k, Kind: "deref", Ref: r, ElemT: xt.Elem(), RootT: xt.Elem()}
		}
		nlv := *base
		nlv.Path = append(append([]pathStep{}, base.Path...), pathStep{idx: idx, inT: xt.Elem()})
		nlv.ElemT = at.Elem()
		e.lvs[i] = &nlv
	default:
		e.fail("IndexAddr on %s", i.X.Type())
	}
}

func (e *fnEnc) index(i *ssa.Index) {
	idx := e.term(i.Index)
	x := e.term(i.X)
	switch xt := i.X.Type().Underlying().(type) {
	case *types.Array:
		e.safety("bounds", "index", fmt.Sprintf("(and (>= %s 0) (< %s %d))", idx, idx, xt.Len()), i.Pos(), "array index out of range")
		e.setVal(i, fmt.Sprintf("(select %s %s)", x, idx))
	case *types.Basic: // string
		e.safety("bounds", "index", fmt.Sprintf("(and (>= %s 0) (< %s (s-len %s)))", idx, idx, x), i.Pos(), "string index out of range")
		e.setVal(i, fmt.Sprintf("(select (s-base %s) (+ (s-off %s) %s))", x, x, idx))
		e.vc.assume(e.typeFacts(e.val[i], i.Type(), 1))
	default:
		e.opaque(i)
	}
	e.vc.assume(e.typeFacts(e.val[i], i.Type(), 1))
}

func (e *fnEnc) storeInstr(i *ssa.Store) {
	v := e.term(i.Val)
	if lv, ok := e.lvOf(i.Addr); ok {
		e.store(lv, v)
		return
	}
	r := e.term(i.Addr)
	T := i.Addr.Type().Underlying().(*types.Pointer).Elem()
	if _, isAlloc := i.Addr.(*ssa.Alloc); !isAlloc {
		e.safety("nil", "store", fmt.Sprintf("(not (= %s 0))", r), i.Pos(), "nil pointer dereference (store)")
	}
	e.storePtr(r, T, v)
}

// mapKey converts a key value to the Int key sort.
func (e *fnEnc) mapKey(t string, T types.Type) string {
	return mapKeyTerm(e.vc, e.S(), t, T)
}

func mapKeyTerm(vc *VC, S *Sorts, t string, T types.Type) string {
	switch S.SortOf(T) {
	case "Int":
		return t
	case "Str":
		return "(sid " + t + ")"
	case "Bool":
		return "(ite " + t + " 1 0)"
	}
	fn := "hid!" + mangle(S.SortOf(T))
	vc.declFun(fn, "("+S.SortOf(T)+") Int")
	return "(" + fn + " " + t + ")"
}

func (e *fnEnc) lookup(i *ssa.Lookup) {
	x := e.term(i.X)
	idx := e.term(i.Index)
	if mt, ok := i.X.Type().Underlying().(*types.Map); ok {
		k := e.mapKey(idx, mt.Key())
		has := fmt.Sprintf("(select (select %s %s) %s)", e.heap(e.S().MapHasKey(mt)), x, k)
		val := fmt.Sprintf("(select (select %s %s) %s)", e.heap(e.S().MapValKey(mt)), x, k)
		has = sAnd(fmt.Sprintf("(not (= %s 0))", x), has)
		v := sIte(has, val, e.S().Zero(mt.Elem()))
		if i.CommaOk {
			vn := e.vc.fresh(e.name(i)+".v", e.S().SortOf(mt.Elem()))
			e.vc.def(sEq(vn, v))
			e.vc.assume(e.typeFacts(vn, mt.Elem(), 2))
			e.assumeLoadedInv(vn, mt.Elem())
			on := e.vc.fresh(e.name(i)+".ok", "Bool")
			e.vc.def(sEq(on, has))
			e.tuples[i] = []string{vn, on}
			return
		}
		e.setVal(i, v)
		e.vc.assume(e.typeFacts(e.val[i], mt.Elem(), 2))
		e.assumeLoadedInv(e.val[i], mt.Elem())
		return
	}
	// string index
	e.safety("bounds", "index", fmt.Sprintf("(and (>= %s 0) (< %s (s-len %s)))", idx, idx, x), i.Pos(), "string index out of range")
	e.setVal(i, fmt.Sprintf("(select (s-base %s) (+ (s-off %s) %s))", x, x, idx))
	e.vc.assume(e.typeFacts(e.val[i], i.Type(), 1))
}

func (e *fnEnc) mapUpdate(i *ssa.MapUpdate) {
	m := e.term(i.Map)
	mt := i.Map.Type().Underlying().(*types.Map)
	if _, isMake := i.Map.(*ssa.MakeMap); !isMake {
		e.safety("nil", "mapupdate", fmt.Sprintf("(not (= %s 0))", m), i.Pos(), "assignment to entry in nil map")
	}
	k := e.mapKey(e.term(i.Key), mt.Key())
	hk, vk := e.S().MapHasKey(mt), e.S().MapValKey(mt)
	hh, vh := e.heap(hk), e.heap(vk)
	e.setHeap(hk, fmt.Sprintf("(store %s %s (store (select %s %s) %s true))", hh, m, hh, m, k))
	e.setHeap(vk, fmt.Sprintf("(store %s %s (store (select %s %s) %s %s))", vh, m, vh, m, k, e.term(i.Value)))
	e.vc.declFun("maplen", "((Array Int Bool)) Int")
	e.vc.assume(fmt.Sprintf("(and (>= (maplen (select %s %s)) 1) (>= (maplen (select %s %s)) (maplen (select %s %s))))", e.heap(hk), m, e.heap(hk), m, hh, m))
}

func (e *fnEnc) makeInterface(i *ssa.MakeInterface) {
	x := e.term(i.X)
	tag := e.S().Tag(i.X.Type())
	if _, isPtr := i.X.Type().Underlying().(*types.Pointer); isPtr {
		// convention checked at every producer in swept code and assumed at every type assertion:
		// a typed nil pointer is never stored in an interface value
		if _, isAlloc := i.X.(*ssa.Alloc); !isAlloc {
			e.safety("nil", "typed-nil-in-interface", fmt.Sprintf("(not (= %s 0))", x), i.Pos(), "typed nil pointer stored in an interface value")
		}
	}
	e.setVal(i, fmt.Sprintf("(mk-ifc %d %s)", tag, e.box(x, i.X.Type())))
}

// box maps a concrete value to the Int payload of an interface value.
func (e *fnEnc) box(x string, T types.Type) string {
	sn := e.S().SortOf(T)
	if sn == "Int" {
		return x
	}
	fn := "box!" + mangle(sn)
	un := "unbox!" + mangle(sn)
	e.vc.declFun(fn, "("+sn+") Int")
	e.vc.declFun(un, "(Int) "+sn)
	t := fmt.Sprintf("(%s %s)", fn, x)
	e.vc.def(fmt.Sprintf("(= (%s %s) %s)", un, t, x))
	return t
}

func (e *fnEnc) unbox(r string, T types.Type) string {
	sn := e.S().SortOf(T)
	if sn == "Int" {
		return r
	}
	un := "unbox!" + mangle(sn)
	e.vc.declFun("box!"+mangle(sn), "("+sn+") Int")
	e.vc.declFun(un, "(Int) "+sn)
	return fmt.Sprintf("(%s %s)", un, r)
}

func (e *fnEnc) typeAssert(i *ssa.TypeAssert) {
	x := e.term(i.X)
	var ok, val string
	if _, isIface := i.AssertedType.Underlying().(*types.Interface); isIface {
		// interface-to-interface: success depends on the dynamic type's method set
		e.vc.declFun("implements", "(Int Int) Bool")
		ok = fmt.Sprintf("(and (not (= (i-tag %s) 0)) (implements (i-tag %s) %d))", x, x, e.S().Tag(i.AssertedType))
		if types.Identical(i.X.Type(), i.AssertedType) || types.AssignableTo(i.X.Type(), i.AssertedType) {
			ok = fmt.Sprintf("(not (= (i-tag %s) 0))", x)
		}
		val = x
	} else {
		ok = fmt.Sprintf("(= (i-tag %s) %d)", x, e.S().Tag(i.AssertedType))
		val = e.unbox(fmt.Sprintf("(i-ref %s)", x), i.AssertedType)
	}
	if _, isPtr := i.AssertedType.Underlying().(*types.Pointer); isPtr {
		e.vc.assume(sImp(ok, fmt.Sprintf("(not (= %s 0))", val)))
	}
	if i.CommaOk {
		vn := e.vc.fresh(e.name(i)+".v", e.S().SortOf(i.AssertedType))
		e.vc.def(sEq(vn, sIte(ok, val, e.S().Zero(i.AssertedType))))
		e.vc.assume(e.typeFacts(vn, i.AssertedType, 1))
		on := e.vc.fresh(e.name(i)+".ok", "Bool")
		e.vc.def(sEq(on, ok))
		e.tuples[i] = []string{vn, on}
		return
	}
	e.safety("assert-type", "assert", ok, i.Pos(), "type assertion to "+types.TypeString(i.AssertedType, nil))
	e.setVal(i, val)
	e.vc.assume(e.typeFacts(e.val[i], i.AssertedType, 1))
}

func (e *fnEnc) makeSlice(i *ssa.MakeSlice) {
	l, c := e.term(i.Len), e.term(i.Cap)
	e.safety("bounds", "makeslice", fmt.Sprintf("(and (>= %s 0) (<= %s %s))", l, l, c), i.Pos(), "makeslice: len out of range")
	r := e.freshRefRaw("mkslice")
	st := i.Type().Underlying().(*types.Slice)
	ek := e.S().ElemKey(st.Elem())
	es := e.S().SortOf(st.Elem())
	e.setHeap(ek, fmt.Sprintf("(store %s %s ((as const (Array Int %s)) %s))", e.heap(ek), r, es, e.S().Zero(st.Elem())))
	e.setVal(i, fmt.Sprintf("(mk-slc %s 0 %s %s)", r, l, c))
}

func (e *fnEnc) slice(i *ssa.Slice) {
	x := e.term(i.X)
	lo, hi := "0", ""
	if i.Low != nil {
		lo = e.term(i.Low)
	}
	if i.High != nil {
		hi = e.term(i.High)
	}
	switch xt := i.X.Type().Underlying().(type) {
	case *types.Basic: // string
		if hi == "" {
			hi = fmt.Sprintf("(s-len %s)", x)
		}
		e.safety("bounds", "slice", fmt.Sprintf("(and (<= 0 %s) (<= %s %s) (<= %s (s-len %s)))", lo, lo, hi, hi, x), i.Pos(), "string slice bounds out of range")
		e.setVal(i, fmt.Sprintf("(mk-str (s-base %s) (+ (s-off %s) %s) (- %s %s))", x, x, lo, hi, lo))
	case *types.Slice:
		if hi == "" {
			hi = fmt.Sprintf("(c-len %s)", x)
		}
		mx := fmt.Sprintf("(c-cap %s)", x)
		if i.Max != nil {
			m := e.term(i.Max)
			e.safety("bounds", "slice3", fmt.Sprintf("(and (<= %s %s) (<= %s (c-cap %s)))", hi, m, m, x), i.Pos(), "slice bounds out of range (max)")
			mx = m
		}
		e.safety("bounds", "slice", fmt.Sprintf("(and (<= 0 %s) (<= %s %s) (<= %s (c-cap %s)))", lo, lo, hi, hi, x), i.Pos(), "slice bounds out of range")
		e.setVal(i, fmt.Sprintf("(mk-slc (c-ref %s) (+ (c-off %s) %s) (- %s %s) (- %s %s))", x, x, lo, hi, lo, mx, lo))
	case *types.Pointer:
		at := xt.Elem().Underlying().(*types.Array)
		n := at.Len()
		if hi == "" {
			hi = fmt.Sprint(n)
		}
		e.safety("bounds", "slice", fmt.Sprintf("(and (<= 0 %s) (<= %s %s) (<= %s %d))", lo, lo, hi, hi, n), i.Pos(), "slice bounds out of range")
		// copy the array contents into the element heap under the array's own reference
		var arr string
		if lv, ok := e.lvOf(i.X); ok {
			arr = e.load(lv)
		} else {
			arr = e.loadPtr(x, xt.Elem())
		}
		r := e.freshRefRaw("arrslice")
		ek := e.S().ElemKey(at.Elem())
		e.setHeap(ek, fmt.Sprintf("(store %s %s %s)", e.heap(ek), r, arr))
		e.setVal(i, fmt.Sprintf("(mk-slc %s %s (- %s %s) (- %d %s))", r, lo, hi, lo, n, lo))
	default:
		e.fail("slice of %s", i.X.Type())
	}
}

// ---------- range ----------

func (e *fnEnc) rangeInit(i *ssa.Range) {
	key := HeapKey{Name: "ITER!" + e.prefix + i.Name(), Sort: "Int"}
	e.vc.key(key)
	e.val[i] = "0"
	e.iterPos[i] = key.Name
	e.setHeap(key, "0")
}

func (e *fnEnc) next(i *ssa.Next) {
	rng, _ := i.Iter.(*ssa.Range)
	tup := i.Type().(*types.Tuple)
	okn := e.vc.fresh(e.name(i)+".ok", "Bool")
	if i.IsString && rng != nil {
		key := HeapKey{Name: "ITER!" + e.prefix + rng.Name(), Sort: "Int"}
		pos := e.heap(key)
		s := e.term(rng.X)
		e.vc.assume(fmt.Sprintf("(and (>= %s 0) (<= %s (s-len %s)))", pos, pos, s))
		e.vc.def(sEq(okn, fmt.Sprintf("(< %s (s-len %s))", pos, s)))
		b := fmt.Sprintf("(select (s-base %s) (+ (s-off %s) %s))", s, s, pos)
		rn := e.vc.fresh(e.name(i)+".rune", "Int")
		np := e.vc.fresh(e.name(i)+".npos", "Int")
		e.vc.assume(fmt.Sprintf("(and (>= %s 0) (<= %s 255))", b, b))
		e.vc.assume(sImp(okn, fmt.Sprintf("(ite (< %s 128) (and (= %s %s) (= %s (+ %s 1))) (and (>= %s 128) (<= %s 1114111) (> %s %s) (<= %s (+ %s 4)) (<= %s (s-len %s))))", b, rn, b, np, pos, rn, rn, np, pos, np, pos, np, s)))
		e.vc.assume(sImp(sNot(okn), sEq(np, pos)))
		e.setHeap(key, np)
		e.tuples[i] = []string{okn, pos, rn}
		return
	}
	// map iteration: some present key, or finished
	var kn, vn string
	ks, vs := e.S().SortOf(tup.At(1).Type()), e.S().SortOf(tup.At(2).Type())
	if rng != nil {
		if mt, ok := rng.X.Type().Underlying().(*types.Map); ok {
			ks, vs = e.S().SortOf(mt.Key()), e.S().SortOf(mt.Elem())
		}
	}
	kn = e.vc.fresh(e.name(i)+".k", ks)
	vn = e.vc.fresh(e.name(i)+".v", vs)
	if rng != nil {
		if mt, ok := rng.X.Type().Underlying().(*types.Map); ok {
			m := e.term(rng.X)
			e.vc.assume(e.typeFacts(kn, mt.Key(), 1))
			e.vc.assume(e.typeFacts(vn, mt.Elem(), 2))
			k := e.mapKey(kn, mt.Key())
			e.vc.declFun("maplen", "((Array Int Bool)) Int")
			e.vc.assume(sImp(okn, fmt.Sprintf("(> (maplen (select %s %s)) 0)", e.heap(e.S().MapHasKey(mt)), m)))
			// the first step of an iteration succeeds iff the map is not empty
			itk := HeapKey{Name: "ITER!" + e.prefix + rng.Name(), Sort: "Int"}
			e.vc.assume(sImp(fmt.Sprintf("(= %s 0)", e.heap(itk)), sEq(okn, fmt.Sprintf("(and (not (= %s 0)) (> (maplen (select %s %s)) 0))", m, e.heap(e.S().MapHasKey(mt)), m))))
			e.vc.assume(sImp(okn, sAnd(fmt.Sprintf("(not (= %s 0))", m),
				fmt.Sprintf("(select (select %s %s) %s)", e.heap(e.S().MapHasKey(mt)), m, k),
				sEq(vn, fmt.Sprintf("(select (select %s %s) %s)", e.heap(e.S().MapValKey(mt)), m, k)))))
			e.assumeLoadedInv(vn, mt.Elem())
		}
		key := HeapKey{Name: "ITER!" + e.prefix + rng.Name(), Sort: "Int"}
		e.setHeap(key, fmt.Sprintf("(+ %s 1)", e.heap(key)))
	}
	e.tuples[i] = []string{okn, kn, vn}
}

// ---------- panic / return ----------

func (e *fnEnc) panicInstr(i *ssa.Panic) {
	if e.inlineAssume {
		e.vc.assume(sNot(e.guard()))
		return
	}
	if !e.vc.Opt.SafetyKinds["panic"] {
		return
	}
	// explicit panics allowed by the contract (sentinel types)
	allowed := false
	if c := e.contract; c != nil {
		if mi, ok := i.X.(*ssa.MakeInterface); ok {
			tn := types.TypeString(mi.X.Type(), func(p *types.Package) string { return p.Name() })
			for _, a := range c.Panics {
				if a == tn || a == "*" {
					allowed = true
				}
			}
		} else {
			for _, a := range c.Panics {
				if a == "*" {
					allowed = true
				}
			}
		}
	}
	if allowed {
		return
	}
	name := e.vc.ordinal(fmt.Sprintf("%s#panic:explicit", FuncKey(e.fn)))
	e.vc.oblige(&Obligation{Name: name, Kind: "panic", Guard: e.guard(), Cond: "false", Props: e.vc.Opt.SafetyProps, Pos: i.Pos(), Src: "explicit panic is unreachable"})
}

func (e *fnEnc) ret(i *ssa.Return) {
	var vals []string
	for _, r := range i.Results {
		vals = append(vals, e.term(r))
	}
	e.rets = append(e.rets, retInfo{guard: e.guard(), vals: vals, heap: copyMap(e.cur), blk: e.curBlk})
	if e.top && e.lockAtEntry != "" && e.vc.Opt.SafetyKinds["lock"] {
		// same mutex term evaluated in the exit heap
		exitHeld := strings.Replace(e.lockAtEntry, e.entryHeapName(lockKey), e.heap(lockKey), 1)
		name := e.vc.ordinal(fmt.Sprintf("%s#lock:balanced", FuncKey(e.fn)))
		e.vc.oblige(&Obligation{Name: name, Kind: "lock", Guard: e.guard(), Cond: sEq(exitHeld, e.lockAtEntry), Props: e.vc.Opt.SafetyProps, Pos: i.Pos(), Src: "the request mutex is in the same state at exit as at entry"})
	}
	if !e.top || e.contract == nil {
		return
	}
	// declared type invariants are re-established at every exit
	invProps := append(append([]string{}, e.contract.Props...), e.contract.Extra["sweep"]...)
	for _, p := range e.fn.Params {
		if !e.writesType(p.Type()) {
			continue
		}
		for k, f := range e.typeInvFormulas(e.val[p], p.Type(), e.cur) {
			props := f.cl.Props
			if len(props) == 0 {
				props = invProps
			}
			name := e.vc.ordinal(fmt.Sprintf("%s#typeinv:%s.%d(%s)", FuncKey(e.fn), f.tn, k, p.Name()))
			e.vc.oblige(&Obligation{Name: name, Kind: "typeinv", Guard: e.guard(), Cond: f.f, Props: props, Pos: i.Pos(), Src: "type invariant of " + f.tn + ": " + f.cl.Src})
		}
	}
	for ri, r := range i.Results {
		for k, f := range e.typeInvFormulas(vals[ri], r.Type(), e.cur) {
			props := f.cl.Props
			if len(props) == 0 {
				props = invProps
			}
			name := e.vc.ordinal(fmt.Sprintf("%s#typeinv:%s.%d(result%d)", FuncKey(e.fn), f.tn, k, ri))
			e.vc.oblige(&Obligation{Name: name, Kind: "typeinv", Guard: e.guard(), Cond: f.f, Props: props, Pos: i.Pos(), Src: "type invariant of returned " + f.tn + ": " + f.cl.Src})
		}
	}
	env := e.resultEnvAt(vals, e.cur, i)
	for k, cl := range e.contract.Ensures {
		f, err := env.Bool(cl.Expr)
		if err != nil {
			e.fail("ensures %q: %v", cl.Src, err)
		}
		props := cl.Props
		if len(props) == 0 {
			props = e.contract.AllProps()
		}
		tag := cl.Tag
		if tag == "" {
			tag = fmt.Sprintf("e%d", k)
		}
		name := e.vc.ordinal(fmt.Sprintf("%s#post:%s", FuncKey(e.fn), tag))
		e.vc.oblige(&Obligation{Name: name, Kind: "post", Guard: e.guard(), Cond: f, Props: props, Pos: i.Pos(), Src: cl.Src})
	}
}

func (e *fnEnc) runDefers() {
	for k := len(e.deferred) - 1; k >= 0; k-- {
		d := e.deferred[k]
		e.call(nil, d.Common(), d)
	}
}

// heldTerm is the ghost "mutex of object r is held" term.
func (e *fnEnc) heldTerm(T types.Type, g *GuardSpec, r string) string {
	st := T.Underlying().(*types.Struct)
	for k := 0; k < st.NumFields(); k++ {
		if st.Field(k).Name() == g.Mutex {
			fk := e.vc.key(e.S().FieldKey(T, k))
			lv := &LValue{Key: fk, Kind: "field", Ref: r, ElemT: st.Field(k).Type(), RootT: st.Field(k).Type()}
			return fmt.Sprintf("(select %s %s)", e.heap(lockKey), e.addrOfQuiet(lv))
		}
	}
	return "false"
}

func (e *fnEnc) entryHeapName(k HeapKey) string {
	if v, ok := e.entryHeap[k.Name]; ok {
		return v
	}
	return "H0!" + k.Name
}

// assumeLoadedInv: an object reached through the heap satisfies its declared type invariant
// (objects are only inconsistent inside the functions that are rebuilding them; listed assumption).
func (e *fnEnc) assumeLoadedInv(t string, T types.Type) {
	for _, f := range e.typeInvFormulas(t, T, e.cur) {
		e.vc.assume(sImp(e.guard(), f.f))
	}
}

// onlyDeferredClosures: the cell escapes only into closures, and those closures are only deferred.
func onlyDeferredClosures(a *ssa.Alloc) bool {
	refs := a.Referrers()
	if refs == nil {
		return false
	}
	sawClosure := false
	for _, r := range *refs {
		switch x := r.(type) {
		case *ssa.Store:
			if x.Val == ssa.Value(a) {
				return false // the address itself is stored somewhere
			}
		case *ssa.UnOp, *ssa.FieldAddr, *ssa.IndexAddr, *ssa.DebugRef:
		case *ssa.MakeClosure:
			sawClosure = true
			crefs := x.Referrers()
			if crefs == nil {
				return false
			}
			for _, cr := range *crefs {
				switch cr.(type) {
				case *ssa.Defer, *ssa.DebugRef:
				default:
					return false
				}
			}
		default:
			return false
		}
	}
	return sawClosure
}

// mapUnescapedAt: the map made by mk cannot have been seen by any other function when control is at instruction at:
// every use that could leak it (call argument, store, return, conversion, phi, ...) lies where it cannot reach at.
func (e *fnEnc) mapUnescapedAt(mk *ssa.MakeMap, at ssa.Instruction) bool {
	if at == nil || mk.Referrers() == nil {
		return false
	}
	idxOf := func(in ssa.Instruction) int {
		for k, x := range in.Block().Instrs {
			if x == in {
				return k
			}
		}
		return -1
	}
	reach := map[*ssa.BasicBlock]bool{}
	var walk func(b *ssa.BasicBlock)
	walk = func(b *ssa.BasicBlock) {
		for _, s := range b.Succs {
			if !reach[s] {
				reach[s] = true
				walk(s)
			}
		}
	}
	for _, r := range *mk.Referrers() {
		leak := true
		switch u := r.(type) {
		case *ssa.MapUpdate:
			leak = u.Map != ssa.Value(mk) || u.Key == ssa.Value(mk) || u.Value == ssa.Value(mk)
		case *ssa.Lookup:
			leak = u.X != ssa.Value(mk)
		case *ssa.Range:
			leak = false
		case *ssa.DebugRef:
			leak = false
		case *ssa.Call:
			if b, ok := u.Call.Value.(*ssa.Builtin); ok && (b.Name() == "len" || b.Name() == "delete") {
				leak = false
			}
		}
		if !leak {
			continue
		}
		// a leaking use: does it (or anything after it) come before `at` on some path?
		if r.Block() == at.Block() && idxOf(r) <= idxOf(at) {
			return false
		}
		for k := range reach {
			delete(reach, k)
		}
		walk(r.Block())
		if reach[at.Block()] {
			return false
		}
	}
	return true
}
