package engine

import (
	"golang.org/x/tools/go/ssa"
	"fmt"
	"os"
	"strings"
)

// Dump prints the obligations (and optionally one query) of a function, for debugging.
func Dump(p *Program, fnKey, obl, prop, work string) {
	for k, fn := range p.Funcs {
		if !strings.Contains(k, fnKey) || fnKey == "" {
			continue
		}
		cfg := &CheckConfig{Property: prop, Tier: "quick", WorkDir: work, Timeout: 10, Jobs: 8}
		rep := p.CheckFunction(fn, cfg)
		fmt.Println("==", k, "err:", rep.Err, "rounds:", rep.Rounds)
		for ord, inv := range rep.Inferred {
			fmt.Println("  inferred loop", ord, inv)
		}
		for _, n := range rep.Notes {
			fmt.Println("  note:", n)
		}
		for _, r := range rep.Results {
			fmt.Printf("  %-12s %-8s %-10s %6.2fs %s  -- %s @%s\n", r.Status, r.Res.Status, r.Res.Solver, r.Res.Time, r.Obl.Name, r.Obl.Src, p.posString(r.Obl))
			if obl != "" && strings.Contains(r.Obl.Name, obl) {
				fmt.Println(r.Res.File)
				if data, err := os.ReadFile(r.Res.File); err == nil {
					fmt.Println(string(data))
				}
				if r.Res.Status == "sat" {
					fmt.Println(GetModel(r.Res.File, 10))
				}
			}
		}
	}
}

// DumpAll lists every obligation generated for a function regardless of property.
func DumpAll(p *Program, fnKey string) {
	for k, fn := range p.Funcs {
		if !strings.Contains(k, fnKey) {
			continue
		}
		opt := VCOptions{SafetyKinds: map[string]bool{}, CandidateInvs: map[int][]*Clause{}}
		for _, kd := range AllSafetyKinds {
			opt.SafetyKinds[kd] = true
		}
		vc := NewVC(p, fn, opt)
		err := vc.Encode()
		fmt.Println("==", k, "err:", err)
		for _, o := range vc.Obligations() {
			fmt.Printf("  %-10s %v %s -- %s\n", o.Kind, o.Props, o.Name, o.Src)
		}
		for _, n := range vc.Notes {
			fmt.Println("  note:", n)
		}
	}
}

// Writers lists, for every function whose key contains fnKey, the direct callees whose write summary contains a heap
// key with the substring key (diagnostic: who is responsible for a havoc).
func Writers(p *Program, fnKey, key string) {
	for k, fn := range p.Funcs {
		if !strings.Contains(k, fnKey) {
			continue
		}
		s := p.Summ[fn]
		if s == nil {
			continue
		}
		fmt.Println("==", k, "all:", s.All)
		for dk := range s.direct {
			if strings.Contains(dk, key) {
				fmt.Println("  direct write:", dk)
			}
		}
		seen := map[*ssa.Function]bool{}
		for _, c := range s.calls {
			if seen[c] {
				continue
			}
			seen[c] = true
			cs := p.Summ[c]
			if cs == nil {
				continue
			}
			if cs.All {
				fmt.Println("  callee writes ALL:", FuncKey(c))
			}
			for wk := range cs.Writes {
				if strings.Contains(wk, key) {
					fmt.Println("  callee", FuncKey(c), "writes", wk)
				}
			}
		}
	}
}

// AllRoots prints the functions reachable from fnKey whose own body makes a call to unknown code (the roots of an
// "ALL" write summary), with the call path.
func AllRoots(p *Program, fnKey string) {
	for k, fn := range p.Funcs {
		if !strings.Contains(k, fnKey) {
			continue
		}
		fmt.Println("==", k)
		seen := map[*ssa.Function]bool{}
		var walk func(f *ssa.Function, path string)
		walk = func(f *ssa.Function, path string) {
			if seen[f] {
				return
			}
			seen[f] = true
			s := p.Summ[f]
			if s == nil || !s.All {
				return
			}
			if s.dynAll {
				fmt.Println("  root:", path)
			}
			for _, c := range s.calls {
				walk(c, path+" > "+c.Name())
			}
		}
		walk(fn, fn.Name())
	}
}
