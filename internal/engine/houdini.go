package engine

import (
	"fmt"
	"go/types"
	"sort"

	"golang.org/x/tools/go/ssa"
)

// candidateInvariants proposes template invariants for every loop of the VC's function.
// They mention only source-level names read off the SSA (phi comments, parameters, fields of pointer parameters).
func (vc *VC) candidateInvariants() (map[int][]*Clause, error) {
	e := vc.newFnEnc(vc.Fn, "", true)
	e.analyseCFG()
	out := map[int][]*Clause{}
	fn := vc.Fn
	// length sources
	var lens []string
	var ints []string // int-valued non-phi expressions (fields of pointer params)
	seen := map[string]bool{}
	add := func(list *[]string, s string) {
		if !seen[s] {
			seen[s] = true
			*list = append(*list, s)
		}
	}
	for _, p := range fn.Params {
		switch p.Type().Underlying().(type) {
		case *types.Slice:
			add(&lens, p.Name())
		case *types.Basic:
			if isString(p.Type()) {
				add(&lens, p.Name())
			}
		}
	}
	for _, b := range fn.Blocks {
		for _, in := range b.Instrs {
			fa, ok := in.(*ssa.FieldAddr)
			if !ok {
				continue
			}
			par, ok := fa.X.(*ssa.Parameter)
			if !ok {
				continue
			}
			st := par.Type().Underlying().(*types.Pointer).Elem().Underlying().(*types.Struct)
			f := st.Field(fa.Field)
			expr := par.Name() + "." + f.Name()
			switch {
			case isString(f.Type()):
				add(&lens, expr)
			case isInteger(f.Type()):
				add(&ints, expr)
			default:
				if _, ok := f.Type().Underlying().(*types.Slice); ok {
					add(&lens, expr)
				}
			}
		}
	}
	for head, li := range e.loops {
		var ivars, svars []string
		for _, in := range head.Instrs {
			phi, ok := in.(*ssa.Phi)
			if !ok {
				break
			}
			if phi.Comment == "" {
				continue
			}
			switch {
			case isInteger(phi.Type()):
				ivars = append(ivars, phi.Comment)
			case isString(phi.Type()):
				svars = append(svars, phi.Comment)
			default:
				if _, ok := phi.Type().Underlying().(*types.Slice); ok {
					svars = append(svars, phi.Comment)
				}
			}
		}
		var srcs []string
		mk := func(s string) {
			x, err := ParseSpecExpr(s)
			if err != nil {
				return
			}
			out[li.ordinal] = append(out[li.ordinal], &Clause{Kind: "invariant", Src: s, Expr: x, Loop: li.ordinal, Cand: true, Tag: fmt.Sprintf("cand%d", len(out[li.ordinal]))})
			srcs = append(srcs, s)
		}
		allInts := append(append([]string{}, ivars...), ints...)
		for _, v := range allInts {
			mk(v + " >= 0")
			for _, l := range append(append([]string{}, lens...), svars...) {
				mk(v + " <= len(" + l + ")")
				mk(v + " < len(" + l + ")")
			}
		}
		for _, v := range ivars {
			for _, w := range allInts {
				if v != w {
					mk(v + " <= " + w)
				}
			}
		}
		if len(out[li.ordinal]) > 60 {
			out[li.ordinal] = out[li.ordinal][:60]
		}
	}
	return out, nil
}

// houdini removes candidate invariants until the remaining set is inductive.
func (p *Program) houdini(vc *VC, cfg *CheckConfig, rep *FuncReport) error {
	for round := 0; round < 12; round++ {
		rep.Rounds = round + 1
		if err := vc.Encode(); err != nil {
			return err
		}
		axioms, err := vc.CompileAxioms(pkgOf(vc.Fn))
		if err != nil {
			return err
		}
		var todo []*Obligation
		emitted := map[*Clause]int{}
		for _, o := range vc.Obligations() {
			if o.CandOf != nil {
				todo = append(todo, o)
				emitted[o.CandOf]++
			}
		}
		fast := *cfg
		fast.Timeout = 3
		fast.Tier = "quick"
		results := solveAll(vc, axioms, todo, &fast)
		bad := map[*Clause]bool{}
		for _, r := range results {
			if !r.OK {
				bad[r.Obl.CandOf] = true
			}
		}
		total := 0
		for ord, cls := range vc.Opt.CandidateInvs {
			var keep []*Clause
			for _, cl := range cls {
				if bad[cl] || emitted[cl] < 2 {
					if emitted[cl] < 2 {
						bad[cl] = true
					}
					continue
				}
				keep = append(keep, cl)
			}
			vc.Opt.CandidateInvs[ord] = keep
			total += len(keep)
		}
		if len(bad) == 0 {
			break
		}
		if total == 0 {
			break
		}
	}
	for ord, cls := range vc.Opt.CandidateInvs {
		for _, cl := range cls {
			rep.Inferred[ord] = append(rep.Inferred[ord], cl.Src)
		}
		sort.Strings(rep.Inferred[ord])
	}
	return nil
}
