package engine

import (
	"fmt"
	"strings"
	"go/types"
	"sort"

	"golang.org/x/tools/go/ssa"
)

// candidateInvariants proposes template invariants for every loop of the VC's function.
// They mention only source-level names read off the SSA (phi comments, parameters, fields of pointer parameters).
func (vc *VC) candidateInvariants() (map[int][]*Clause, error) {
	e := vc.newFnEnc(vc.Fn, "", true)
	e.analyseCFG()
	out := map[int][]*Clause{}
	fn := vc.Fn
	// length sources
	var lens []string
	var ints []string // int-valued non-phi expressions (fields of pointer params)
	seen := map[string]bool{}
	add := func(list *[]string, s string) {
		if !seen[s] {
			seen[s] = true
			*list = append(*list, s)
		}
	}
	var frames []string // expressions whose value may simply be unchanged by a loop
	intFrame := map[string]bool{}
	for _, p := range fn.Params {
		if pt, ok := p.Type().Underlying().(*types.Pointer); ok && isInteger(pt.Elem()) {
			add(&ints, "deref("+p.Name()+")")
			frames = append(frames, "deref("+p.Name()+")")
		}
		switch p.Type().Underlying().(type) {
		case *types.Slice:
			add(&lens, p.Name())
		case *types.Basic:
			if isString(p.Type()) {
				add(&lens, p.Name())
			}
		}
	}
	for _, b := range fn.Blocks {
		for _, in := range b.Instrs {
			if dr, ok := in.(*ssa.DebugRef); ok && !dr.IsAddr {
				if v, ok := dr.Object().(*types.Var); ok && !v.IsField() {
					if _, isSlice := v.Type().Underlying().(*types.Slice); isSlice || isString(v.Type()) {
						add(&lens, v.Name())
					}
				}
			}
			fa, ok := in.(*ssa.FieldAddr)
			if !ok {
				continue
			}
			par, ok := fa.X.(*ssa.Parameter)
			if !ok {
				continue
			}
			st := par.Type().Underlying().(*types.Pointer).Elem().Underlying().(*types.Struct)
			f := st.Field(fa.Field)
			expr := par.Name() + "." + f.Name()
			switch {
			case isString(f.Type()):
				if !seen[expr] {
					frames = append(frames, expr)
				}
				add(&lens, expr)
			case isInteger(f.Type()):
				if !seen[expr] {
					frames = append(frames, expr)
					intFrame[expr] = true
				}
				add(&ints, expr)
			default:
				if _, ok := f.Type().Underlying().(*types.Slice); ok {
					add(&lens, expr)
				}
				if _, ok := f.Type().Underlying().(*types.Struct); ok && !seen["frame:"+expr] {
					seen["frame:"+expr] = true
					frames = append(frames, expr)
				}
			}
		}
	}
	// address-taken integer/string locals live in memory, not in phis
	var memInts, memStrs []string
	for _, b := range fn.Blocks {
		for _, in := range b.Instrs {
			if al, ok := in.(*ssa.Alloc); ok && al.Comment != "" {
				T := al.Type().Underlying().(*types.Pointer).Elem()
				if isInteger(T) {
					memInts = append(memInts, al.Comment)
				} else if isString(T) {
					memStrs = append(memStrs, al.Comment)
				}
			}
		}
	}
	for head, li := range e.loops {
		var ivars, svars []string
		ivars = append(ivars, memInts...)
		svars = append(svars, memStrs...)
		for _, in := range head.Instrs {
			phi, ok := in.(*ssa.Phi)
			if !ok {
				break
			}
			if phi.Comment == "" {
				continue
			}
			switch {
			case isInteger(phi.Type()):
				ivars = append(ivars, phi.Comment)
			case isString(phi.Type()):
				svars = append(svars, phi.Comment)
			default:
				if _, ok := phi.Type().Underlying().(*types.Slice); ok {
					svars = append(svars, phi.Comment)
				}
			}
		}
		var srcs []string
		mk := func(s string) {
			x, err := ParseSpecExpr(s)
			if err != nil {
				return
			}
			out[li.ordinal] = append(out[li.ordinal], &Clause{Kind: "invariant", Src: s, Expr: x, Loop: li.ordinal, Cand: true, Tag: fmt.Sprintf("cand%d", len(out[li.ordinal]))})
			srcs = append(srcs, s)
		}
		// declared type invariants of pointer parameters are always candidates
		for _, par := range fn.Params {
			pt, ok := par.Type().Underlying().(*types.Pointer)
			if !ok {
				continue
			}
			named, ok := pt.Elem().(*types.Named)
			if !ok || named.Obj().Pkg() == nil {
				continue
			}
			for _, cl := range vc.P.Contracts.TypeInvs[named.Obj().Pkg().Path()+"."+named.Obj().Name()] {
				x := substIdent(cl.Expr, "self", par.Name())
				out[li.ordinal] = append(out[li.ordinal], &Clause{Kind: "invariant", Src: x.String(), Expr: x, Loop: li.ordinal, Cand: true, Tag: fmt.Sprintf("cand%d", len(out[li.ordinal]))})
			}
		}
		for _, fr := range frames {
			mk(fr + " == old(" + fr + ")")
			if strings.HasPrefix(fr, "deref(") || intFrame[fr] {
				mk(fr + " >= old(" + fr + ")")
			}
		}
		allInts := append(append([]string{}, ivars...), ints...)
		for _, v := range allInts {
			mk(v + " >= 0")
			mk(v + " >= -1")
			mk(v + " >= 1")
			for _, l := range append(append([]string{}, lens...), svars...) {
				mk(v + " <= len(" + l + ")")
				mk(v + " < len(" + l + ")")
			}
		}
		for _, v := range ivars {
			for _, w := range allInts {
				if v != w {
					mk(v + " <= " + w)
				}
			}
		}
		if len(out[li.ordinal]) > 120 {
			out[li.ordinal] = out[li.ordinal][:120]
		}
	}
	return out, nil
}

// houdini removes candidate invariants until the remaining set is inductive.
func (p *Program) houdini(vc *VC, cfg *CheckConfig, rep *FuncReport) error {
	for round := 0; round < 12; round++ {
		rep.Rounds = round + 1
		if err := vc.Encode(); err != nil {
			return err
		}
		axioms, err := vc.CompileAxioms(pkgOf(vc.Fn))
		if err != nil {
			return err
		}
		var todo []*Obligation
		emitted := map[*Clause]int{}
		for _, o := range vc.Obligations() {
			if o.CandOf != nil {
				todo = append(todo, o)
				emitted[o.CandOf]++
			}
		}
		fast := *cfg
		fast.Timeout = 3
		fast.Tier = "quick"
		fast.NoRetry = true
		vc.lightAssemble = true
		results := solveAll(vc, axioms, todo, &fast)
		vc.lightAssemble = false
		bad := map[*Clause]bool{}
		for _, r := range results {
			if !r.OK {
				bad[r.Obl.CandOf] = true
			}
		}
		total := 0
		for ord, cls := range vc.Opt.CandidateInvs {
			var keep []*Clause
			for _, cl := range cls {
				if bad[cl] || emitted[cl] < 2 {
					if emitted[cl] < 2 {
						bad[cl] = true
					}
					continue
				}
				keep = append(keep, cl)
			}
			vc.Opt.CandidateInvs[ord] = keep
			total += len(keep)
		}
		if len(bad) == 0 {
			break
		}
		if total == 0 {
			break
		}
	}
	for ord, cls := range vc.Opt.CandidateInvs {
		for _, cl := range cls {
			rep.Inferred[ord] = append(rep.Inferred[ord], cl.Src)
		}
		sort.Strings(rep.Inferred[ord])
	}
	return nil
}

// substIdent returns a copy of x with identifier from renamed to to.
func substIdent(x SExpr, from, to string) SExpr {
	switch n := x.(type) {
	case *SIdent:
		if n.Name == from {
			return &SIdent{to}
		}
		return n
	case *SUnary:
		return &SUnary{n.Op, substIdent(n.X, from, to)}
	case *SBinary:
		return &SBinary{n.Op, substIdent(n.X, from, to), substIdent(n.Y, from, to)}
	case *SCond:
		return &SCond{substIdent(n.C, from, to), substIdent(n.A, from, to), substIdent(n.B, from, to)}
	case *SCall:
		var args []SExpr
		for _, a := range n.Args {
			args = append(args, substIdent(a, from, to))
		}
		return &SCall{n.Fn, args}
	case *SSel:
		return &SSel{substIdent(n.X, from, to), n.Name}
	case *SIndex:
		return &SIndex{substIdent(n.X, from, to), substIdent(n.I, from, to)}
	case *SSlice:
		var lo, hi SExpr
		if n.Lo != nil {
			lo = substIdent(n.Lo, from, to)
		}
		if n.Hi != nil {
			hi = substIdent(n.Hi, from, to)
		}
		return &SSlice{substIdent(n.X, from, to), lo, hi}
	}
	return x
}

// InferVariants tries template termination measures for every loop of fn and prints, per loop, the first that proves.
func (p *Program) InferVariants(fn *ssa.Function, cfg *CheckConfig) map[int]string {
	c := p.Contract(fn)
	out := map[int]string{}
	opt := VCOptions{SafetyKinds: map[string]bool{}, SafetyProps: []string{cfg.Property}, InlineDepth: 3, CandidateInvs: map[int][]*Clause{}}
	vc := NewVC(p, fn, opt)
	cands, err := vc.candidateInvariants()
	if err != nil {
		return out
	}
	vc.Opt.CandidateInvs = cands
	rep := &FuncReport{Inferred: map[int][]string{}}
	if err := p.houdini(vc, cfg, rep); err != nil {
		return out
	}
	e := vc.newFnEnc(fn, "", true)
	e.analyseCFG()
	// expressions
	var ints, lens []string
	seen := map[string]bool{}
	for _, cls := range cands {
		for _, cl := range cls {
			// harvest names from candidate sources of the form "X >= 0" and "X <= len(Y)"
			if strings.HasSuffix(cl.Src, " >= 0") {
				x := strings.TrimSuffix(cl.Src, " >= 0")
				if !seen["i"+x] {
					seen["i"+x] = true
					ints = append(ints, x)
				}
			}
			if i := strings.Index(cl.Src, " <= len("); i > 0 {
				y := cl.Src[i+len(" <= len(") : len(cl.Src)-1]
				if !seen["l"+y] {
					seen["l"+y] = true
					lens = append(lens, y)
				}
			}
		}
	}
	saved := c
	for _, li := range e.loops {
		has := false
		if c != nil {
			for _, d := range c.Decs {
				if d.Loop == li.ordinal {
					has = true
				}
			}
		}
		if has {
			continue
		}
		var exprs []string
		for _, l := range lens {
			exprs = append(exprs, "len("+l+")")
			for _, v := range ints {
				exprs = append(exprs, "len("+l+") - "+v)
			}
		}
		for _, v := range ints {
			exprs = append(exprs, v)
		}
		for _, ex := range exprs {
			x, err := ParseSpecExpr(ex)
			if err != nil {
				continue
			}
			tmp := &FuncContract{}
			if saved != nil {
				cp := *saved
				tmp = &cp
			} else {
				tmp.Pkg = pkgOf(fn)
				tmp.Name = fn.RelString(fn.Pkg.Pkg)
				tmp.Extra = map[string][]string{}
			}
			tmp.Decs = append(append([]*Clause{}, tmp.Decs...), &Clause{Kind: "decreases", Src: ex, Expr: x, Loop: li.ordinal, Props: []string{cfg.Property}})
			p.Contracts.Funcs[FuncKey(fn)] = tmp
			vc2 := NewVC(p, fn, vc.Opt)
			ok := false
			if err := vc2.Encode(); err == nil {
				ax, _ := vc2.CompileAxioms(pkgOf(fn))
				var todo []*Obligation
				for _, o := range vc2.Obligations() {
					if o.Kind == "variant" && strings.Contains(o.Name, fmt.Sprintf("loop%d.", li.ordinal)) {
						todo = append(todo, o)
					}
				}
				fast := *cfg
				fast.Timeout = 3
				fast.NoRetry = true
				res := solveAll(vc2, ax, todo, &fast)
				ok = len(res) > 0
				for _, r := range res {
					if !r.OK {
						ok = false
					}
				}
			}
			if saved != nil {
				p.Contracts.Funcs[FuncKey(fn)] = saved
			} else {
				delete(p.Contracts.Funcs, FuncKey(fn))
			}
			if ok {
				out[li.ordinal] = ex
				break
			}
		}
	}
	return out
}
