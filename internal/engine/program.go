package engine

import (
	"fmt"
	"go/token"
	"go/types"
	"os"
	"path/filepath"
	"sort"
	"strings"

	"golang.org/x/tools/go/packages"
	"golang.org/x/tools/go/ssa"
	"golang.org/x/tools/go/ssa/ssautil"
)

const ModulePath = "luahelper-lsp"

type Program struct {
	RepoDir   string
	Fset      *token.FileSet
	Pkgs      []*packages.Package
	SSA       *ssa.Program
	ModPkgs   map[string]*ssa.Package
	TypesPkgs map[string]*types.Package // every loaded package by path
	Contracts *ContractSet
	Funcs     map[string]*ssa.Function // key -> function (module only, including anonymous)
	AllFuncs  []*ssa.Function
	Sorts     *Sorts
	Summ      map[*ssa.Function]*Summary
	Warnings  []string
	Lock      map[*ssa.Function]*lockInfo
	FrozenKeys map[string][]string
	FrozenErrors []string
	NonNilGlobals map[*ssa.Global]bool
	ContractSource string // "repo" or "mirror"
}

func FuncKey(fn *ssa.Function) string {
	if fn.Pkg == nil {
		if fn.Parent() != nil {
			return FuncKey(fn.Parent()) + "$?"
		}
		return fn.String()
	}
	return fn.Pkg.Pkg.Path() + "." + fn.RelString(fn.Pkg.Pkg)
}

func inModule(path string) bool {
	return path == ModulePath || strings.HasPrefix(path, ModulePath+"/")
}

func (p *Program) InModule(fn *ssa.Function) bool {
	if fn == nil {
		return false
	}
	if fn.Pkg != nil {
		return inModule(fn.Pkg.Pkg.Path())
	}
	if fn.Parent() != nil {
		return p.InModule(fn.Parent())
	}
	// synthetic wrappers / instantiations
	if o := fn.Object(); o != nil && o.Pkg() != nil {
		return inModule(o.Pkg().Path())
	}
	return false
}

// Load loads /repo's module with tag verif, builds SSA and reads the contract files.
func Load(repoDir, mirrorDir string) (*Program, error) {
	modDir := filepath.Join(repoDir, "luahelper-lsp")
	cfg := &packages.Config{
		Mode:       packages.LoadAllSyntax,
		Dir:        modDir,
		BuildFlags: []string{"-tags=verif"},
		Env:        append(os.Environ(), "GOFLAGS=-mod=mod", "GOPROXY=off", "GOSUMDB=off", "GOTOOLCHAIN=local"),
		Tests:      false,
	}
	pkgs, err := packages.Load(cfg, "./...")
	if err != nil {
		return nil, err
	}
	nerr := 0
	packages.Visit(pkgs, nil, func(p *packages.Package) {
		for _, e := range p.Errors {
			if inModule(p.PkgPath) {
				fmt.Fprintf(os.Stderr, "load error: %v\n", e)
				nerr++
			}
		}
	})
	if nerr > 0 {
		return nil, fmt.Errorf("%d load errors in module packages", nerr)
	}
	prog, _ := ssautil.AllPackages(pkgs, ssa.GlobalDebug)
	prog.Build()
	p := &Program{RepoDir: repoDir, SSA: prog, Pkgs: pkgs, ModPkgs: map[string]*ssa.Package{}, TypesPkgs: map[string]*types.Package{},
		Funcs: map[string]*ssa.Function{}, Sorts: NewSorts(), Summ: map[*ssa.Function]*Summary{}}
	if len(pkgs) > 0 {
		p.Fset = pkgs[0].Fset
	}
	packages.Visit(pkgs, nil, func(pk *packages.Package) {
		if pk.Types != nil {
			p.TypesPkgs[pk.PkgPath] = pk.Types
		}
	})
	for _, sp := range prog.AllPackages() {
		if inModule(sp.Pkg.Path()) {
			p.ModPkgs[sp.Pkg.Path()] = sp
		}
	}
	for fn := range ssautil.AllFunctions(prog) {
		if p.InModule(fn) {
			p.AllFuncs = append(p.AllFuncs, fn)
			if fn.Pkg != nil || fn.Parent() != nil {
				p.Funcs[FuncKey(fn)] = fn
			}
		}
	}
	sort.Slice(p.AllFuncs, func(i, j int) bool { return p.AllFuncs[i].String() < p.AllFuncs[j].String() })
	// contracts
	cs := &ContractSet{Specs: map[string]*SpecFunc{}, Funcs: map[string]*FuncContract{}}
	p.Contracts = cs
	n, err := p.loadContracts(modDir, "")
	if err != nil {
		return nil, err
	}
	p.ContractSource = "repo"
	if n == 0 && mirrorDir != "" {
		n, err = p.loadContracts(mirrorDir, modDir)
		if err != nil {
			return nil, err
		}
		p.ContractSource = "mirror"
	}
	p.expandDefaults()
	return p, nil
}

// expandDefaults turns package-level "default-nonnil x" into a requires clause on every contracted
// function of the package that has a pointer (or map) parameter named x.
func (p *Program) expandDefaults() {
	for key, c := range p.Contracts.Funcs {
		names := p.Contracts.DefaultNonNil[c.Pkg]
		if len(names) == 0 {
			continue
		}
		fn := p.Funcs[key]
		if fn == nil || c.IsTransparent() {
			continue
		}
		for _, par := range fn.Params {
			for _, n := range names {
				if par.Name() != n {
					continue
				}
				if _, ok := par.Type().Underlying().(*types.Pointer); !ok {
					continue
				}
				if fn.Signature.Recv() != nil && par == fn.Params[0] {
					continue
				}
				x, _ := ParseSpecExpr(n + " != nil")
				c.Requires = append(c.Requires, &Clause{Kind: "requires", Tag: "nonnil-" + n, Src: n + " != nil", Expr: x, File: c.File, Line: c.Line})
			}
		}
	}
}

// loadContracts reads every *_verif.go file under dir; package path is derived from the directory
// relative to dir. Returns the number of files read.
func (p *Program) loadContracts(dir, _ string) (int, error) {
	n := 0
	err := filepath.Walk(dir, func(path string, info os.FileInfo, err error) error {
		if err != nil {
			return nil
		}
		if info.IsDir() || !strings.HasSuffix(path, "_verif.go") {
			return nil
		}
		rel, _ := filepath.Rel(dir, filepath.Dir(path))
		pkgPath := ModulePath
		if rel != "." {
			pkgPath = ModulePath + "/" + filepath.ToSlash(rel)
		}
		data, err := os.ReadFile(path)
		if err != nil {
			return err
		}
		if err := p.Contracts.ParseContractText(pkgPath, path, string(data)); err != nil {
			return err
		}
		p.Contracts.Files = append(p.Contracts.Files, path)
		n++
		return nil
	})
	return n, err
}

// Contract returns the contract bound to fn, or nil.
func (p *Program) Contract(fn *ssa.Function) *FuncContract {
	if fn == nil {
		return nil
	}
	return p.Contracts.Funcs[FuncKey(fn)]
}

func (p *Program) Warn(format string, args ...interface{}) {
	p.Warnings = append(p.Warnings, fmt.Sprintf(format, args...))
}

// LookupType resolves a textual type used in spec declarations, relative to package pkgPath.
func (p *Program) LookupType(pkgPath, s string) (types.Type, error) {
	s = strings.TrimSpace(s)
	switch {
	case strings.HasPrefix(s, "[]"):
		t, err := p.LookupType(pkgPath, s[2:])
		if err != nil {
			return nil, err
		}
		return types.NewSlice(t), nil
	case strings.HasPrefix(s, "*"):
		t, err := p.LookupType(pkgPath, s[1:])
		if err != nil {
			return nil, err
		}
		return types.NewPointer(t), nil
	}
	for _, b := range types.Typ {
		if b.Name() == s {
			return b, nil
		}
	}
	switch s {
	case "byte":
		return types.Typ[types.Uint8], nil
	case "rune":
		return types.Typ[types.Int32], nil
	case "error":
		return types.Universe.Lookup("error").Type(), nil
	case "any":
		return types.Universe.Lookup("any").Type(), nil
	}
	if i := strings.Index(s, "."); i >= 0 {
		pn, tn := s[:i], s[i+1:]
		var cands []string
		for path, tp := range p.TypesPkgs {
			if tp.Name() == pn || filepath.Base(path) == pn {
				if o := tp.Scope().Lookup(tn); o != nil {
					if _, ok := o.(*types.TypeName); ok {
						cands = append(cands, path)
					}
				}
			}
		}
		sort.Strings(cands)
		// prefer module packages
		for _, c := range cands {
			if inModule(c) {
				return p.TypesPkgs[c].Scope().Lookup(tn).Type(), nil
			}
		}
		if len(cands) > 0 {
			return p.TypesPkgs[cands[0]].Scope().Lookup(tn).Type(), nil
		}
		return nil, fmt.Errorf("unknown type %q", s)
	}
	if tp := p.TypesPkgs[pkgPath]; tp != nil {
		if o := tp.Scope().Lookup(s); o != nil {
			if _, ok := o.(*types.TypeName); ok {
				return o.Type(), nil
			}
		}
	}
	return nil, fmt.Errorf("unknown type %q in %s", s, pkgPath)
}

// functionalByName finds a function with a "functional" contract by (optionally package-qualified) name.
func (p *Program) functionalByName(pkg, name string) *ssa.Function {
	var found *ssa.Function
	for key, c := range p.Contracts.Funcs {
		if !c.Functional {
			continue
		}
		short := c.Name
		if i := strings.Index(short, ")."); i >= 0 && short[i+2:] == name {
			short = name // a method, called in contracts as Method(receiver, args...)
		}
		if short == name || (strings.Contains(name, ".") && strings.HasSuffix(key, "/"+name)) || key == pkg+"."+name {
			if fn := p.Funcs[key]; fn != nil {
				if found == nil || c.Pkg == pkg {
					found = fn
				}
			}
		}
	}
	return found
}
