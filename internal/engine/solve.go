package engine

import (
	"bytes"
	"context"
	"fmt"
	"os"
	"os/exec"
	"path/filepath"
	"strings"
	"sync"
	"time"
)

type SolveResult struct {
	Status  string // unsat, sat, unknown, timeout, error
	Solver  string
	Time    float64
	Output  string
	Model   string
	File    string
	Size    int
	Answers map[string]string // per solver (thorough tier)
}

type Solver struct {
	Name string
	Args func(file string, timeoutS int) []string
	Bin  string
}

var Solvers = []Solver{
	{Name: "z3-5.1.0", Bin: "z3-new", Args: func(f string, t int) []string { return []string{fmt.Sprintf("-T:%d", t), f} }},
	{Name: "z3-4.8.12", Bin: "z3", Args: func(f string, t int) []string { return []string{fmt.Sprintf("-T:%d", t), f} }},
	{Name: "cvc5-1.0.3", Bin: "cvc5", Args: func(f string, t int) []string {
		return []string{fmt.Sprintf("--tlimit=%d", t*1000), "--arrays-exp", f}
	}},
}

func firstLine(s string) string {
	for _, l := range strings.Split(s, "\n") {
		l = strings.TrimSpace(l)
		if l == "" || strings.HasPrefix(l, "(error") && strings.Contains(l, "model is not available") {
			continue
		}
		return l
	}
	return ""
}

func runSolver(ctx context.Context, s Solver, file string, timeoutS int) (status, out string, dur float64) {
	start := time.Now()
	cctx, cancel := context.WithTimeout(ctx, time.Duration(timeoutS+2)*time.Second)
	defer cancel()
	cmd := exec.CommandContext(cctx, s.Bin, s.Args(file, timeoutS)...)
	var buf bytes.Buffer
	cmd.Stdout = &buf
	cmd.Stderr = &buf
	_ = cmd.Run()
	dur = time.Since(start).Seconds()
	out = buf.String()
	fl := firstLine(out)
	switch {
	case fl == "unsat":
		return "unsat", out, dur
	case fl == "sat":
		return "sat", out, dur
	case fl == "unknown":
		return "unknown", out, dur
	case fl == "timeout" || strings.Contains(out, "timeout") || cctx.Err() != nil:
		return "timeout", out, dur
	}
	return "error", out, dur
}

// Solve races the installed solvers on one query. expectSat relaxes which answers are definitive (cover checks).
func Solve(workDir, name, query string, timeoutS int, all bool) SolveResult {
	file := filepath.Join(workDir, sanitizeFile(name)+".smt2")
	_ = os.WriteFile(file, []byte(query), 0o644)
	res := SolveResult{File: file, Size: len(query), Answers: map[string]string{}}
	ctx, cancel := context.WithCancel(context.Background())
	defer cancel()
	type ans struct {
		s      Solver
		status string
		out    string
		dur    float64
	}
	ch := make(chan ans, len(Solvers))
	var wg sync.WaitGroup
	for _, s := range Solvers {
		wg.Add(1)
		go func(s Solver) {
			defer wg.Done()
			st, out, d := runSolver(ctx, s, file, timeoutS)
			ch <- ans{s, st, out, d}
		}(s)
	}
	go func() { wg.Wait(); close(ch) }()
	best := ans{status: ""}
	rank := map[string]int{"unsat": 5, "sat": 4, "unknown": 2, "timeout": 1, "error": 0, "": -1}
	var grace <-chan time.Time
loop:
	for {
		select {
		case a, ok := <-ch:
			if !ok {
				break loop
			}
			res.Answers[a.s.Name] = a.status
			definitive := a.status == "unsat" || (a.status == "sat" && strings.HasPrefix(a.s.Name, "z3"))
			if rank[a.status] > rank[best.status] {
				best = a
			}
			if definitive && !all {
				best = a
				cancel()
				break loop
			}
			if definitive && all && grace == nil {
				// cross-check tier: the other solvers get a few more seconds to agree or disagree, not the full limit
				grace = time.After(5 * time.Second)
			}
		case <-grace:
			cancel()
			break loop
		}
	}
	res.Status, res.Solver, res.Time, res.Output = best.status, best.s.Name, best.dur, best.out
	if all {
		// disagreement between solvers is an error of the tool chain, reported as such
		sawSat, sawUnsat := false, false
		for _, st := range res.Answers {
			if st == "sat" {
				sawSat = true
			}
			if st == "unsat" {
				sawUnsat = true
			}
		}
		if sawSat && sawUnsat {
			res.Status = "error"
			res.Output = fmt.Sprintf("solver disagreement: %v", res.Answers)
		}
	}
	return res
}

// GetModel re-runs z3 with (get-model) and returns the model text.
func GetModel(file string, timeoutS int) string {
	data, err := os.ReadFile(file)
	if err != nil {
		return ""
	}
	mf := strings.TrimSuffix(file, ".smt2") + ".model.smt2"
	_ = os.WriteFile(mf, append(data, []byte("(get-model)\n")...), 0o644)
	for _, bin := range []string{"z3-new", "z3"} {
		ctx, cancel := context.WithTimeout(context.Background(), time.Duration(timeoutS+2)*time.Second)
		out, _ := exec.CommandContext(ctx, bin, fmt.Sprintf("-T:%d", timeoutS), mf).CombinedOutput()
		cancel()
		if strings.HasPrefix(strings.TrimSpace(string(out)), "sat") {
			return string(out)
		}
	}
	return ""
}

func sanitizeFile(s string) string {
	var b strings.Builder
	for _, r := range s {
		if (r >= 'a' && r <= 'z') || (r >= 'A' && r <= 'Z') || (r >= '0' && r <= '9') || r == '.' || r == '-' || r == '_' {
			b.WriteRune(r)
		} else {
			b.WriteByte('_')
		}
	}
	out := b.String()
	if len(out) > 180 {
		out = out[len(out)-180:]
	}
	return out
}
