#!/usr/bin/env python3
# usage: scout_prompts.py <tag> [Cxx ...]  -> writes /tmp/seed/scout_<Cxx><tag>.txt and creates worktree /tmp/seed/<Cxx><tag>.
# A "scout" sub-agent gets only the property text and a scratch worktree of the UNMODIFIED repository (no contract
# files, nothing from /verif) and looks for inputs on which the current code already violates the property.
import json,os,sys,subprocess
tag=sys.argv[1]; only=sys.argv[2:]
tmpl='''You are testing an open-source Go project, Tencent/LuaHelper (a Lua language server), for EXISTING defects. You work ONLY inside the git worktree {wt} (the Go module is in {wt}/luahelper-lsp). Do not read or write anything under /verif or /repo. Do NOT change any non-test source file.

The property the server is supposed to have:

  id: {id}
  title: {title}
  statement: {statement}
  quantifier: {quant}
  relevant files (hints): {files}

Your job: find concrete inputs (Lua programs, cursor positions, request sequences, configurations) on which the CURRENT, unmodified code VIOLATES this property, and demonstrate each with a Go test.
 - Read the relevant code first and reason about where it can disagree with the property (boundary columns, both ends of an identifier, shadowing, nested closures, multi-assignment, unusual but valid syntax, non-ASCII text, CRLF, several files, iteration order of Go maps, ...). Then confirm by running: write in-package Go test files named zz_scout_*_test.go next to the code they exercise (the existing *_test.go files and {wt}/luahelper-lsp/langserver/lsptest.go show how to drive the server: createLspTest, TextDocumentDidOpen, TextDocumentDefine, TextDocumentReferences, TextDocumentHover, TextDocumentComplete, ...). Run with exactly:
      cd {wt}/luahelper-lsp && GOFLAGS=-mod=mod GOPROXY=off GOSUMDB=off GOTOOLCHAIN=local go test -vet=off -count=1 -timeout 120s -run <YourTest> ./<package>/
   (no network is available; always use those env vars).
 - Only report what you have CONFIRMED by a failing test on the unmodified code. Each demonstration must be a test that states what the property demands and fails today. Prefer small inputs. Distinct root causes matter more than many variations of one; aim for up to 5 distinct defects, ordered by how clearly they contradict the property statement. Do not report: crashes needing invalid UTF-8 or huge inputs, behaviour the statement explicitly exempts, or pure matters of taste.
 - For each defect, locate the responsible function(s) and say in 1-3 lines what a minimal repair would be (do not apply it).
{known}
Deliver in the worktree root {wt}:
  - the test files left in place (untracked), and one combined copy {wt}/scout_tests.go.txt (first line: a comment naming the package directory the tests belong in; if they belong to several packages, one file per package: scout_tests_<n>.go.txt);
  - findings.md : for each defect: a title, the input, expected vs actual, the responsible function (file:line), the suggested minimal repair, and the exact command + the failing output line.
When done, reply with the contents of findings.md.'''
known={
 'C05':'Already known (do not report again): a local is visible inside the table constructor that initialises it (`local t = {{ u = t }}`).',
 'C16':'Already known (do not report again): function types are printed as `function(...)` rather than `fun(...)`.',
}
props={}
for l in open('/verif/properties.jsonl'):
    d=json.loads(l); props[d['id']]=d
os.makedirs('/tmp/seed',exist_ok=True)
for pid in (only or sorted(props)):
    d=props[pid]; name=pid+tag; wt='/tmp/seed/'+name
    k=known.get(pid,'')
    t=tmpl.format(wt=wt,id=pid,title=d['title'],statement=d['statement'],quant=d['quantifier']['text'],files=', '.join(d['anchors']['files']),known=(k+'\n') if k else '')
    open('/tmp/seed/scout_%s.txt'%name,'w').write(t)
    if not os.path.exists(wt):
        subprocess.run(['/verif/mkseedwt.sh',name],stdout=subprocess.DEVNULL,check=True)
    print(name)
