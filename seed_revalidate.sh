#!/bin/bash
# usage: seed_revalidate.sh <seed id>: re-confirms a stored seed against /repo's current HEAD in a scratch worktree.
set -u
ID=$1; D=/verif/seeded/$ID
export GOFLAGS=-mod=mod GOPROXY=off GOSUMDB=off GOTOOLCHAIN=local
WT=/tmp/seedrv/$ID; rm -rf $WT; mkdir -p /tmp/seedrv
git -C /repo worktree add -q --detach $WT HEAD || exit 2
cd $WT
PKG=$(python3 -c "import json;print(json.load(open('$D/meta.json'))['demo_package_dir'])")
DEMO=$(python3 -c "import json;print(json.load(open('$D/meta.json'))['demo_file'])")
if ! git apply $D/patch.diff 2>/tmp/seedrv/$ID.apply.log; then echo "$ID: PATCH-DOES-NOT-APPLY"; git -C /repo worktree remove --force $WT; exit 1; fi
( cd luahelper-lsp && go build ./... && go test -vet=off -count=1 ./... > /tmp/seedrv/$ID.suite.log 2>&1 ); SUITE=$?
cp $D/demo_test.go.txt $PKG/$DEMO
( cd $PKG && timeout 300 go test -vet=off -count=1 -timeout 120s -run 'Seed|seed|ZZ' . > /tmp/seedrv/$ID.with.log 2>&1 ); WITH=$?
git apply -R $D/patch.diff
( cd $PKG && timeout 300 go test -vet=off -count=1 -timeout 120s -run 'Seed|seed|ZZ' . > /tmp/seedrv/$ID.without.log 2>&1 ); WITHOUT=$?
cd /; git -C /repo worktree remove --force $WT
if [ $SUITE -eq 0 ] && [ $WITH -ne 0 ] && [ $WITHOUT -eq 0 ]; then echo "$ID: STILL-VALID"; else echo "$ID: INVALID suite=$SUITE with=$WITH without=$WITHOUT"; fi
