#!/bin/bash
# usage: selftest.sh <property id>
# Must-fail corpus for one property (thorough tier): every seeded property-breaking change recorded under
# /verif/seeded/<seed>/ (patch.diff; each compiles and passes the repository's own tests) is applied to a
# SCRATCH COPY of /repo's current working tree, and the property's check is run on that copy. The check must
# report a violation there. /repo itself is never touched; the copy and the scratch verif dir are removed.
# exit 0: every applicable seed of the property was caught (or there is none); exit 2: a seed was missed (the check is
# too weak - a defect of the machinery, not a property violation). A seed whose patch no longer applies is skipped.
PROP=$1
V=$(cd "$(dirname "$0")" && pwd)
REPO=${LHV_REPO:-/repo}
export GOFLAGS=-mod=mod GOPROXY=off GOSUMDB=off GOTOOLCHAIN=local
rc=0; n=0
for d in "$V"/seeded/*/; do
  [ -f "$d/meta.json" ] || continue
  case "$(basename "$d")" in _*) continue;; esac
  p=$(python3 -c "import json,sys;print(json.load(open(sys.argv[1]))['property'])" "$d/meta.json")
  [ "$p" = "$PROP" ] || continue
  n=$((n+1))
  T=$(mktemp -d /tmp/lhv-selftest.XXXXXX)
  mkdir -p "$T/repo" "$T/verif"
  rsync -a --exclude .git "$REPO"/ "$T/repo"/
  cp "$V/known_findings.json" "$V/properties.jsonl" "$T/verif"/
  cp -r "$V/contracts" "$T/verif/contracts"; cp -r "$V/bounded" "$T/verif/bounded"
  if ! (cd "$T/repo" && patch -s -p1 < "$d/patch.diff"); then
    # the tree differs from the one the seed was made for (e.g. it was edited before this run): not a verdict
    echo "SELFTEST property=$PROP seed=$(basename "$d") result=skipped-patch-does-not-apply"
  else
    out=$("$V/bin/lhv" check --repo "$T/repo" --verif "$T/verif" --property "$PROP" --tier quick 2>&1)
    if echo "$out" | grep -q "^VIOLATION property=$PROP "; then
      echo "SELFTEST property=$PROP seed=$(basename "$d") result=caught by $(echo "$out" | grep -c '^VIOLATION') obligation(s)"
    else
      echo "SELFTEST property=$PROP seed=$(basename "$d") result=MISSED"; rc=2
    fi
  fi
  rm -rf "$T"
done
echo "SELFTEST property=$PROP seeds=$n exit=$rc"
exit $rc
