//go:build verif

// Contracts for package codingconv (comment-only; read by /verif's lhv).
// Property C13: UTF-8 text must pass through ConvertStrToUtf8 unaltered.
package codingconv

// ---- spec: structural UTF-8 (RFC 3629 byte classes; overlongs/surrogates not distinguished) ----

//@ spec lo8(b int) int = b < 128 ? 0 : (b < 192 ? 1 : (b < 224 ? 2 : (b < 240 ? 3 : (b < 248 ? 4 : (b < 252 ? 5 : (b < 254 ? 6 : (b < 255 ? 7 : 8)))))))
//@ spec norm8(d int) int = d >= 128 ? d : (d >= 64 ? d*2 : (d >= 32 ? d*4 : (d >= 16 ? d*8 : (d >= 8 ? d*16 : (d >= 4 ? d*32 : (d >= 2 ? d*64 : d*128))))))
//@ spec allOnes(d int) bool = d == 0 || d == 1 || d == 3 || d == 7 || d == 15 || d == 31 || d == 63 || d == 127 || d == 255
//@ spec finalCount(d int, i int) int = d == 0 ? i : (allOnes(d) ? i + lo8(norm8(d)) : lo8(norm8(d)))
//@ spec isCont(b int) bool = b >= 128 && b < 192
//@ spec uwidth(b int) int = b < 128 ? 1 : lo8(b)
//@ spec seqOK(s []byte, k int) bool = s[k] < 128
//@      || (s[k] >= 192 && s[k] < 224 && k+1 < len(s) && isCont(s[k+1]))
//@      || (s[k] >= 224 && s[k] < 240 && k+2 < len(s) && isCont(s[k+1]) && isCont(s[k+2]))
//@      || (s[k] >= 240 && s[k] < 248 && k+3 < len(s) && isCont(s[k+1]) && isCont(s[k+2]) && isCont(s[k+3]))
//@ rec V(s []byte, k int) bool
//@ axiom V_unfold: forall s []byte, k int :: V(s, k) :: V(s, k) && 0 <= k && k < len(s) ==> seqOK(s, k) && V(s, k + uwidth(s[k]))

//@ func preNUm
//@   sweep C01
//@   props C13
//@   ensures[leading-ones] result == finalCount(data, 0)
//@   loop 0 invariant 0 <= data && data <= 255 && i >= 0 && finalCount(data, i) == finalCount(old(data), 0)
//@   loop 0 decreases data
//@ end

//@ func isUtf8
//@   sweep C01
//@   props C13 C04
//@   ensures[accepts-valid-utf8] V(data, 0) ==> result
//@   ensures[C04,accepts-ascii] forall(k, 0, len(data), data[k] < 128) ==> result
//@   loop 0 invariant 0 <= i && i <= len(data) && (V(data, 0) ==> V(data, i))
//@   loop 1 invariant 0 <= j && j <= num - 1 && num > 1 && i - j - 1 >= 0 && i - j - 1 < len(data) && i <= len(data)
//@                    && (V(data, 0) ==> V(data, i - j - 1) && num == lo8(data[i - j - 1]))
//@ end

//@ func ConvertStrToUtf8
//@   props C13 C04
//@   ensures[utf8-unaltered] V(str, 0) ==> result == str
//@   ensures[C04,ascii-unaltered] forall(k, 0, len(str), str[k] < 128) ==> result == str
//@   assigns nothing
//@ end
