//go:build verif

// Contracts for package langserver (comment-only; read by /verif lhv).
// C01: every request handler establishes the cursor preconditions (non-empty text, offset within the
// text) of the byte-indexed helpers it calls. The handlers themselves are checked only as callers
// ("props C01" without "sweep": pre obligations of contracted callees).
package langserver

//@ func (*LspServer).beginFileRequest
//@   props C01
//@   ensures[offset-in-text] fileRequest.result ==> 0 <= fileRequest.offset && fileRequest.offset <= len(fileRequest.contents)
//@ end

//@ func (*LspServer).TextDocumentDefine
//@   props C01
//@ end

//@ func (*LspServer).handleAnnotateTypeDefine
//@   props C01
//@   sweep C01 -nil
//@   requires[cursor-in-text] len(contents) > 0 && 0 <= offset && offset < len(contents)
//@ end
// C05 / C13: the annotation lookup answers only for a cursor inside the ---@ comment; in front of it the line is code
//@ func (*LspServer).handleAnnotateTypeDefine
//@   props C05
//@   at call AnnotateTypeDefine#0 before assert[cursor-is-inside-the-annotation-comment] posCharacter >= beginIndex
//@ end
//@ func (*LspServer).handleAnnotateHover
//@   props C13
//@   at call AnnotateTypeHover#0 before assert[cursor-is-inside-the-annotation-comment] comResult.pos.Character >= beginIndex
//@ end

//@ func (*LspServer).TextDocumentHover
//@   props C01
//@ end
// C13: the documentation (the declaration's comment) reaches the answer by CONCATENATION - only the label and the
// separator line go through a format string (two fmt.Sprintf sites, both with constant formats); a third formatting
// call would interpret the '%' of a comment as a verb
//@ func (*LspServer).TextDocumentHover
//@   props C13
//@   ensures[only-label-and-separator-are-formatted] hits("Sprintf#2") == 0 && hits("Sprintf#0") <= 1 && hits("Sprintf#1") <= 1
//@   at call Sprintf#0 before assert[label-goes-through-a-constant-format] len(arg0) == 12
//@   at call Sprintf#1 before assert[separator-goes-through-a-constant-format] len(arg0) == 6
//@ end

//@ func (*LspServer).getHoverStr
//@   props C01
//@   requires[cursor-in-text] len(comResult.contents) > 0 && 0 <= comResult.offset && comResult.offset <= len(comResult.contents)
//@ end

//@ func (*LspServer).hoverOpenFile
//@   props C01
//@   requires[cursor-in-text] len(comResult.contents) > 0 && 0 <= comResult.offset && comResult.offset <= len(comResult.contents)
//@ end

//@ func (*LspServer).handleAnnotateHover
//@   props C01
//@   requires[cursor-in-text] len(comResult.contents) > 0 && 0 <= comResult.offset && comResult.offset <= len(comResult.contents)
//@ end

//@ func (*LspServer).TextDocumentHighlight
//@   props C01
//@ end

//@ func (*LspServer).TextDocumentReferences
//@   props C01
//@ end

//@ func (*LspServer).TextDocumentRename
//@   props C01
//@ end

//@ func (*LspServer).doSignatureHelp
//@   props C01
//@   sweep C01 -nil
//@   ensures[offset-in-text] comResult.result ==> len(comResult.contents) > 0 && 0 <= comResult.offset && comResult.offset <= len(comResult.contents)
//@ end

//@ func (*LspServer).TextDocumentSignatureHelp
//@   props C01
//@ end

// ---- C06 / C11 / C04: what the handlers do with the occurrences found ----
// references: the k-th answer is the k-th occurrence found (none dropped or reordered below the cap),
// converted by LocToRange (C04 contract: lines shifted to 0-based, columns copied).
//@ func (*LspServer).TextDocumentReferences
//@   props C06 C04
//@   at call append#0 before assert[C06,C04,kth-answer-is-kth-occurrence] len(locList) == i && 0 <= i && i < len(referenVecs)
//@        && (wfLoc(referenVecs[i].Loc.StartLine, referenVecs[i].Loc.StartColumn, referenVecs[i].Loc.EndLine, referenVecs[i].Loc.EndColumn) ==>
//@            arg1[0].Range.Start.Line == referenVecs[i].Loc.StartLine - 1 && arg1[0].Range.Start.Character == referenVecs[i].Loc.StartColumn
//@            && arg1[0].Range.End.Line == referenVecs[i].Loc.EndLine - 1 && arg1[0].Range.End.Character == referenVecs[i].Loc.EndColumn)
//@   loop range:referenVecs invariant [C06,C04] len(locList) == rangeindex + 1
//@ end

// rename: every edit replaces the range of one found occurrence by the new name and is filed under
// the document of that occurrence.
//@ func (*LspServer).TextDocumentRename
//@   props C11 C04
//@   at call append#0 before assert[C11,C04,edit-is-new-name-at-an-occurrence] streq(arg1[0].NewText, vs.NewName)
//@        && (wfLoc(referVarInfo.Loc.StartLine, referVarInfo.Loc.StartColumn, referVarInfo.Loc.EndLine, referVarInfo.Loc.EndColumn) ==>
//@            arg1[0].Range.Start.Line == referVarInfo.Loc.StartLine - 1 && arg1[0].Range.Start.Character == referVarInfo.Loc.StartColumn
//@            && arg1[0].Range.End.Line == referVarInfo.Loc.EndLine - 1 && arg1[0].Range.End.Character == referVarInfo.Loc.EndColumn)
//@   at call append#0 before assert[C11,edit-filed-under-the-occurrence-document] arg0 == edit.Changes[uriStr] && hits("GetFileDocumentURI#0") == hits("LocToRange#0")
//@   loop range:referenVecs invariant [C11] hits("GetFileDocumentURI#0") == hits("LocToRange#0")
//@ end

// ---- C08: what the client is left holding (publish / clear bookkeeping) ----
// fileErrorMap is the server's table of saved diagnostics, fileChangeErrorMap the table of live (unsaved
// buffer) syntax errors. A file with an entry in fileChangeErrorMap shows exactly those; otherwise it shows
// its saved diagnostics.

// every error of the list becomes one diagnostic of the one publish for that file
//@ func (*LspServer).pushFileErrList
//@   props C08
//@   at call sendDiagnostics#0 before assert[one-diagnostic-per-error] len(arg2.Diagnostics) == len(fileErrVec)
//@   loop range:fileErrVec invariant len(diagnostics.Diagnostics) == rangeindex + 1 && rangeindex + 1 <= len(fileErrVec)
//@   ensures[published-once] hits("sendDiagnostics#0") == 1
//@ end

//@ func (*LspServer).ClearOneFileDiagnostic
//@   props C08
//@   at call sendDiagnostics#0 before assert[clear-is-an-empty-publish] len(arg2.Diagnostics) == 0 && arg2.Diagnostics != nil
//@ end

// saved table -> client, after an analysis changed it
//@ func (*LspServer).pushAllDiagnosticsAgain
//@   props C08
//@   at call pushFileErrList#* before assert[saved-diagnostics-never-pushed-over-live-syntax-errors] !has(l.fileChangeErrorMap, arg2)
//@   at call ClearOneFileDiagnostic#0 before assert[saved-clear-never-wipes-live-syntax-errors] !has(l.fileChangeErrorMap, arg2)
//@   at call pushFileErrList#* before assert[pushes-the-new-list-of-that-file] streq(arg2, strFile) && arg3 == newErrList
//@   at call ClearOneFileDiagnostic#0 before assert[clears-only-files-without-diagnostics-now] streq(arg2, strFile) && !has(fileErrorMap, strFile)
//@   ensures[table-replaced-by-the-new-analysis] l.fileErrorMap == fileErrorMap
//@ end

// live errors of an unsaved buffer replace what the file showed
//@ func (*LspServer).InsertChangeFileErr
//@   props C08
//@   at call pushFileChangeDiagnostic#0 before assert[live-errors-recorded-then-shown] has(l.fileChangeErrorMap, strFile) && l.fileChangeErrorMap[strFile] == errList && streq(arg2, strFile)
//@ end

// the buffer is syntactically fine again: its live errors go and the saved non-syntax diagnostics come back
//@ func (*LspServer).ClearChangeFileErr
//@   props C08
//@   at call pushFileDiagnostic#0 before assert[saved-non-syntax-diagnostics-restored] !has(l.fileChangeErrorMap, strFile) && hits("ClearOneFileDiagnostic#0") == 1 && streq(arg2, strFile) && arg3
//@ end

// save: no live errors remain; the file shows its saved diagnostics (all of them) or nothing
//@ func (*LspServer).SaveOneFilePushAgain
//@   props C08
//@   at call pushFileDiagnostic#0 before assert[saved-diagnostics-shown-in-full] !has(l.fileChangeErrorMap, strFile) && has(l.fileErrorMap, strFile) && !arg3 && streq(arg2, strFile)
//@   at call ClearOneFileDiagnostic#0 before assert[nothing-to-show] !has(l.fileChangeErrorMap, strFile) && !has(l.fileErrorMap, strFile) && streq(arg2, strFile)
//@   ensures[exactly-one-publish] hits("pushFileDiagnostic#0") + hits("ClearOneFileDiagnostic#0") == 1
//@ end

// the filtered re-publish: every saved error except syntax errors when asked to ignore them
//@ func (*LspServer).pushFileDiagnostic
//@   props C08
//@   at call append#0 before assert[syntax-errors-dropped-only-when-asked] !(oneErr.ErrType == common.CheckErrorSyntax && ignoreSyntax)
//@   loop range:fileErrVec step [every-other-error-is-published] !(oneErr.ErrType == common.CheckErrorSyntax && ignoreSyntax)
//@        ==> len(diagnostics.Diagnostics) == prev(len(diagnostics.Diagnostics)) + 1
//@ end

// ---- C02: the document-sync handlers hand the client's data on unmodified ----
// didOpen / didSave store exactly the text of the notification under the document's path; didChange applies ALL content
// changes of the notification, in their order, to the text currently cached for that path and stores the result;
// didClose drops the cached text.
//@ func (*LspServer).TextDocumentDidOpen
//@   props C02
//@   at call SetFileContent#0 before assert[open-stores-the-text-of-the-notification] streq(arg1, strFile) && view(arg2) == vs.TextDocument.Text
// ... and it is the opened text that is analysed from then on, as after a didChange (until fix 985e2e7 the file on disk was)
//@   at call HandleFileChangeAnalysis#0 before assert[C02,C08,opened-text-is-analysed] streq(arg1, strFile) && arg2 == contents && hits("SetFileContent#0") == 1
//@   at call GetFileContent#0 before assert[C02,C08,opened-text-is-analysed] streq(arg1, strFile)
//@ end
//@ func (*LspServer).TextDocumentDidChange
//@   props C02
//@   requires[protocol-conformant] forall(k, 0, len(vs.ContentChanges), vs.ContentChanges[k].Range == nil ==> vs.ContentChanges[k].RangeLength == 0)
//@   at call ApplyContentChanges#0 before assert[every-change-of-the-notification-is-applied-in-order] streq(arg1, strFile) && arg2 == contents && arg3 == vs.ContentChanges
//@   at call SetFileContent#0 before assert[change-stores-the-result-of-the-edits] streq(arg1, strFile) && arg2 == changeContents && hits("ApplyContentChanges#0") == 1
//@   at call GetFileContent#0 before assert[edits-apply-to-the-cached-text-of-that-document] streq(arg1, strFile)
// the last sentence of the property: a change the server cannot apply is REPORTED (the handler returns the error) and the
// stale copy is dropped - no later request is answered from it (until the fix: a log line, and business as usual)
//@   ensures[an-edit-that-cannot-be-applied-is-reported-and-the-stale-copy-dropped] hits("ApplyContentChanges#0") == 1 && hits("SetFileContent#0") == 0
//@        ==> nonnil(result) && hits("DelFileContent#0") == 1 && hits("RemoveCacheContent#0") == 1
//@   at call DelFileContent#0 before assert[the-stale-copy-of-that-document-is-dropped] streq(arg1, strFile)
//@ end
//@ func (*LspServer).TextDocumentDidSave
//@   props C02
//@   at call SetFileContent#0 before assert[save-stores-the-text-of-the-notification] streq(arg1, strFile) && view(arg2) == deref(vs.Text)
//@ end
//@ func (*LspServer).TextDocumentDidClose
//@   props C02
//@   at call DelFileContent#0 before assert[close-drops-the-cached-text-of-that-document] streq(arg1, strFile)
//@ end
// C08: after a close the client holds what the file on disk gets, its syntax errors included (fix 93fc2f9)
//@ func (*LspServer).TextDocumentDidClose
//@   props C08
//@   at call SaveOneFilePushAgain#0 before assert[closed-file-gets-the-diagnostics-of-the-file-on-disk] streq(arg2, strFile)
//@ end
// C01: the saved text is optional in the protocol - a notification without it must not take the server down
//@ func (*LspServer).TextDocumentDidSave
//@   props C01
//@   at call SetFileContent#0 before assert[the-text-is-dereferenced-only-when-there-is-one] vs.Text != nil
//@ end
// C08: a save of a file the project does not know (deleted by another program, written again by the save) enters as created
//@ func (*LspServer).TextDocumentDidSave
//@   props C08
//@   at call HandleFileEventChanges#0 before assert[saved-file-enters-as-created-iff-the-project-does-not-know-it] len(arg1) == 1 && streq(arg1[0].StrFile, strFile)
//@        && (arg1[0].Type == check.FileEventCreated <==> !lastresult("IsInAllFilesMap#0")) && (arg1[0].Type == check.FileEventChanged <==> lastresult("IsInAllFilesMap#0"))
//@ end

// ---- C14: the first-character pre-filter of completion candidates ----
// candidates are pre-filtered by "contains one of two characters"; so that every name that STARTS with the typed prefix
// passes, the typed first character itself is one of the two (the other is its other-case form)
//@ func getComplelteStruct
//@   props C14
//@   ensures[the-typed-first-character-itself-passes-the-filter] flag && completeVar.FilterCharacterFlag ==> len(completeVar.StrVec) == 1 && len(completeVar.StrVec[0]) >= 1
//@        && (completeVar.FilterOneChar == completeVar.StrVec[0][0] || completeVar.FilterTwoChar == completeVar.StrVec[0][0])
//@ end

// C08 (second sentence) / C02: the live analysis of an edited buffer is made from the buffer's text - nil would make
// the analysis read the file from disk instead (analysisFirstLuaFile: "content == nil: no text given")
//@ func (*LspServer).TextDocumentDidChange
//@   props C02 C08
//@   at call HandleFileChangeAnalysis#0 before assert[live-analysis-gets-the-buffer-text-itself] arg2 != nil && streq(arg1, strFile)
//@ end

// ---- C19: what the two symbol handlers hand to the client ----
// workspace/symbol: the k-th answer is the k-th symbol found, under its own name, in its declaring file, at its
// declaration (LocToRange of its location; C04 contract); nothing found is dropped.
//@ func (*LspServer).WorkspaceSymbolRequest
//@   props C19 C04
//@   at call GetFileDocumentURI#0 before assert[C19,answer-names-the-declaring-file] streq(arg0, oneSymbol.FileName)
//@   at call append#0 before assert[C19,kth-answer-is-appended-at-k] len(items) == rangeindex + 1 && 0 <= rangeindex + 1 && rangeindex + 1 < len(fileSymbolVec)
//@   at call append#0 before assert[C19,answer-carries-the-symbols-name-and-file] streq(arg1[0].Name, oneSymbol.Name) && arg1[0].Location.URI == lastresult("GetFileDocumentURI#0")
//@   at call append#0 before assert[C19,C04,answer-is-at-the-symbols-declaration] wfLoc(oneSymbol.Loc.StartLine, oneSymbol.Loc.StartColumn, oneSymbol.Loc.EndLine, oneSymbol.Loc.EndColumn) ==>
//@            arg1[0].Location.Range.Start.Line == oneSymbol.Loc.StartLine - 1 && arg1[0].Location.Range.Start.Character == oneSymbol.Loc.StartColumn
//@            && arg1[0].Location.Range.End.Line == oneSymbol.Loc.EndLine - 1 && arg1[0].Location.Range.End.Character == oneSymbol.Loc.EndColumn
//@   at call append#0 before assert[C19,kth-answer-is-a-copy-of-the-kth-symbol] streq(oneSymbol.Name, fileSymbolVec[rangeindex + 1].Name) && oneSymbol.Loc.StartLine == fileSymbolVec[rangeindex + 1].Loc.StartLine
//@        && oneSymbol.Loc.StartColumn == fileSymbolVec[rangeindex + 1].Loc.StartColumn && oneSymbol.Loc.EndLine == fileSymbolVec[rangeindex + 1].Loc.EndLine && oneSymbol.Loc.EndColumn == fileSymbolVec[rangeindex + 1].Loc.EndColumn
//@   loop range:fileSymbolVec invariant [C19,C04] len(items) == rangeindex + 1 && rangeindex + 1 <= len(fileSymbolVec)
//@   loop range:fileSymbolVec exits-early-only-if [C19,every-found-symbol-is-answered] false
//@ end

// document outline: one entry per symbol, in order, its range the symbol's location (which for a function or a table
// with members is the extent of the declaration, starting at the declaring identifier - FuncSymbolLoc, FindAllLocalVal);
// the children of an entry are converted from the symbol's own children. (Nothing is claimed about selectionRange: the
// server sets it to the same extent, where LSP means the identifier alone - read, not decided here.)
//@ func transferSymbolVec
//@   props C19 C04
//@   at call append#0 before assert[C19,kth-outline-entry-is-appended-at-k] len(items) == rangeindex + 1 && 0 <= rangeindex + 1 && rangeindex + 1 < len(fileSymbolVec)
//@   at call append#0 before assert[C19,C04,outline-entry-is-at-the-symbols-declaration] wfLoc(oneSymbol.Loc.StartLine, oneSymbol.Loc.StartColumn, oneSymbol.Loc.EndLine, oneSymbol.Loc.EndColumn) ==>
//@            arg1[0].Range.Start.Line == oneSymbol.Loc.StartLine - 1 && arg1[0].Range.Start.Character == oneSymbol.Loc.StartColumn
//@            && arg1[0].Range.End.Line == oneSymbol.Loc.EndLine - 1 && arg1[0].Range.End.Character == oneSymbol.Loc.EndColumn
//@   at call append#0 before assert[C19,kth-outline-entry-is-a-copy-of-the-kth-symbol] oneSymbol.Loc.StartLine == fileSymbolVec[rangeindex + 1].Loc.StartLine
//@        && oneSymbol.Loc.StartColumn == fileSymbolVec[rangeindex + 1].Loc.StartColumn && oneSymbol.Loc.EndLine == fileSymbolVec[rangeindex + 1].Loc.EndLine && oneSymbol.Loc.EndColumn == fileSymbolVec[rangeindex + 1].Loc.EndColumn
//@   at call transferSymbolVec#0 before assert[C19,children-are-converted-from-the-symbols-own-children] arg0 == oneSymbol.Children
//@   loop range:fileSymbolVec invariant [C19,C04] len(items) == rangeindex + 1 && rangeindex + 1 <= len(fileSymbolVec)
//@   loop range:fileSymbolVec exits-early-only-if [C19,every-symbol-becomes-an-outline-entry] false
//@   ensures[C19,one-outline-entry-per-symbol] len(items) == len(fileSymbolVec)
//@ end
