//go:build verif

// Contracts for package langserver (comment-only; read by /verif lhv).
// C01: every request handler establishes the cursor preconditions (non-empty text, offset within the
// text) of the byte-indexed helpers it calls. The handlers themselves are checked only as callers
// ("props C01" without "sweep": pre obligations of contracted callees).
package langserver

//@ func (*LspServer).beginFileRequest
//@   props C01
//@   ensures[offset-in-text] fileRequest.result ==> 0 <= fileRequest.offset && fileRequest.offset <= len(fileRequest.contents)
//@ end

//@ func (*LspServer).TextDocumentDefine
//@   props C01
//@ end

//@ func (*LspServer).handleAnnotateTypeDefine
//@   props C01
//@   sweep C01 -nil
//@   requires[cursor-in-text] len(contents) > 0 && 0 <= offset && offset < len(contents)
//@ end

//@ func (*LspServer).TextDocumentHover
//@   props C01
//@ end

//@ func (*LspServer).getHoverStr
//@   props C01
//@   requires[cursor-in-text] len(comResult.contents) > 0 && 0 <= comResult.offset && comResult.offset <= len(comResult.contents)
//@ end

//@ func (*LspServer).hoverOpenFile
//@   props C01
//@   requires[cursor-in-text] len(comResult.contents) > 0 && 0 <= comResult.offset && comResult.offset <= len(comResult.contents)
//@ end

//@ func (*LspServer).handleAnnotateHover
//@   props C01
//@   requires[cursor-in-text] len(comResult.contents) > 0 && 0 <= comResult.offset && comResult.offset <= len(comResult.contents)
//@ end

//@ func (*LspServer).TextDocumentHighlight
//@   props C01
//@ end

//@ func (*LspServer).TextDocumentReferences
//@   props C01
//@ end

//@ func (*LspServer).TextDocumentRename
//@   props C01
//@ end

//@ func (*LspServer).doSignatureHelp
//@   props C01
//@   sweep C01 -nil
//@   ensures[offset-in-text] comResult.result ==> len(comResult.contents) > 0 && 0 <= comResult.offset && comResult.offset <= len(comResult.contents)
//@ end

//@ func (*LspServer).TextDocumentSignatureHelp
//@   props C01
//@ end

// ---- C06 / C11 / C04: what the handlers do with the occurrences found ----
// references: the k-th answer is the k-th occurrence found (none dropped or reordered below the cap),
// converted by LocToRange (C04 contract: lines shifted to 0-based, columns copied).
//@ func (*LspServer).TextDocumentReferences
//@   props C06 C04
//@   at call append#0 before assert[C06,C04,kth-answer-is-kth-occurrence] len(locList) == i && 0 <= i && i < len(referenVecs)
//@        && (wfLoc(referenVecs[i].Loc.StartLine, referenVecs[i].Loc.StartColumn, referenVecs[i].Loc.EndLine, referenVecs[i].Loc.EndColumn) ==>
//@            arg1[0].Range.Start.Line == referenVecs[i].Loc.StartLine - 1 && arg1[0].Range.Start.Character == referenVecs[i].Loc.StartColumn
//@            && arg1[0].Range.End.Line == referenVecs[i].Loc.EndLine - 1 && arg1[0].Range.End.Character == referenVecs[i].Loc.EndColumn)
//@   loop range:referenVecs invariant [C06,C04] len(locList) == rangeindex + 1
//@ end

// rename: every edit replaces the range of one found occurrence by the new name and is filed under
// the document of that occurrence.
//@ func (*LspServer).TextDocumentRename
//@   props C11 C04
//@   at call append#0 before assert[C11,C04,edit-is-new-name-at-an-occurrence] streq(arg1[0].NewText, vs.NewName)
//@        && (wfLoc(referVarInfo.Loc.StartLine, referVarInfo.Loc.StartColumn, referVarInfo.Loc.EndLine, referVarInfo.Loc.EndColumn) ==>
//@            arg1[0].Range.Start.Line == referVarInfo.Loc.StartLine - 1 && arg1[0].Range.Start.Character == referVarInfo.Loc.StartColumn
//@            && arg1[0].Range.End.Line == referVarInfo.Loc.EndLine - 1 && arg1[0].Range.End.Character == referVarInfo.Loc.EndColumn)
//@   at call append#0 before assert[C11,edit-filed-under-the-occurrence-document] arg0 == edit.Changes[uriStr] && hits("GetFileDocumentURI#0") == hits("LocToRange#0")
//@   loop range:referenVecs invariant [C11] hits("GetFileDocumentURI#0") == hits("LocToRange#0")
//@ end
