//go:build verif

// Contracts for package langserver (comment-only; read by /verif lhv).
// C01: every request handler establishes the cursor preconditions (non-empty text, offset within the
// text) of the byte-indexed helpers it calls. The handlers themselves are checked only as callers
// ("props C01" without "sweep": pre obligations of contracted callees).
package langserver

//@ func (*LspServer).beginFileRequest
//@   props C01
//@   ensures[offset-in-text] fileRequest.result ==> 0 <= fileRequest.offset && fileRequest.offset <= len(fileRequest.contents)
//@ end

//@ func (*LspServer).TextDocumentDefine
//@   props C01
//@ end

//@ func (*LspServer).handleAnnotateTypeDefine
//@   props C01
//@   sweep C01 -nil
//@   requires[cursor-in-text] len(contents) > 0 && 0 <= offset && offset < len(contents)
//@ end

//@ func (*LspServer).TextDocumentHover
//@   props C01
//@ end

//@ func (*LspServer).getHoverStr
//@   props C01
//@   requires[cursor-in-text] len(comResult.contents) > 0 && 0 <= comResult.offset && comResult.offset <= len(comResult.contents)
//@ end

//@ func (*LspServer).hoverOpenFile
//@   props C01
//@   requires[cursor-in-text] len(comResult.contents) > 0 && 0 <= comResult.offset && comResult.offset <= len(comResult.contents)
//@ end

//@ func (*LspServer).handleAnnotateHover
//@   props C01
//@   requires[cursor-in-text] len(comResult.contents) > 0 && 0 <= comResult.offset && comResult.offset <= len(comResult.contents)
//@ end

//@ func (*LspServer).TextDocumentHighlight
//@   props C01
//@ end

//@ func (*LspServer).TextDocumentReferences
//@   props C01
//@ end

//@ func (*LspServer).TextDocumentRename
//@   props C01
//@ end

//@ func (*LspServer).doSignatureHelp
//@   props C01
//@   sweep C01 -nil
//@   ensures[offset-in-text] comResult.result ==> len(comResult.contents) > 0 && 0 <= comResult.offset && comResult.offset <= len(comResult.contents)
//@ end

//@ func (*LspServer).TextDocumentSignatureHelp
//@   props C01
//@ end
