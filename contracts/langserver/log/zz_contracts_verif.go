//go:build verif

// Contracts for package log (comment-only; read by /verif lhv).
// Debug/Error format a message and hand it to the standard library logger. TRUSTED frame: logging
// does not modify any state of the language server that the contracts talk about (it writes only
// to the log file / logger internals). Their bodies are not verified.
package log

//@ func Debug
//@   trusted
//@   props C01 C02 C04 C05 C06 C07 C08 C09 C10 C11 C13 C14 C15 C16 C17 C18 C19 C20
//@   assigns nothing
//@ end

//@ func Error
//@   trusted
//@   props C01 C02 C04 C05 C06 C07 C08 C09 C10 C11 C13 C14 C15 C16 C17 C18 C19 C20
//@   assigns nothing
//@ end
