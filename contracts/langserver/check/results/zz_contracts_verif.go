//go:build verif

// Contracts for package results (comment-only; read by /verif lhv).
// C09: when several files define the same global, the definition that wins must not depend on the
// order in which the files happen to be visited (generateAllGlobalMaps ranges over a Go map).
// JudgeShouldInsertGlobalInfo lets a new definition in iff it "beats" every recorded definition of
// another file; FindThirdGlobalGInfo answers with the last one let in. That is order-independent iff
// "beats" is a strict total order on definitions from different files - the two lemmas below.
package results

// rank(FuncLv, ScopeLv, StartLine, file): lexicographic, file name last.
//@ spec beats(nf int, ns int, nl int, nfile int, of int, os int, ol int, ofile int) bool =
//@      nf < of || (nf == of && (ns < os || (ns == os && (nl < ol || (nl == ol && nfile < ofile)))))

//@ lemma beats_total [C09]: forall af int, as int, al int, afile int, bf int, bs int, bl int, bfile int ::
//@      afile != bfile ==> (beats(af, as, al, afile, bf, bs, bl, bfile) != beats(bf, bs, bl, bfile, af, as, al, afile))
//@ lemma beats_transitive [C09]: forall af int, as int, al int, afile int, bf int, bs int, bl int, bfile int, cf int, cs int, cl int, cfile int ::
//@      beats(af, as, al, afile, bf, bs, bl, bfile) && beats(bf, bs, bl, bfile, cf, cs, cl, cfile) ==> beats(af, as, al, afile, cf, cs, cl, cfile)

//@ func (*AnalysisThird).JudgeShouldInsertGlobalInfo
//@   props C09
//@   requires varInfo != nil && varInfo.ExtraGlobal != nil
//@   requires forall(k, 0, len(third.GlobalVarMaps[strName].VarVec), third.GlobalVarMaps[strName].VarVec[k] != nil && third.GlobalVarMaps[strName].VarVec[k].ExtraGlobal != nil)
//@   ensures[judge-is-beats-all] has(third.GlobalVarMaps, strName) && third.GlobalVarMaps[strName] != nil ==>
//@        (result <==> forall(k, 0, len(third.GlobalVarMaps[strName].VarVec),
//@            streq(third.GlobalVarMaps[strName].VarVec[k].FileName, varInfo.FileName)
//@            || beats(varInfo.ExtraGlobal.FuncLv, varInfo.ExtraGlobal.ScopeLv, varInfo.Loc.StartLine, strord(varInfo.FileName),
//@                     third.GlobalVarMaps[strName].VarVec[k].ExtraGlobal.FuncLv, third.GlobalVarMaps[strName].VarVec[k].ExtraGlobal.ScopeLv,
//@                     third.GlobalVarMaps[strName].VarVec[k].Loc.StartLine, strord(third.GlobalVarMaps[strName].VarVec[k].FileName))))
//@   loop 0 invariant rangeindex >= -1 && forall(k, 0, rangeindex + 1,
//@            streq(third.GlobalVarMaps[strName].VarVec[k].FileName, varInfo.FileName)
//@            || beats(varInfo.ExtraGlobal.FuncLv, varInfo.ExtraGlobal.ScopeLv, varInfo.Loc.StartLine, strord(varInfo.FileName),
//@                     third.GlobalVarMaps[strName].VarVec[k].ExtraGlobal.FuncLv, third.GlobalVarMaps[strName].VarVec[k].ExtraGlobal.ScopeLv,
//@                     third.GlobalVarMaps[strName].VarVec[k].Loc.StartLine, strord(third.GlobalVarMaps[strName].VarVec[k].FileName)))
//@ end

// ---- C06 / C11: the occurrence matcher of find-references and rename ----
// Symbol identity is (file, declaration Loc, name). MatchVarInfo is the only place that collects an
// occurrence: it must collect exactly when the declaration a use resolved to IS the target symbol.
//@ spec sameLoc(a lexer.Location, b lexer.Location) bool = a.StartLine == b.StartLine && a.EndLine == b.EndLine && a.StartColumn == b.StartColumn && a.EndColumn == b.EndColumn

// A target, once set, has at least its own name in the suffix list (SetFindReferenceInfo is the only writer).
//@ typeinv ReferenceFileResult [C06,C11]: self.findSymbol != nil ==> len(self.referSuffVec) >= 1

//@ func (*ReferenceFileResult).SetFindReferenceInfo
//@   props C06 C11
//@   requires[a-target-comes-with-its-name] varInfo != nil ==> len(referSuffVec) >= 1
//@   ensures[target-is-recorded] r.fileName == strName && r.findSymbol == varInfo && r.referSuffVec == referSuffVec
//@ end

//@ func (*ReferenceFileResult).MatchVarInfo
//@   props C06 C11
//@   ensures[collects-only-uses-of-the-target-declaration] result ==> old(r.findSymbol) != nil && varInfo != nil && streq(old(r.fileName), fileName)
//@        && sameLoc(old(r.findSymbol.Loc), old(varInfo.Loc))
//@   ensures[collects-only-the-target-name] result && !excludeRequire ==> streq(old(r.referSuffVec[0]), strName)
//@   ensures[one-location-per-match] len(r.FindLocVec) == old(len(r.FindLocVec)) + (result ? 1 : 0)
//@   ensures[plain-name-match-is-complete] old(r.findSymbol) != nil && varInfo != nil && streq(old(r.fileName), fileName) && !excludeRequire
//@        && len(old(r.referSuffVec)) == 1 && streq(old(r.referSuffVec[0]), strName) && len(strPreExp) == 0
//@        && sameLoc(old(r.findSymbol.Loc), old(varInfo.Loc))
//@        && (typeis(nameExp, "*ast.NameExp") ==> streq(as(nameExp, "*ast.NameExp").Name, old(r.referSuffVec[0]))) ==> result
// an occurrence is spelled with the name searched: the `self` of a colon method, which callers resolve to the method's
// table, is not an occurrence of the table variable (rename rewrote it until fix 1bf1f02)
//@   ensures[plain-name-occurrence-is-spelled-with-the-name] result && len(old(r.referSuffVec)) == 1 && !excludeRequire && typeis(nameExp, "*ast.NameExp")
//@        ==> streq(as(nameExp, "*ast.NameExp").Name, old(r.referSuffVec[0]))
//@   ensures[target-unchanged] r.findSymbol == old(r.findSymbol) && r.fileName == old(r.fileName) && r.referSuffVec == old(r.referSuffVec)
//@ end

// ---- C08: which files get their require/dofile targets re-resolved after a creation or deletion ----
// A file whose reference was resolved to a created/deleted path must be re-resolved (a fresh start would).
// (stated for reference lists without nil entries - the only kind the analysis builds; a nil entry would panic here)
//@ func (*FileResult).isReferFileContainFiles
//@   props C08
//@   ensures[reference-resolved-to-a-changed-file-forces-re-resolution] forall(k, 0, len(f.ReferVec), f.ReferVec[k] != nil)
//@        && exists(k, 0, len(f.ReferVec), has(needReferFileMap, f.ReferVec[k].ReferValidStr)) ==> result
//@   loop range:f.ReferVec invariant rangeindex >= -1 && (forall(k, 0, len(f.ReferVec), f.ReferVec[k] != nil) ==>
//@        forall(k, 0, rangeindex + 1, !has(needReferFileMap, f.ReferVec[k].ReferValidStr)))
//@ end

// ReanalyseReferInfo: unless skipped (no missing-file error, no reference touching a changed file), every reference is
// re-resolved and the stale missing-file errors are dropped first.
//@ func (*FileResult).ReanalyseReferInfo
//@   props C08
//@   at call CheckReferFile#0 before assert[re-resolution-runs-on-the-current-file-table] arg2 == allFilesMap && arg3 == fileIndexInfo && arg1 == oneRefer && oneRefer.Valid
//@   loop range:f.CheckErrVec step [only-missing-file-errors-are-dropped] oneError.ErrType != common.CheckErrorNoFile ==> len(newErrVec) == prev(len(newErrVec)) + 1
//@ end

// C18 ("the answer changes as soon as such a file is created"): a file that carries a missing-file diagnostic is
// re-resolved on every file event, whichever spelling the unresolved module has -- every reference of it once.
// (C08 as well: a stale missing-file diagnostic after the file was created is a difference from a fresh start - seed C08-rescan-only-on-textual-suffix-match)
//@ func (*FileResult).isHasErrorNoFile
//@   props C18 C08
//@   assigns nothing
//@   ensures[true-iff-a-missing-file-diagnostic-is-held] result == exists(j, 0, len(f.CheckErrVec), f.CheckErrVec[j].ErrType == common.CheckErrorNoFile)
//@   loop 0 invariant rangeindex >= -1 && forall(j, 0, rangeindex + 1, f.CheckErrVec[j].ErrType != common.CheckErrorNoFile)
//@ end
//@ func (*FileResult).ReanalyseReferInfo
//@   props C18 C08
//@   requires fileIndexInfo != nil && forall(j, 0, len(f.ReferVec), f.ReferVec[j] != nil)
//@   ensures[file-with-a-missing-reference-is-always-rescanned] old(exists(j, 0, len(f.CheckErrVec), f.CheckErrVec[j].ErrType == common.CheckErrorNoFile))
//@        ==> hits("CheckReferFile#0") == old(len(f.ReferVec))
//@   loop range:f.ReferVec invariant hits("CheckReferFile#0") == rangeindex + 1 && rangeindex + 1 <= old(len(f.ReferVec))
//@   loop range:f.ReferVec exits-early-only-if [every-reference-is-re-resolved] false
//@   loop range:f.ReferVec step [every-reference-is-re-resolved] hits("CheckReferFile#0") == prev(hits("CheckReferFile#0")) + 1
//@ end

//@ func CreateReferenceFileResult
//@   props C06 C11
//@   ensures[fresh-empty-result] result != nil && len(result.FindLocVec) == 0 && streq(result.StrFile, strFile) && result.findSymbol == nil
//@ end

// ---- C18: how a require / dofile argument is turned into candidate paths ----
// A suffix-less module path is normalised ("." -> "/") once; every probe (native .so, .lua, /init.lua, fuzzy match) uses the
// normalised path, in both the full-path and the fuzzy configuration; a suffixed path is probed as written. The
// "not find file" diagnostic (type 6) is only produced by the first pass.
//@ func (*FileResult).CheckReferFile
//@   props C18
//@   requires fileIndexInfo != nil && referInfo != nil
//@   at call strings.Replace#0 before assert[module-path-normalises-dots-to-slashes] arg0 == strFile && streq(arg1, ".") && streq(arg2, "/") && arg3 == -1
//@   at call MatchAllDirReferFile#* before assert[probes-use-the-normalised-module-path] arg1 == curFile
//@        && (arg2 == concat(strNewFile, ".so") || arg2 == concat(strNewFile, ".lua") || arg2 == concat(strNewFile, "/init.lua"))
//@   at call MatchCompleteReferFile#0 before assert[suffixed-path-is-probed-as-written] arg1 == curFile && arg2 == strFile && suffixFlag
//@   at call GetBestMatchReferFile#0 before assert[suffixed-path-fuzzy-match-as-written] arg0 == curFile && arg1 == strFile && suffixFlag && arg2 == allFilesMap && arg3 == fileIndexInfo
//@   at call GetBestMatchReferFile#1 before assert[module-fuzzy-match-uses-the-normalised-path] arg0 == curFile && arg1 == strNewFile && !suffixFlag && arg2 == allFilesMap && arg3 == fileIndexInfo
//@   at call GetBestMatchReferFile#2 before assert[package-init-fuzzy-match-uses-the-normalised-path] arg0 == curFile && arg1 == concat(strNewFile, "/init.lua") && !suffixFlag
//@   at call InsertError#* before assert[missing-file-diagnostic-only-in-the-first-pass] arg1 == common.CheckErrorNoFile && f.checkTerm == CheckTermFirst && arg3 == referInfo.Loc
//@ end

// ---- C17: the single choke point through which every diagnostic is recorded ----
// InsertRelateError records the diagnostic unless the configuration ignores it (IsIgnoreErrorFile, whose decision
// table is proved in package common) or the pass is not a diagnostic pass; what is recorded is exactly what was given.
//@ func (*FileResult).InsertRelateError
//@   props C17
//@   ensures[master-switch-off-records-nothing] !old(common.GConfig.showWarnFlag) ==> len(f.CheckErrVec) == old(len(f.CheckErrVec))
//@   ensures[ignored-type-records-nothing] old(has(common.GConfig.IgnoreErrorTypeMap, errType)) ==> len(f.CheckErrVec) == old(len(f.CheckErrVec))
//@   ensures[non-diagnostic-pass-records-nothing] old(f.checkTerm) != CheckTermFirst && old(f.checkTerm) != CheckTermSecond && old(f.checkTerm) != CheckTermThird
//@        ==> len(f.CheckErrVec) == old(len(f.CheckErrVec))
//@   ensures[enabled-type-without-file-rules-is-recorded-as-given] (old(f.checkTerm) == CheckTermFirst || old(f.checkTerm) == CheckTermSecond || old(f.checkTerm) == CheckTermThird)
//@        && old(common.GConfig.showWarnFlag) && !old(has(common.GConfig.IgnoreErrorTypeMap, errType))
//@        && old(len(common.GConfig.IgnoreErrorFloderVec)) == 0 && old(len(common.GConfig.IgnoreErrorFileVec)) == 0 && old(len(common.GConfig.IgnoreFileErrTypesMap)) == 0
//@        ==> len(f.CheckErrVec) == old(len(f.CheckErrVec)) + 1 && f.CheckErrVec[len(f.CheckErrVec) - 1].ErrType == errType
//@            && f.CheckErrVec[len(f.CheckErrVec) - 1].Loc == loc && f.CheckErrVec[len(f.CheckErrVec) - 1].ErrStr == errStr
//@   ensures[at-most-one-record] len(f.CheckErrVec) == old(len(f.CheckErrVec)) || len(f.CheckErrVec) == old(len(f.CheckErrVec)) + 1
//@   at call IsIgnoreErrorFile#0 before assert[decision-is-about-this-file-and-type] arg0 == common.GConfig && arg1 == f.Name && arg2 == errType
//@ end
//@ func (*FileResult).InsertError
//@   props C17
//@   at call InsertRelateError#0 before assert[plain-error-goes-through-the-choke-point-unchanged] arg0 == f && arg1 == errType && arg2 == errStr && arg3 == loc
//@   ensures[goes-through-the-choke-point] hits("InsertRelateError#0") == 1
//@ end

//@ func (*FileStruct).GetFileHandleErr
//@   pure
//@ end

//@ func CreateFileStruct
//@   props C08
//@   ensures[fresh-record] result != nil
//@ end

// ---- C09: reading the table of duplicate global definitions ----
// The list kept per name is the order-dependent chain of "improving" definitions; only its LAST element (the best
// ranked one, by the order proved for JudgeShouldInsertGlobalInfo) is the same for every visiting order of the files.
// The lookup therefore answers with the last recorded definition of the asked protocol prefix and never with a
// filtered view of the chain (the gFlag argument does not select among the recorded definitions).
//@ func (*AnalysisThird).FindThirdGlobalGInfo
//@   props C09
//@   ensures[answer-is-the-last-recorded-definition-of-the-prefix] varInfoList != nil ==>
//@        forall(k, 0, len(varInfoList.VarVec), streq(varInfoList.VarVec[k].ExtraGlobal.StrProPre, strProPre)
//@            && forall(j, k + 1, len(varInfoList.VarVec), !streq(varInfoList.VarVec[j].ExtraGlobal.StrProPre, strProPre))
//@            ==> result0 && result1 == varInfoList.VarVec[k])
//@   loop 0 invariant [C09,C01] i >= -1 && i < len(varInfoList.VarVec) && varInfoList != nil
//@        && forall(j, i + 1, len(varInfoList.VarVec), !streq(varInfoList.VarVec[j].ExtraGlobal.StrProPre, strProPre))
//@ end

// ---- C19: the outline of a file's protocol-prefix functions ----
// every function declared on a protocol prefix becomes a child of the prefix's outline entry: the entry of its prefix
// exists afterwards and has exactly one child more than before (the table holds entry VALUES - the grown entry has to
// be stored back)
//@ func (*FileResult).FindAllSymbol
//@   props C19
//@   loop for: step [protocol-function-becomes-a-child-of-its-prefix-entry] has(protocolSymbols, strProPre)
//@        && len(protocolSymbols[strProPre].Children) == (prev(has(protocolSymbols, strProPre)) ? prev(len(protocolSymbols[strProPre].Children)) : 0) + 1
//@   loop for: exits-early-only-if [last-declaration-of-a-name-is-entered-too] has(protocolSymbols, strProPre) && len(protocolSymbols[strProPre].Children) >= 1
//@   loop range:f.ProtocolMaps exits-early-only-if [every-protocol-name-is-visited] false
//@   loop range:protocolSymbols exits-early-only-if [every-prefix-entry-is-returned] false
//@ end
// the outline entry of a global table ends where its last member ends: the running end is the LEXICOGRAPHIC (line, column)
// maximum over the members - an order-independent fold, the members being visited in hash-map order (C09)
//@ func (*FileResult).FindAllSymbol
//@   props C09 C19
//@   loop range:oneVar.SubMaps step [end-of-a-table-entry-is-the-lexicographic-maximum-over-its-members] !streq(subOneSymbol.Name, "") ==>
//@        ((subOneSymbol.Loc.EndLine > prev(maxLoc.EndLine) || (subOneSymbol.Loc.EndLine == prev(maxLoc.EndLine) && subOneSymbol.Loc.EndColumn > prev(maxLoc.EndColumn)))
//@            ==> maxLoc.EndLine == subOneSymbol.Loc.EndLine && maxLoc.EndColumn == subOneSymbol.Loc.EndColumn)
//@        && (!(subOneSymbol.Loc.EndLine > prev(maxLoc.EndLine) || (subOneSymbol.Loc.EndLine == prev(maxLoc.EndLine) && subOneSymbol.Loc.EndColumn > prev(maxLoc.EndColumn)))
//@            ==> maxLoc.EndLine == prev(maxLoc.EndLine) && maxLoc.EndColumn == prev(maxLoc.EndColumn))
//@   loop range:oneVar.SubMaps exits-early-only-if [every-member-is-folded-in] false
//@ end
