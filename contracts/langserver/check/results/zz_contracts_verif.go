//go:build verif

// Contracts for package results (comment-only; read by /verif lhv).
// C09: when several files define the same global, the definition that wins must not depend on the
// order in which the files happen to be visited (generateAllGlobalMaps ranges over a Go map).
// JudgeShouldInsertGlobalInfo lets a new definition in iff it "beats" every recorded definition of
// another file; FindThirdGlobalGInfo answers with the last one let in. That is order-independent iff
// "beats" is a strict total order on definitions from different files - the two lemmas below.
package results

// rank(FuncLv, ScopeLv, StartLine, file): lexicographic, file name last.
//@ spec beats(nf int, ns int, nl int, nfile int, of int, os int, ol int, ofile int) bool =
//@      nf < of || (nf == of && (ns < os || (ns == os && (nl < ol || (nl == ol && nfile < ofile)))))

//@ lemma beats_total [C09]: forall af int, as int, al int, afile int, bf int, bs int, bl int, bfile int ::
//@      afile != bfile ==> (beats(af, as, al, afile, bf, bs, bl, bfile) != beats(bf, bs, bl, bfile, af, as, al, afile))
//@ lemma beats_transitive [C09]: forall af int, as int, al int, afile int, bf int, bs int, bl int, bfile int, cf int, cs int, cl int, cfile int ::
//@      beats(af, as, al, afile, bf, bs, bl, bfile) && beats(bf, bs, bl, bfile, cf, cs, cl, cfile) ==> beats(af, as, al, afile, cf, cs, cl, cfile)

//@ func (*AnalysisThird).JudgeShouldInsertGlobalInfo
//@   props C09
//@   requires varInfo != nil && varInfo.ExtraGlobal != nil
//@   requires forall(k, 0, len(third.GlobalVarMaps[strName].VarVec), third.GlobalVarMaps[strName].VarVec[k] != nil && third.GlobalVarMaps[strName].VarVec[k].ExtraGlobal != nil)
//@   ensures[judge-is-beats-all] has(third.GlobalVarMaps, strName) && third.GlobalVarMaps[strName] != nil ==>
//@        (result <==> forall(k, 0, len(third.GlobalVarMaps[strName].VarVec),
//@            streq(third.GlobalVarMaps[strName].VarVec[k].FileName, varInfo.FileName)
//@            || beats(varInfo.ExtraGlobal.FuncLv, varInfo.ExtraGlobal.ScopeLv, varInfo.Loc.StartLine, strord(varInfo.FileName),
//@                     third.GlobalVarMaps[strName].VarVec[k].ExtraGlobal.FuncLv, third.GlobalVarMaps[strName].VarVec[k].ExtraGlobal.ScopeLv,
//@                     third.GlobalVarMaps[strName].VarVec[k].Loc.StartLine, strord(third.GlobalVarMaps[strName].VarVec[k].FileName))))
//@   loop 0 invariant rangeindex >= -1 && forall(k, 0, rangeindex + 1,
//@            streq(third.GlobalVarMaps[strName].VarVec[k].FileName, varInfo.FileName)
//@            || beats(varInfo.ExtraGlobal.FuncLv, varInfo.ExtraGlobal.ScopeLv, varInfo.Loc.StartLine, strord(varInfo.FileName),
//@                     third.GlobalVarMaps[strName].VarVec[k].ExtraGlobal.FuncLv, third.GlobalVarMaps[strName].VarVec[k].ExtraGlobal.ScopeLv,
//@                     third.GlobalVarMaps[strName].VarVec[k].Loc.StartLine, strord(third.GlobalVarMaps[strName].VarVec[k].FileName)))
//@ end
