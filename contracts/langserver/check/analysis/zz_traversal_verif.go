//go:build verif

// Traversal coverage of the analysis (comment-only; read by /verif lhv).
//
// C06 / C07 / C11 / C20 all say "every occurrence": every name use must reach the binder, every pattern must reach its
// check. That holds only if the walk over the AST skips nothing. The contracts below state, analyser by analyser, that
// each child node is handed to the walker exactly once (ghost call-site counters; loops visit every element and never
// leave early). With the AST immutable outside the parser (frozen, see zz_contracts_verif.go) this is the induction
// step of "every node of the tree is visited"; the induction itself (over the finite tree) is the paper step.
//
// C05 / C14 depend on the same contracts for another reason: the cursor -> innermost scope search (FindMinScope) relies
// on the sub-scopes of a scope being listed in source order, and they are appended in the order the walk meets them.
// The call sites below are numbered in source order and each is pinned to its child (prefix before arguments, left
// operand before right, ...), so an analyser that walks its children in another order no longer satisfies them.
package analysis

// expression dispatch: one analyser per expression kind, called once, on the node itself
//@ func (*Analysis).cgExp
//@   props C06 C07 C11 C20 C05 C14
//@   ensures[name-use-reaches-the-name-analyser] typeis(node, "*ast.NameExp") ==> hits("cgNameExp#0") == 1
//@   ensures[operand-kinds-reach-their-analysers] (typeis(node, "*ast.UnopExp") ==> hits("cgUnopExp#0") == 1) && (typeis(node, "*ast.BinopExp") ==> hits("cgBinopExp#0") == 1)
//@        && (typeis(node, "*ast.TableAccessExp") ==> hits("cgTableAccessExp#0") == 1) && (typeis(node, "*ast.FuncCallExp") ==> hits("cgFuncCallExp#0") == 1)
//@        && (typeis(node, "*ast.TableConstructorExp") ==> hits("cgTableConstructorExp#0") == 1) && (typeis(node, "*ast.FuncDefExp") ==> hits("cgFuncDefExp#0") == 1)
//@        && (typeis(node, "*ast.ParensExp") ==> hits("cgExp#0") == 1)
//@   at call cgNameExp#0 before assert[analyser-gets-the-node-itself] typeis(node, "*ast.NameExp") && arg1 == as(node, "*ast.NameExp") && arg2 == binParentExp
//@   at call cgBinopExp#0 before assert[analyser-gets-the-node-itself] typeis(node, "*ast.BinopExp") && arg1 == as(node, "*ast.BinopExp")
//@   at call cgUnopExp#0 before assert[analyser-gets-the-node-itself] typeis(node, "*ast.UnopExp") && arg1 == as(node, "*ast.UnopExp")
//@   at call cgTableAccessExp#0 before assert[analyser-gets-the-node-itself] typeis(node, "*ast.TableAccessExp") && arg1 == as(node, "*ast.TableAccessExp")
//@   at call cgFuncCallExp#0 before assert[analyser-gets-the-node-itself] typeis(node, "*ast.FuncCallExp") && arg1 == as(node, "*ast.FuncCallExp")
//@   at call cgExp#0 before assert[parentheses-are-transparent] typeis(node, "*ast.ParensExp") && arg1 == as(node, "*ast.ParensExp").Exp && arg3 == binParentExp
//@ end

// a name: first pass = read marking + undefined bookkeeping; every other pass = the binder
//@ func (*Analysis).cgNameExp
//@   props C06 C07 C11 C05 C14
//@   ensures[first-pass-marks-the-read-and-records-undefined-names] a.checkTerm == results.CheckTermFirst ==> hits("checkLocVarNotUse#0") == 1 && hits("analysisNoDefineName#0") == 1
//@   ensures[later-passes-bind-the-name] a.checkTerm != results.CheckTermFirst ==> hits("findNameStr#0") == 1
//@   at call findNameStr#0 before assert[binder-gets-the-node-itself] arg1 == node && arg2 == binParentExp
//@   at call checkLocVarNotUse#0 before assert[read-marking-gets-the-node-itself] arg1 == node
//@ end

// operators: every operand is walked; a binary operand is walked with its parent expression
//@ func (*Analysis).cgUnopExp
//@   props C06 C07 C11 C20 C05 C14
//@   ensures[operand-is-walked] hits("cgExp#0") == 1
//@   at call cgExp#0 before assert[operand-is-walked] arg1 == node.Exp
//@ end
//@ func (*Analysis).cgBinopExp
//@   props C06 C07 C11 C05 C14
//@   ensures[C06,C07,C11,C20,both-operands-are-walked] hits("cgExp#0") == 1 && hits("cgExp#1") == 1
//@   at call cgExp#0 before assert[C06,C07,C11,C20,left-operand-is-walked] arg1 == node.Exp1 && arg3 == node
//@   at call cgExp#1 before assert[C06,C07,C11,C20,right-operand-is-walked] arg1 == node.Exp2 && arg3 == node
//@ end
//@ func (*Analysis).cgTableAccessExp
//@   props C06 C07 C11 C05 C14
//@   ensures[prefix-and-key-are-walked] hits("cgExp#0") == 1 && hits("cgExp#1") == 1
//@   at call cgExp#0 before assert[prefix-is-walked] arg1 == node.PrefixExp
//@   at call cgExp#1 before assert[key-is-walked] arg1 == node.KeyExp
//@   ensures[later-passes-match-the-table-member] a.checkTerm != results.CheckTermFirst ==> hits("findTableDefine#0") == 1
//@ end

// calls: callee prefix and every argument
//@ func (*Analysis).cgFuncCallExp
//@   props C06 C07 C11 C20 C05 C14
//@   ensures[prefix-is-walked] hits("cgExp#0") == 1
//@   at call cgExp#0 before assert[prefix-is-walked] arg1 == node.PrefixExp
//@   loop range:node.Args exits-early-only-if [every-argument-is-walked] false
//@   loop range:node.Args step [every-argument-is-walked] hits("cgExp#1") == prev(hits("cgExp#1")) + 1
//@   at call cgExp#1 before assert[argument-is-walked] arg1 == arg
// the argument loop is reached on every path (no return in front of it - seed C11-required-call-arguments-not-walked) and runs to the end
//@   loop range:node.Args invariant hits("cgExp#1") == rangeindex + 1 && rangeindex + 1 <= len(node.Args)
//@   ensures[all-arguments-are-walked] hits("cgExp#1") == len(node.Args)
//@ end
//@ func (*Analysis).cgFuncCallStat
//@   props C06 C07 C11 C20 C05 C14
//@   ensures[prefix-is-walked] hits("cgExp#0") == 1
//@   at call cgExp#0 before assert[prefix-is-walked] arg1 == node.PrefixExp
//@   loop range:node.Args exits-early-only-if [every-argument-is-walked] false
//@   loop range:node.Args step [every-argument-is-walked] hits("cgExp#1") == prev(hits("cgExp#1")) + 1
//@   at call cgExp#1 before assert[argument-is-walked] arg1 == argExp
// the argument loop is reached on every path (no return in front of it - seed C11-required-call-arguments-not-walked) and runs to the end
//@   loop range:node.Args invariant hits("cgExp#1") == rangeindex + 1 && rangeindex + 1 <= len(node.Args)
//@   ensures[all-arguments-are-walked] hits("cgExp#1") == len(node.Args)
//@ end

// table constructor: every value, and every non-nil key
//@ func (*Analysis).cgTableConstructorExp
//@   props C06 C07 C11 C20 C05 C14
//@   loop range:node.KeyExps exits-early-only-if [every-field-is-walked] false
//@   loop range:node.KeyExps step [every-value-is-walked-once] hits("cgExp#0") + hits("cgExp#2") == prev(hits("cgExp#0") + hits("cgExp#2")) + 1
//@   at call cgExp#0 before assert[positional-value-is-walked] arg1 == valExp && isnil(keyExp)
//@   at call cgExp#1 before assert[key-is-walked] arg1 == keyExp
//@   at call cgExp#2 before assert[keyed-value-is-walked] arg1 == valExp && hits("cgExp#1") >= 1
//@   loop range:node.KeyExps invariant hits("cgExp#0") + hits("cgExp#2") == rangeindex + 1 && rangeindex + 1 <= len(node.KeyExps)
//@   ensures[all-values-are-walked] hits("cgExp#0") + hits("cgExp#2") == len(node.KeyExps)
//@   unchecked typeinv:VarInfo.0(parentVar)#0 members are added by InsertSubMember (not under contract) with the freshly created, non-nil subVar only; the member map is havocked by the calls in between
//@ end

// function body: parameters bound (in order, at their own locations) before the body is walked in the function's scope
//@ func (*Analysis).cgFuncDefExp
//@   props C06 C07 C11 C05 C14
//@   at call cgBlock#0 before assert[body-is-walked-with-all-parameters-bound] arg1 == node.Block && hits("AddLocVar#0") == len(node.ParList) && a.curScope == subFi.MainScope && a.curFunc == subFi
//@   loop range:node.ParList exits-early-only-if [every-parameter-is-bound] false
//@   loop range:node.ParList step [every-parameter-is-bound] hits("AddLocVar#0") == prev(hits("AddLocVar#0")) + 1
//@   loop range:node.ParList invariant hits("AddLocVar#0") == rangeindex + 1 && rangeindex + 1 <= len(node.ParList)
//@   at call AddLocVar#0 before assert[parameter-bound-at-its-own-location] streq(arg2, param) && arg5 == node.ParLocList[index] && arg0 == subFi.MainScope
//@   ensures[body-is-walked] hits("cgBlock#0") == 1
//@ end

// blocks and statements
//@ func (*Analysis).cgBlock
//@   props C06 C07 C11 C20 C05 C14
//@   loop range:node.Stats exits-early-only-if [every-statement-is-walked] false
//@   loop range:node.Stats step [every-statement-is-walked] hits("cgStat#0") == prev(hits("cgStat#0")) + 1
//@   at call cgStat#0 before assert[statement-is-walked] arg1 == stat
//@   loop range:node.Stats invariant hits("cgStat#0") == rangeindex + 1 && rangeindex + 1 <= len(node.Stats)
//@   ensures[all-statements-are-walked] hits("cgStat#0") == len(node.Stats)
//@   ensures[return-expressions-are-walked] node.RetExps != nil ==> hits("cgRetStat#0") == 1
//@   at call cgRetStat#0 before assert[return-expressions-are-walked] arg1 == node.RetExps
//@ end
//@ func (*Analysis).cgRetStat
//@   props C06 C07 C11 C20 C05 C14
//@   loop range:exps exits-early-only-if [every-return-expression-is-walked] false
//@   loop range:exps step [every-return-expression-is-walked] hits("cgExp#0") == prev(hits("cgExp#0")) + 1
//@   at call cgExp#0 before assert[return-expression-is-walked] arg1 == exp
//@   loop range:exps invariant hits("cgExp#0") == rangeindex + 1 && rangeindex + 1 <= len(exps)
//@   ensures[all-return-expressions-are-walked] hits("cgExp#0") == len(exps)
//@ end
//@ func (*Analysis).cgStat
//@   props C06 C07 C11 C20 C05 C14
//@   ensures[statement-kinds-reach-their-analysers] (typeis(node, "*ast.AssignStat") ==> hits("cgAssignStat#0") == 1) && (typeis(node, "*ast.LocalVarDeclStat") ==> hits("cgLocalVarDeclStat#0") == 1)
//@        && (typeis(node, "*ast.FuncCallStat") ==> hits("cgFuncCallStat#0") == 1) && (typeis(node, "*ast.IfStat") ==> hits("cgIfStat#0") == 1)
//@        && (typeis(node, "*ast.WhileStat") ==> hits("cgWhileStat#0") == 1) && (typeis(node, "*ast.RepeatStat") ==> hits("cgRepeatStat#0") == 1)
//@        && (typeis(node, "*ast.ForNumStat") ==> hits("cgForNumStat#0") == 1) && (typeis(node, "*ast.ForInStat") ==> hits("cgForInStat#0") == 1)
//@        && (typeis(node, "*ast.DoStat") ==> hits("cgDoStat#0") == 1) && (typeis(node, "*ast.LocalFuncDefStat") ==> hits("cgLocalFuncDefStat#0") == 1)
//@ end

// block statements: condition and body are walked
//@ func (*Analysis).cgWhileStat
//@   props C06 C07 C11 C20 C05 C14
//@   ensures[condition-and-body-are-walked] hits("cgExp#0") == 1 && hits("cgBlock#0") == 1
//@   at call cgExp#0 before assert[condition-is-walked] arg1 == node.Exp
// sibling scopes are registered in source order (FindMinScope takes the first child that contains the cursor): the
// scopes a condition creates - a function literal in it - come before the scope of the loop, whose range covers them
//@   at call cgExp#0 before assert[condition-is-walked-before-the-loop-scope-is-registered] hits("AppendSubScope#0") == 0 && hits("CreateScopeInfo#0") == 0
//@   at call cgBlock#0 before assert[body-is-walked] arg1 == node.Block
//@ end
//@ func (*Analysis).cgDoStat
//@   props C06 C07 C11 C20 C05 C14
//@   ensures[body-is-walked] hits("cgBlock#0") == 1
//@   at call cgBlock#0 before assert[body-is-walked] arg1 == node.Block
//@ end
//@ func (*Analysis).cgRepeatStat
//@   props C06 C07 C11 C20 C05 C14
//@   ensures[body-and-condition-are-walked] hits("cgExp#0") == 1 && hits("cgBlock#0") == 1
//@   at call cgExp#0 before assert[condition-is-walked] arg1 == node.Exp
//@   at call cgBlock#0 before assert[body-is-walked] arg1 == node.Block
//@ end
//@ func (*Analysis).cgForNumStat
//@   props C06 C07 C11 C20 C05 C14
//@   ensures[header-and-body-are-walked] hits("cgExp#0") == 1 && hits("cgExp#1") == 1 && hits("cgExp#2") == 1 && hits("cgBlock#0") == 1
//@   at call cgExp#0 before assert[init-is-walked] arg1 == node.InitExp
//@   at call cgExp#2 before assert[limit-is-walked] arg1 == node.LimitExp
//@ end
//@ func (*Analysis).cgForInStat
//@   props C06 C07 C11 C20 C05 C14
//@   loop range:node.ExpList exits-early-only-if [every-iterator-expression-is-walked] false
//@   at call cgExp#0 before assert[iterator-expression-is-walked] arg1 == oneExp
//@   loop range:node.ExpList invariant hits("cgExp#0") == rangeindex + 1 && rangeindex + 1 <= len(node.ExpList)
//@   ensures[all-iterator-expressions-are-walked] hits("cgExp#0") == len(node.ExpList)
//@   ensures[body-is-walked] hits("cgBlock#0") == 1
//@ end
//@ func (*Analysis).cgLocalFuncDefStat
//@   props C06 C07 C11 C20 C05 C14
//@   ensures[function-expression-is-walked] hits("cgFuncDefExp#0") == 1
//@   at call cgFuncDefExp#0 before assert[function-expression-is-walked] arg1 == node.Exp
//@ end

// if / elseif / else: every condition and every block is walked, the block in a scope whose range is the block's
//@ func (*Analysis).cgIfStat
//@   props C06 C07 C11 C20 C05 C14
//@   loop range:node.Exps#1 exits-early-only-if [every-branch-is-walked] false
//@   loop range:node.Exps#1 step [every-condition-and-block-is-walked] hits("cgExp#0") == prev(hits("cgExp#0")) + 1 && hits("cgBlock#0") == prev(hits("cgBlock#0")) + 1
//@   at call cgExp#0 before assert[condition-is-walked] arg1 == exp
//@   at call cgBlock#0 before assert[block-is-walked-in-its-own-scope] arg1 == node.Blocks[i] && a.curScope == subScope
//@   loop range:node.Exps#1 invariant hits("cgExp#0") == rangeindex + 1 && hits("cgBlock#0") == rangeindex + 1 && rangeindex + 1 <= len(node.Exps)
//@   ensures[all-branches-are-walked] hits("cgExp#0") == len(node.Exps) && hits("cgBlock#0") == len(node.Exps)
//@   at call CreateScopeInfo#0 before assert[branch-scope-has-the-range-of-its-block] arg2 == node.Blocks[i].Loc && arg0 == scope
//@ end

// ---- C07, C06, C11 (the reference and rename passes resolve names in the current scope of the same walk): the scope
// stack discipline of the walk ----
// Every function of the walk leaves the analysis in the scope and function it was entered in; each is proved against
// the same contract on its callees (the family is mutually recursive).  With it, cgIfStat is shown to analyse every
// condition -- the if and every elseif -- in the scope that encloses the whole statement, never in the scope of the
// previous branch, so a local of one branch cannot capture a name in the next condition.
//@ func (*Analysis).cgAssignStat
//@   props C07 C06 C11 C05 C14
//@   ensures[scope-stack-restored] a.curScope == old(a.curScope) && a.curFunc == old(a.curFunc)
//@   loop all invariant a.curScope == old(a.curScope) && a.curFunc == old(a.curFunc)
//@ end
//@ func (*Analysis).cgBinopExp
//@   props C07 C06 C11 C05 C14
//@   ensures[scope-stack-restored] a.curScope == old(a.curScope) && a.curFunc == old(a.curFunc)
//@   loop all invariant a.curScope == old(a.curScope) && a.curFunc == old(a.curFunc)
//@ end
//@ func (*Analysis).cgBlock
//@   props C07 C06 C11 C05 C14
//@   ensures[scope-stack-restored] a.curScope == old(a.curScope) && a.curFunc == old(a.curFunc)
//@   loop all invariant a.curScope == old(a.curScope) && a.curFunc == old(a.curFunc)
//@ end
//@ func (*Analysis).cgDoStat
//@   props C07 C06 C11 C05 C14
//@   ensures[scope-stack-restored] a.curScope == old(a.curScope) && a.curFunc == old(a.curFunc)
//@ end
//@ func (*Analysis).cgExp
//@   props C07 C06 C11 C05 C14
//@   ensures[scope-stack-restored] a.curScope == old(a.curScope) && a.curFunc == old(a.curFunc)
//@   loop all invariant a.curScope == old(a.curScope) && a.curFunc == old(a.curFunc)
//@ end
//@ func (*Analysis).cgForInStat
//@   props C07 C06 C11 C05 C14
//@   ensures[scope-stack-restored] a.curScope == old(a.curScope) && a.curFunc == old(a.curFunc)
//@   loop all invariant a.curFunc == old(a.curFunc) && a.curScope == subScope
//@ end
//@ func (*Analysis).cgForNumStat
//@   props C07 C06 C11 C05 C14
//@   ensures[scope-stack-restored] a.curScope == old(a.curScope) && a.curFunc == old(a.curFunc)
//@ end
//@ func (*Analysis).cgFuncCallExp
//@   props C07 C06 C11 C05 C14
//@   ensures[scope-stack-restored] a.curScope == old(a.curScope) && a.curFunc == old(a.curFunc)
//@   loop all invariant a.curScope == old(a.curScope) && a.curFunc == old(a.curFunc)
//@ end
//@ func (*Analysis).cgFuncCallStat
//@   props C07 C06 C11 C05 C14
//@   ensures[scope-stack-restored] a.curScope == old(a.curScope) && a.curFunc == old(a.curFunc)
//@   loop all invariant a.curScope == old(a.curScope) && a.curFunc == old(a.curFunc)
//@ end
//@ func (*Analysis).cgFuncDefExp
//@   props C07 C06 C11 C05 C14
//@   ensures[scope-stack-restored] a.curScope == old(a.curScope) && a.curFunc == old(a.curFunc)
//@ end
//@ func (*Analysis).cgIfStat
//@   props C07 C06 C11 C05 C14
//@   ensures[scope-stack-restored] a.curScope == old(a.curScope) && a.curFunc == old(a.curFunc)
//@ end
//@ func (*Analysis).cgLocalFuncDefStat
//@   props C07 C06 C11 C05 C14
//@   ensures[scope-stack-restored] a.curScope == old(a.curScope) && a.curFunc == old(a.curFunc)
//@   loop all invariant a.curScope == old(a.curScope) && a.curFunc == old(a.curFunc)
//@ end
//@ func (*Analysis).cgLocalVarDeclStat
//@   props C07 C06 C11 C05 C14
//@   ensures[scope-stack-restored] a.curScope == old(a.curScope) && a.curFunc == old(a.curFunc)
//@   loop all invariant a.curScope == old(a.curScope) && a.curFunc == old(a.curFunc)
//@ end
//@ func (*Analysis).cgRepeatStat
//@   props C07 C06 C11 C05 C14
//@   ensures[scope-stack-restored] a.curScope == old(a.curScope) && a.curFunc == old(a.curFunc)
//@ end
//@ func (*Analysis).cgRetStat
//@   props C07 C06 C11 C05 C14
//@   ensures[scope-stack-restored] a.curScope == old(a.curScope) && a.curFunc == old(a.curFunc)
//@   loop all invariant a.curScope == old(a.curScope) && a.curFunc == old(a.curFunc)
//@ end
//@ func (*Analysis).cgStat
//@   props C07 C06 C11 C05 C14
//@   ensures[scope-stack-restored] a.curScope == old(a.curScope) && a.curFunc == old(a.curFunc)
//@   loop all invariant a.curScope == old(a.curScope) && a.curFunc == old(a.curFunc)
//@ end
//@ func (*Analysis).cgTableAccessExp
//@   props C07 C06 C11 C05 C14
//@   ensures[scope-stack-restored] a.curScope == old(a.curScope) && a.curFunc == old(a.curFunc)
//@   loop all invariant a.curScope == old(a.curScope) && a.curFunc == old(a.curFunc)
//@ end
//@ func (*Analysis).cgTableConstructorExp
//@   props C07 C06 C11 C05 C14
//@   ensures[scope-stack-restored] a.curScope == old(a.curScope) && a.curFunc == old(a.curFunc)
//@   loop all invariant a.curScope == old(a.curScope) && a.curFunc == old(a.curFunc)
//@ end
//@ func (*Analysis).cgUnopExp
//@   props C07 C06 C11 C05 C14
//@   ensures[scope-stack-restored] a.curScope == old(a.curScope) && a.curFunc == old(a.curFunc)
//@   loop all invariant a.curScope == old(a.curScope) && a.curFunc == old(a.curFunc)
//@ end
//@ func (*Analysis).cgWhileStat
//@   props C07 C06 C11 C05 C14
//@   ensures[scope-stack-restored] a.curScope == old(a.curScope) && a.curFunc == old(a.curFunc)
//@ end
//@ func (*Analysis).checkLeftAssign
//@   props C07 C06 C11 C05 C14
//@   ensures[scope-stack-restored] a.curScope == old(a.curScope) && a.curFunc == old(a.curFunc)
//@   loop all invariant a.curScope == old(a.curScope) && a.curFunc == old(a.curFunc)
//@ end
//@ func (*Analysis).deepHanleReferFile
//@   props C07 C06 C11 C05 C14
//@   ensures[scope-stack-restored] a.curScope == old(a.curScope) && a.curFunc == old(a.curFunc)
//@ end
//@ func (*Analysis).GetImportRefer
//@   props C07 C06 C11 C05 C14
//@   ensures[scope-stack-restored] a.curScope == old(a.curScope) && a.curFunc == old(a.curFunc)
//@   loop all invariant a.curScope == old(a.curScope) && a.curFunc == old(a.curFunc)
//@ end
//@ func (*Analysis).GetImportReferByCallExp
//@   props C07 C06 C11 C05 C14
//@   ensures[scope-stack-restored] a.curScope == old(a.curScope) && a.curFunc == old(a.curFunc)
//@   loop all invariant a.curScope == old(a.curScope) && a.curFunc == old(a.curFunc)
//@ end
//@ func (*Analysis).cgIfStat
//@   props C07 C06 C11 C05 C14
//@   loop range:node.Exps#1 invariant [C07,C06,C11,C05,C14] a.curScope == scope && a.curFunc == old(a.curFunc)
//@   at call cgExp#0 before assert[condition-is-analysed-in-the-scope-enclosing-the-statement] a.curScope == scope && scope == old(a.curScope)
//@ end

// ---- C07: the end-of-block checks run on the block's own scope ----
// exitScope reports the locals of the CURRENT scope that were never read (type 4) and resolves pending local-function
// calls; it is called when a block ends, while the current scope is still that block's own scope - not after the
// enclosing scope has been restored, and after everything that belongs to the block (for repeat: the until-condition)
// has been walked.
//@ func (*Analysis).cgDoStat
//@   props C07
//@   at call exitScope#0 before assert[end-of-block-checks-run-on-the-blocks-own-scope] a.curScope == subScope
//@ end
//@ func (*Analysis).cgWhileStat
//@   props C07
//@   at call exitScope#0 before assert[end-of-block-checks-run-on-the-blocks-own-scope] a.curScope == subScope
//@ end
//@ func (*Analysis).cgRepeatStat
//@   props C07
//@   at call exitScope#0 before assert[end-of-block-checks-run-on-the-blocks-own-scope] a.curScope == subScope
//@ end
//@ func (*Analysis).cgForNumStat
//@   props C07
//@   at call exitScope#0 before assert[end-of-block-checks-run-on-the-blocks-own-scope] a.curScope == subScope
//@ end
//@ func (*Analysis).cgForInStat
//@   props C07
//@   at call exitScope#0 before assert[end-of-block-checks-run-on-the-blocks-own-scope] a.curScope == subScope
//@ end
//@ func (*Analysis).cgIfStat
//@   props C07
//@   at call exitScope#0 before assert[end-of-block-checks-run-on-the-blocks-own-scope] a.curScope == subScope
//@ end
//@ func (*Analysis).cgFuncDefExp
//@   props C07
//@   at call exitScope#0 before assert[end-of-function-checks-run-on-the-functions-own-scope] a.curScope == subFi.MainScope && a.curFunc == subFi
//@ end
