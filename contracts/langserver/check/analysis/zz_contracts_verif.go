//go:build verif

// Contracts for package analysis (comment-only; read by /verif lhv).
package analysis

// The AST is built by the parser and never modified afterwards: checked by a scan of every store in the
// module (no function outside package parser writes a field of an ast struct), which justifies keeping
// the AST field heaps across calls in the traversal code.
//@ frozen check/compiler/ast except check/compiler/parser

// ---- C20: pattern checks in the statement traversal ----
// Each check is a guarded InsertError call. The obligations are evaluated at the call sites themselves
// (whatever their number or order): a report of type T is only made when the documented pattern holds.
//@ func (*Analysis).cgAssignStat
//@   props C20
//@   at call InsertError#* before assert[self-assign-only-when-every-pair-is-identical] arg1 == 20 ==>
//@        len(node.VarList) == len(node.ExpList) && forall(k, 0, len(node.ExpList), CompExp(node.VarList[k], node.ExpList[k]))
//@   at call InsertError#* before assert[assign-count-only-on-mismatch] arg1 == 7 ==> len(node.VarList) != len(node.ExpList)
//@   loop for:i<nExps#1 invariant 0 <= i && i <= nExps && nExps == len(node.ExpList) && nVars == len(node.VarList) && nVars == nExps
//@        && (isSame <==> forall(k, 0, i, CompExp(node.VarList[k], node.ExpList[k])))
//@ end

// cgBinopExp hosts four checks; each report is made only for its documented pattern.
//@ func (*Analysis).cgBinopExp
//@   props C20
//@   requires node != nil
//@   at call InsertError#* before assert[or-true-pattern] arg1 == 15 ==> node.Op == lexer.TkOpOr
//@        && (typeis(node.Exp1, "*ast.TrueExp") || typeis(node.Exp2, "*ast.TrueExp"))
//@   at call InsertError#* before assert[and-false-pattern] arg1 == 16 ==> node.Op == lexer.TkOpAnd
//@        && (typeis(node.Exp1, "*ast.FalseExp") || typeis(node.Exp2, "*ast.FalseExp"))
//@   at call InsertError#* before assert[float-equality-pattern] arg1 == 21 ==> (node.Op == lexer.TkOpEq || node.Op == lexer.TkOpNe)
//@        && (typeis(node.Exp1, "*ast.FloatExp") || typeis(node.Exp2, "*ast.FloatExp"))
//@   at call InsertError#* before assert[same-operands-pattern] arg1 == 14 ==>
//@        (node.Op == lexer.TkOpOr || node.Op == lexer.TkOpAnd || node.Op == lexer.TkOpLt || node.Op == lexer.TkOpLe
//@         || node.Op == lexer.TkOpGt || node.Op == lexer.TkOpGe || node.Op == lexer.TkOpEq || node.Op == lexer.TkOpNe)
//@        && streq(GetExpName(node.Exp1), GetExpName(node.Exp2))
//@   at call InsertError#* before assert[only-these-types] arg1 == 14 || arg1 == 15 || arg1 == 16 || arg1 == 21
//@ end
