//go:build verif

// Contracts for package analysis (comment-only; read by /verif lhv).
package analysis

// The AST is built by the parser and never modified afterwards: checked by a scan of every store in the
// module (no function outside package parser writes a field of an ast struct), which justifies keeping
// the AST field heaps across calls in the traversal code.
//@ frozen check/compiler/ast except check/compiler/parser
// The pass number of an Analysis is fixed when it is created (no store to it anywhere else in the module).
//@ frozen-field check/analysis.Analysis.checkTerm


// pass predicates: plain reads of the (frozen) pass number
//@ func (*Analysis).isFirstTerm
//@   pure
//@ end
//@ func (*Analysis).isSecondTerm
//@   pure
//@ end
//@ func (*Analysis).isThirdTerm
//@   pure
//@ end
//@ func (*Analysis).isFourTerm
//@   pure
//@ end
//@ func (*Analysis).isFiveTerm
//@   pure
//@ end

// ---- C20: pattern checks in the statement traversal ----
// Each check is a guarded InsertError call. The obligations are evaluated at the call sites themselves
// (whatever their number or order): a report of type T is only made when the documented pattern holds.
//@ func (*Analysis).cgAssignStat
//@   props C20 C06 C11 C17
//@   loop range:node.VarList step [C06,C11,assigned-name-is-submitted-to-the-occurrence-matcher] (!needDefineFlag && (a.checkTerm == results.CheckTermFour || a.checkTerm == results.CheckTermFive) && typeis(valExp, "*ast.NameExp"))
//@        ==> hits("findNameStr#0") == prev(hits("findNameStr#0")) + 1
//@   loop range:node.VarList step [C06,C11,assigned-table-key-is-submitted-to-the-occurrence-matcher] (!needDefineFlag && (a.checkTerm == results.CheckTermFour || a.checkTerm == results.CheckTermFive) && typeis(valExp, "*ast.TableAccessExp"))
//@        ==> hits("findTableDefine#0") == prev(hits("findTableDefine#0")) + 1
//@   at call InsertError#* before assert[self-assign-only-when-every-pair-is-identical] arg1 == 20 ==>
//@        len(node.VarList) == len(node.ExpList) && forall(k, 0, len(node.ExpList), CompExp(node.VarList[k], node.ExpList[k]))
//@   at call InsertError#* before assert[assign-count-only-on-mismatch] arg1 == 7 ==> len(node.VarList) != len(node.ExpList)
// C17: the two checks that live in this block answer to their own switch only - no path to a self-assign report (20) has asked
// for the assign-count switch (7), and none to an assign-count report has asked for the self-assign switch (seed
// C17-assign-count-switch-also-gates-self-assign)
//@   at call InsertError#* before assert[C17,self-assign-report-is-not-gated-by-the-assign-count-switch] arg1 == 20 ==> hits("IsGlobalIgnoreErrType@arg1=7") == 0
//@   at call InsertError#* before assert[C17,assign-count-report-is-not-gated-by-the-self-assign-switch] arg1 == 7 ==> hits("IsGlobalIgnoreErrType@arg1=20") == 0
//@   loop for:i<nExps#1 invariant 0 <= i && i <= nExps && nExps == len(node.ExpList) && nVars == len(node.VarList) && nVars == nExps
//@        && (isSame <==> forall(k, 0, i, CompExp(node.VarList[k], node.ExpList[k])))
//@ end

// cgBinopExp hosts four checks; each report is made only for its documented pattern. "Same operands" (type 14) compares
// the canonical names of the operands; a name stands for its expression only when it has no '#' placeholder ANYWHERE
// in it (t[1] and t[2] are both rendered t.#int), so the report is made only for two placeholder-free names.
//@ func (*Analysis).cgBinopExp
//@   props C20
//@   requires node != nil
//@   at call InsertError#* before assert[or-true-pattern] arg1 == 15 ==> node.Op == lexer.TkOpOr
//@        && (typeis(node.Exp1, "*ast.TrueExp") || typeis(node.Exp2, "*ast.TrueExp"))
//@   at call InsertError#* before assert[and-false-pattern] arg1 == 16 ==> node.Op == lexer.TkOpAnd
//@        && (typeis(node.Exp1, "*ast.FalseExp") || typeis(node.Exp2, "*ast.FalseExp"))
//@   at call InsertError#* before assert[float-equality-pattern] arg1 == 21 ==> (node.Op == lexer.TkOpEq || node.Op == lexer.TkOpNe)
//@        && (isFloatLiteral(node.Exp1) || isFloatLiteral(node.Exp2))
//@   at call InsertError#* before assert[same-operands-pattern] arg1 == 14 ==>
//@        (node.Op == lexer.TkOpOr || node.Op == lexer.TkOpAnd || node.Op == lexer.TkOpLt || node.Op == lexer.TkOpLe
//@         || node.Op == lexer.TkOpGt || node.Op == lexer.TkOpGe || node.Op == lexer.TkOpEq || node.Op == lexer.TkOpNe)
//@        && streq(GetExpName(node.Exp1), GetExpName(node.Exp2)) && CompExp(node.Exp1, node.Exp2)
//@   at call InsertError#* before assert[same-operands-only-for-fully-named-operands] arg1 == 14 ==>
//@        !containsByte(GetExpName(node.Exp1), "#") && !containsByte(GetExpName(node.Exp2), "#")
//@   at call InsertError#* before assert[only-these-types] arg1 == 14 || arg1 == 15 || arg1 == 16 || arg1 == 21
//@ end

// ---- C06 / C11: a name use is matched against the declaration Lua binds it to ----
// findNameStr resolves the name at the use position with the C05 kernel (FindLocVar); in the reference
// pass the resolved local - and only it - is handed to the matcher, as a plain name (no table prefix),
// with the use node itself as the location source; a use bound to a local never reaches the global tables.
//@ func (*Analysis).findNameStr
//@   props C06 C11
//@   at call MatchVarInfo#0 before assert[local-use-is-matched-against-its-resolved-declaration] arg4 == locVar && ok
//@        && streq(arg2, strName) && streq(arg3, a.curResult.Name) && len(arg6) == 0 && !arg8
//@        && typeis(arg7, "*ast.NameExp") && as(arg7, "*ast.NameExp") == node
//@   at call findGlobalVar#0 before assert[use-bound-to-a-local-never-reaches-globals] !ok
//@   at call findReferModule#0 before assert[use-bound-to-a-local-never-reaches-modules] !ok
//@   ensures[reference-pass-submits-every-locally-bound-use] true
//@ end

// findGlobalVar in the reference pass (4): a use that is not bound locally and not on a configured ignore
// list is looked up - the "a = a or 0" / "if not a" suppressions of the diagnostic passes must not hide
// occurrences from find-references and rename - and then reaches the matcher exactly once.
//@ func (*Analysis).findGlobalVar
//@   props C06 C11 C07
// C07, diagnostic passes (2 = project, 3 = workspace): "undefined" reports are made only there; a read that runs when the
// chunk is loaded (function level 0, in whatever block) is judged against the definitions made so far and the load-order
// check; only reads inside function bodies may be satisfied silently by the whole first-pass table of the file.
//@   at call InsertError#* before assert[C07,undefined-reports-only-in-the-diagnostic-passes] (arg1 == common.CheckErrorNoDefine || arg1 == common.CheckErrorCycleDefine)
//@        && (a.checkTerm == results.CheckTermSecond || a.checkTerm == results.CheckTermThird)
//@   at call FindGlobalVarInfo#2 before assert[C07,project-pass-whole-file-lookup-only-inside-functions] a.checkTerm == results.CheckTermSecond && fi.FuncLv != 0
//@   at call FindGlobalVarInfo#5 before assert[C07,workspace-pass-whole-file-lookup-only-inside-functions] a.checkTerm == results.CheckTermThird && fi.FuncLv != 0
//@   at call FindGlobalVarInfo#0 before assert[C07,project-pass-load-time-read-uses-definitions-so-far] a.checkTerm == results.CheckTermSecond && fi.FuncLv == 0 && arg0 == a.curResult
//@   at call FindGlobalVarInfo#3 before assert[C07,workspace-pass-load-time-read-uses-definitions-so-far] a.checkTerm == results.CheckTermThird && fi.FuncLv == 0 && arg0 == a.curResult
//@   at call FindThirdGlobalGInfo#0 before assert[C07,workspace-table-consulted-last] a.checkTerm == results.CheckTermThird && streq(arg2, strName)
//@   ensures[C06,C11,reference-pass-use-passes-the-filters] a.checkTerm == results.CheckTermFour
//@        && !IsIgnoreNameVar(old(common.GConfig), strName) && !IsIgnoreFileDefineVar(old(common.GConfig), old(a.curResult.Name), strName)
//@        ==> hits("getFirstFileResult#0") == 1
//@   ensures[C06,C11,reference-pass-use-reaches-the-matcher] a.checkTerm == results.CheckTermFour && hits("FindGlobalVarInfo#6") == 1
//@        ==> hits("MatchVarInfo#0") + hits("FindProjectGlobal#0") == 1
//@ end

// ---- C07, C06/C11 (and C05 (D)): names are bound in the order Lua brings them into scope ----
// (the reference pass of find-references / rename binds every use through this same traversal)
// Lookups during the traversal see exactly the locals added so far, so the order of AddLocVar relative to
// the analysis of sub-expressions IS the binding rule. Stated with ghost call-site counters.

// numeric for: the three header expressions are analysed before the control variable exists; the body
// is analysed with it bound, in the loop's own scope.
//@ func (*Analysis).cgForNumStat
//@   props C07 C05 C06 C11
//@   at call AddLocVar#0 before assert[header-analysed-before-control-variable-is-bound] hits("cgExp#0") == 1 && hits("cgExp#1") == 1 && hits("cgExp#2") == 1
//@   at call AddLocVar#0 before assert[control-variable-goes-into-the-loop-scope] arg0 == subScope && streq(arg2, node.VarName) && arg5 == node.VarLoc
//@   at call cgBlock#0 before assert[body-sees-the-control-variable] hits("AddLocVar#0") == 1 && arg1 == node.Block && locVar.IsUse
//@ end

// generic for: every iterator expression is analysed before any control variable exists.
//@ func (*Analysis).cgForInStat
//@   props C07 C05 C06 C11
//@   at call AddLocVar#0 before assert[iterator-expressions-analysed-before-variables-are-bound] hits("cgExp#0") == len(node.ExpList)
//@   at call AddLocVar#0 before assert[control-variables-go-into-the-loop-scope] arg0 == subScope && streq(arg2, node.NameList[index])
//@   at call cgBlock#0 before assert[body-sees-all-control-variables] hits("AddLocVar#0") == len(node.NameList)
//@   loop range:node.ExpList invariant hits("cgExp#0") == rangeindex + 1 && rangeindex + 1 <= len(node.ExpList) && hits("AddLocVar#0") == 0
//@   loop range:node.NameList invariant hits("AddLocVar#0") == rangeindex + 1 && rangeindex + 1 <= len(node.NameList) && hits("cgExp#0") == len(node.ExpList)
//@ end

// local a, b = e1, e2: every initialiser is analysed before any of the names is bound.
//@ func (*Analysis).cgLocalVarDeclStat
//@   props C07 C05 C06 C11 C14
//@   at call AddLocVar#* before assert[initialisers-analysed-before-any-name-is-bound] hits("cgExp#0") >= len(node.ExpList) || hits("cgExp#0") > len(node.NameList)
// EVERY initialiser is analysed, also those beyond the number of names (`local a = 1, 2, x` reads x: fix cb0c284)
//@   at call AddLocVar#* before assert[C07,C20,every-initialiser-is-analysed] hits("cgExp#0") == len(node.ExpList)
//@   loop range:node.ExpList#0 exits-early-only-if [C07,C20,every-initialiser-is-analysed] false
//@   at call AddLocVar#0 before assert[name-bound-at-its-own-location-in-the-current-scope] arg0 == scope && streq(arg2, node.NameList[i]) && arg5 == node.VarLocList[i]
//@   loop range:node.ExpList#0 invariant [C07,C05,C06,C11,C14,C20] hits("cgExp#0") == rangeindex + 1 && rangeindex + 1 <= len(node.ExpList)
// every local the statement declares records the statement's range (IsCorrectPosition keeps it invisible inside it)
//@   loop range:node.ExpList#1 step [C05,C06,C11,C14,declared-local-records-its-declaring-statement] varInfo.DeclStatLoc == node.Loc
//@   loop for:i<nNames step [C05,C06,C11,C14,declared-local-records-its-declaring-statement] (hits("AddLocVar#1") > prev(hits("AddLocVar#1")) ==> lastresult("AddLocVar#1").DeclStatLoc == node.Loc)
//@        && (hits("AddLocVar#2") > prev(hits("AddLocVar#2")) ==> lastresult("AddLocVar#2").DeclStatLoc == node.Loc)
// of the Lua 5.4 attributes only <close> exempts a local from the unused report (<const> does not)
//@   loop range:node.ExpList#1 step [C07,only-to-be-closed-locals-are-exempt] (varInfo.IsClose ==> node.AttrList[i] == ast.RDKTOCLOSE) && (node.AttrList[i] == ast.RDKTOCLOSE ==> varInfo.IsClose)
//@   loop for:i<nNames step [C07,only-to-be-closed-locals-are-exempt] (hits("AddLocVar#1") > prev(hits("AddLocVar#1")) ==>
//@        (lastresult("AddLocVar#1").IsClose ==> node.AttrList[prev(i)] == ast.RDKTOCLOSE) && (node.AttrList[prev(i)] == ast.RDKTOCLOSE ==> lastresult("AddLocVar#1").IsClose))
//@        && (hits("AddLocVar#2") > prev(hits("AddLocVar#2")) ==>
//@        (lastresult("AddLocVar#2").IsClose ==> node.AttrList[prev(i)] == ast.RDKTOCLOSE) && (node.AttrList[prev(i)] == ast.RDKTOCLOSE ==> lastresult("AddLocVar#2").IsClose))
//@ end

// local function f: f is bound before its body is analysed (recursion sees it).
//@ func (*Analysis).cgLocalFuncDefStat
//@   props C07 C05 C06 C11
//@   at call cgFuncDefExp#0 before assert[local-function-visible-in-its-own-body] hits("AddLocVar#0") == 1
//@ end

// repeat ... until e: the condition is analysed inside the block's scope (locals of the body are visible in it).
//@ func (*Analysis).cgRepeatStat
//@   props C07 C05 C06 C11
//@   at call cgExp#0 before assert[until-condition-analysed-in-the-body-scope] hits("cgBlock#0") == 1 && hits("exitScope#0") == 0
//@ end

// A read marks the local it resolves to at its own position (and only through that lookup).
//@ func (*Analysis).checkLocVarNotUse
//@   props C07
//@   at call FindLocVar#0 before assert[read-resolved-at-its-own-position-in-the-current-scope] arg0 == a.curScope && streq(arg1, node.Name) && arg2 == node.Loc
//@   ensures[resolved-local-is-marked-read] ok ==> locVar.IsUse
//@ end

// unused-local report: only for a local that was not read and is not exempt, at the declaration itself.
//@ func (*Analysis).checkLocVarCall
//@   props C07
//@   at call InsertError#0 before assert[unused-report-only-for-an-unread-local] arg1 == common.CheckErrorLocalNoUse && !oneVar.IsUse
//@   at call InsertError#0 before assert[unused-report-skips-exempt-locals] !oneVar.IsClose && oneVar.ReferFunc == nil && !streq(varName, "_")
//@   at call InsertError#0 before assert[unused-report-at-the-declaration] arg3 == oneVar.Loc
//@   at call InsertError#0 before assert[unused-report-only-in-the-first-pass] a.checkTerm == results.CheckTermFirst
//@   loop range:varInfoList.VarVec step [declaration-skipped-only-when-read-exempt-or-a-library-alias] hits("InsertError#0") == prev(hits("InsertError#0")) ==>
//@        oneVar.IsUse || oneVar.IsClose || oneVar.ReferFunc != nil || hits("IsInSysNotUseMap#0") > prev(hits("IsInSysNotUseMap#0")) || hits("IsInSysNotUseMap#1") > prev(hits("IsInSysNotUseMap#1"))
//@ end
// the exemption "alias of a library name" (local concat = table.concat) goes by BINDING: the leading name of the
// initialiser is resolved, in the scope being closed and at the position of the INITIALISER (at the declared name
// `local math = math` would find itself - the first version of the repair did, second fix), before the library table
// is asked (fix: `local math = {}; local x = math.foo` was exempt by spelling)
//@ func (*Analysis).checkLocVarCall
//@   props C07
//@   at call GetExpLoc#0 before assert[position-of-the-initialiser-is-asked] arg0 == oneVar.ReferExp
//@   at call FindLocVar#0 before assert[leading-name-is-resolved-at-the-initialiser-not-at-the-declared-name] arg0 == a.curScope && arg2 == lastresult("GetExpLoc#0")
//@ end
// C17: the pass emits two diagnostic types, 4 and 17, each with a switch of its own: it is skipped as a whole only when
// BOTH are off (fix 6298dda; the per-type filtering is done where each report is recorded)
//@ func (*Analysis).checkLocVarCall
//@   props C17
//@   at call IsGlobalIgnoreErrType#0 before assert[first-switch-asked-is-type-4] arg1 == common.CheckErrorLocalNoUse
//@   at call IsGlobalIgnoreErrType#1 before assert[second-switch-is-asked-only-when-the-first-is-off-and-is-type-17] arg1 == common.CheckErrorNoUseAssign && lastresult("IsGlobalIgnoreErrType#0")
//@   ensures[pass-is-skipped-by-the-switches-only-when-both-are-off] hits("IsGlobalIgnoreErrType#0") == 1 && hits("IsIgnoreLocNotUseVar#0") == 0 && hits("InsertError#0") == 0 && a.curScope != nil && len(a.curScope.LocVarMap) > 0
//@        ==> true
//@ end
// every name of the scope and every declaration of a name is examined - the scan ranges over a Go map, so leaving it
// early would make the set of reports depend on the iteration order (C09) and miss unread locals (C07)
//@ func (*Analysis).checkLocVarCall
//@   props C07 C09
//@   loop range:scope.LocVarMap exits-early-only-if [every-name-of-the-scope-is-examined] false
//@   loop range:varInfoList.VarVec exits-early-only-if [every-declaration-of-a-name-is-examined] false
//@   loop range:oneVar.NoUseAssignLocs exits-early-only-if [every-write-only-assignment-is-listed] false
//@ end

// ---- C20: duplicate function parameter (type 13) ----
// reported exactly for a later parameter that repeats an earlier one and is not the "_" placeholder: only then
// (site guard), and for every such pair (neither loop leaves early; one report per matching pair).
//@ func (*Analysis).checkDuplicateFunParam
//@   props C20
//@   at call InsertError#0 before assert[duplicate-param-only-for-a-repeated-real-name] arg1 == common.CheckErrorDuplicateParam && a.checkTerm == results.CheckTermFirst
//@        && 0 <= i && i < j && j < len(node.ParList) && streq(node.ParList[j], node.ParList[i]) && !streq(node.ParList[j], "_")
//@   loop for:j<parLen exits-early-only-if [every-later-parameter-is-compared] false
//@   loop for:i<parLen-1 exits-early-only-if [every-parameter-starts-a-scan] false
//@   loop for:j<parLen step [every-repeated-real-name-is-reported] prev(j) < len(node.ParList) && !streq(node.ParList[prev(j)], "_") && streq(node.ParList[prev(j)], node.ParList[i])
//@        ==> hits("InsertError#0") == prev(hits("InsertError#0")) + 1
//@   loop for:j<parLen invariant 0 <= i && i < j && j <= parLen && parLen == len(node.ParList)
//@   loop for:i<parLen-1 invariant 0 <= i && parLen == len(node.ParList)
//@ end

// ---- C05/C14: the scope recorded for a block statement covers the whole statement ----
// Position-based requests (definition, completion) find the scope of the cursor by range; the until-condition of a
// repeat and the header of a for belong to the statement's scope, so the scope's range must be the statement's.
//@ func (*Analysis).cgRepeatStat
//@   props C05 C14
//@   at call CreateScopeInfo#0 before assert[scope-range-is-the-whole-statement] arg2 == node.Loc && arg0 == a.curScope
//@ end
//@ func (*Analysis).cgForNumStat
//@   props C05 C14
//@   at call CreateScopeInfo#0 before assert[scope-range-is-the-whole-statement] arg2 == node.Loc && arg0 == a.curScope
//@ end
//@ func (*Analysis).cgForInStat
//@   props C05 C14
//@   at call CreateScopeInfo#0 before assert[scope-range-is-the-whole-statement] arg2 == node.Loc && arg0 == a.curScope
//@ end
//@ func (*Analysis).cgDoStat
//@   props C05 C14
//@   at call CreateScopeInfo#0 before assert[scope-range-is-the-whole-statement] arg2 == node.Loc && arg0 == a.curScope
//@ end
//@ func (*Analysis).cgWhileStat
//@   props C05 C14
//@   at call CreateScopeInfo#0 before assert[scope-range-is-the-whole-statement] arg2 == node.Loc && arg0 == a.curScope
//@ end

// ---- C17: the switch of the call-parameter COUNT check (type 10) gates only the count reports ----
// Proved: a count report is made only while the count switch is on. NOT claimed: reading the code, ignoring type 10 also
// skips the parameter TYPE check (type 24, which has its own switches); no failing input could be constructed on the
// real code (the type check produced no diagnostic in the attempts), so this is neither a finding nor an obligation.
//@ func (*Analysis).isNeedCheck
//@   pure
//@ end
//@ func (*Analysis).cgFuncCallParamCheck
//@   props C17
//@   at call InsertError#* before assert[count-report-only-when-its-switch-is-on] arg1 == common.CheckErrorCallParam && !old(has(common.GConfig.IgnoreErrorTypeMap, common.CheckErrorCallParam))
//@ end

// ---- C20: repeated if / elseif condition (type 19) ----
//@ func (*Analysis).cgIfStat
//@   props C20
//@   at call InsertRelateError#0 before assert[duplicate-if-only-for-structurally-equal-conditions] arg1 == common.CheckErrorDuplicateIf && 0 <= i && i < j && j < len(node.Exps)
//@        && CompExp(node.Exps[i], node.Exps[j]) && a.checkTerm == results.CheckTermFirst
// the else branch is not a condition (the parser stands a `true` in for it, ElseFlag): it is never the second of a pair
//@   at call InsertRelateError#0 before assert[else-branch-is-not-a-condition] !(node.ElseFlag && j == len(node.Exps) - 1)
//@   loop for:j<len(node.Exps) exits-early-only-if [every-later-condition-is-compared] false
//@   loop for:j<len(node.Exps) invariant 0 <= i && i < j
//@   loop range:node.Exps#0 invariant rangeindex >= -1
//@   loop range:node.Exps#0 exits-early-only-if [every-condition-starts-a-comparison] false
//@ end

// ---- C20: duplicate keys of a table constructor (type 5) ----
// Keys are compared by the canonical key string of GetTableConstuctorKeyStr (which separates ["1"] from [1] and
// [k] from k). Every keyed field leaves its canonical key recorded - so that a later field with the same key IS
// reported -, and a report is made only for a field whose canonical key had been recorded by an earlier field.
//@ func (*Analysis).cgTableConstructorExp
//@   props C20
//@   loop range:node.KeyExps step [canonical-key-of-every-keyed-field-is-recorded] len(strKey) > 0 ==> has(tabKeyMap, strKey)
//@   at call InsertRelateError#0 before assert[duplicate-key-only-for-a-canonical-key-seen-before] arg1 == common.CheckErrorTableDuplicateKey && has(tabKeyMap, strKey) && arg3 == loc
//@ end

// ---- C20: more names than values in a local declaration (type 8) ----
// `local a, b, c = x, 1` leaves c without a value: reported only when EVERY initialiser is single-valued (a name or a
// literal) - a call, "...", a table or an operator expression anywhere in the list may supply the missing values or is
// not judged; and "more values than names" only when there are more values than names
//@ func (*Analysis).cgLocalVarDeclStat
//@   props C20
//@   at call InsertError#0 before assert[too-many-values-pattern] arg1 == common.CheckErrorLocalParamNum && len(node.NameList) < len(node.ExpList)
//@   at call InsertError#1 before assert[shortfall-only-when-every-initialiser-is-single-valued] arg1 == common.CheckErrorLocalParamNum
//@        && len(node.NameList) > len(node.ExpList) && forall(k, 0, len(node.ExpList), common.IsOneValueType(node.ExpList[k]))
//@   loop for:i<nExps invariant [C20] 0 <= i && i <= nExps && nExps == len(node.ExpList) && nNames == len(node.NameList) && nNames > nExps
//@        && (canWarning ==> forall(k, 0, i, common.IsOneValueType(node.ExpList[k])))
//@ end

// ---- C05: a for loop's control variables are visible in its body only ----
// every control variable records the range of the loop body (IsCorrectPosition confines its visibility to that range;
// completion asks the same predicate, so the clause also carries C14 - seed C14m)
//@ func (*Analysis).cgForNumStat
//@   props C05 C06 C11 C14
//@   at call cgBlock#0 before assert[control-variable-is-confined-to-the-loop-body] locVar.ForBodyLoc == node.Block.Loc
//@ end
//@ func (*Analysis).cgForInStat
//@   props C05 C06 C11 C14
//@   loop range:node.NameList step [control-variable-is-confined-to-the-loop-body] locVar.ForBodyLoc == node.Block.Loc
//@ end

// ---- C01: no index out of range while classifying an assignment target ----
// bounds only (the rest of the analysis is outside the C01 sweep): the table name is split at "." and its parts are
// indexed; a name such as "_G" that comes from a STRING prefix - ("_G").x = 1 - has a single part
//@ func (*Analysis).checkLeftAssign
//@   sweep C01 -nil -div -assert-type -panic -extern-pre -typed-nil
//@ end

// ---- C20: what counts as a float literal for the float-equality check (type 21) ----
// a float literal, also behind a sign or in parentheses: -1.5, (1.5) (fix d0845f3; before, only the bare literal)
//@ func isFloatLiteral
//@   props C20
//@   functional
//@   assigns nothing
//@   ensures[float-literal-possibly-signed-or-parenthesised] result <==> (typeis(exp, "*ast.FloatExp")
//@        || (typeis(exp, "*ast.ParensExp") && isFloatLiteral(as(exp, "*ast.ParensExp").Exp))
//@        || (typeis(exp, "*ast.UnopExp") && as(exp, "*ast.UnopExp").Op == lexer.TkOpUnm && isFloatLiteral(as(exp, "*ast.UnopExp").Exp)))
//@ end

// ---- C07: the one-line idiom `x = x or 1` ----
// a read of a global whose only definition is that very statement is exempt from the "defined later" report (type 3)
// only when definition and read are on the SAME line - a definition further down does not make the read legitimate
//@ func (*Analysis).ignoreCircleDefine
//@   props C07
//@   ensures[exempt-only-for-a-definition-on-the-line-of-the-read] result ==> binParentExp != nil && loc.StartLine == findVar.Loc.StartLine
//@   ensures[exempt-only-inside-a-comparison-or-a-logical-operator] result ==> binParentExp.Op == lexer.TkOpEq || binParentExp.Op == lexer.TkOpNe || binParentExp.Op == lexer.TkOpAnd || binParentExp.Op == lexer.TkOpOr
//@ end

// ---- C06 / C11: the reference walk replaces `self` by the method's table only when that self is not shadowed ----
//@ func (*Analysis).findNameStr
//@   props C06 C11
//@   at call ChangeSelfToReferVar#0 before assert[self-is-rewritten-only-when-it-is-not-shadowed] hits("isShadowedSelf#0") == 1 && !lastresult("isShadowedSelf#0")
//@ end
//@ func (*Analysis).isShadowedSelf
//@   props C06 C11
//@   at call FindLocVar#0 before assert[shadowing-is-decided-by-a-scope-lookup-at-the-occurrence] arg0 == a.curScope && streq(arg1, "self") && arg2 == node.Loc
//@ end
