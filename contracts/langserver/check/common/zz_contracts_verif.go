//go:build verif

// Contracts for package common (comment-only; read by /verif lhv).
package common

// ---- C09: the best require/dofile candidate must not depend on map iteration order ----
// GetBestMatchReferFile collects candidates by ranging over a Go map and takes sort.Sort(...)[0];
// sort.Sort is not stable, so the comparison has to be a strict total order on distinct candidates.
//@ spec lessMatch(si int, ci int, sj int, cj int) bool = si > sj || (si == sj && ci < cj)
//@ lemma lessMatch_total [C09]: forall si int, ci int, sj int, cj int :: ci != cj ==> (lessMatch(si, ci, sj, cj) != lessMatch(sj, cj, si, ci))
//@ lemma lessMatch_transitive [C09]: forall si int, ci int, sj int, cj int, sk int, ck int :: lessMatch(si, ci, sj, cj) && lessMatch(sj, cj, sk, ck) ==> lessMatch(si, ci, sk, ck)

//@ func (*resultSorterMatch).Less
//@   props C09
//@   sweep C01
//@   requires 0 <= i && i < len(s.results) && 0 <= j && j < len(s.results)
//@   ensures[less-is-total-order] result <==> lessMatch(s.results[i].score, strord(s.results[i].candidateStr), s.results[j].score, strord(s.results[j].candidateStr))
//@ end
