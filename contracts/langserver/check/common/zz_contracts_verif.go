//go:build verif

// Contracts for package common (comment-only; read by /verif lhv).
package common

// ---- C09: the best require/dofile candidate must not depend on map iteration order ----
// GetBestMatchReferFile collects candidates by ranging over a Go map and takes sort.Sort(...)[0];
// sort.Sort is not stable, so the comparison has to be a strict total order on distinct candidates.
//@ spec lessMatch(si int, ci int, sj int, cj int) bool = si > sj || (si == sj && ci < cj)
//@ lemma lessMatch_total [C09]: forall si int, ci int, sj int, cj int :: ci != cj ==> (lessMatch(si, ci, sj, cj) != lessMatch(sj, cj, si, ci))
//@ lemma lessMatch_transitive [C09]: forall si int, ci int, sj int, cj int, sk int, ck int :: lessMatch(si, ci, sj, cj) && lessMatch(sj, cj, sk, ck) ==> lessMatch(si, ci, sk, ck)

//@ func (*resultSorterMatch).Less
//@   props C09
//@   sweep C01
//@   requires 0 <= i && i < len(s.results) && 0 <= j && j < len(s.results)
//@   ensures[less-is-total-order] result <==> lessMatch(s.results[i].score, strord(s.results[i].candidateStr), s.results[j].score, strord(s.results[j].candidateStr))
//@ end

// ---- C17: configuration switches ----
// handleNotJSONCheckFlag turns the positional switch list into the set of ignored diagnostic types.
//@ func (*GlobalConfig).handleNotJSONCheckFlag
//@   props C17
//@   sweep C01
//@   requires g.IgnoreErrorTypeMap != nil
//@   requires[globals-initialised] jsonConfig != nil && GConfig != nil && GConfig.ReferOtherFileMap != nil && GConfig.LuaInMap != nil
//@   ensures[not-json-mode] !g.ReadJSONFlag
// the table of ignored names exists on every path (the master-off path returned before it was made: a local run then
// wrote into a nil map at initialize) and an existing one is kept (a later settings change used to empty it): fix ee11ea2
//@   ensures[ignored-names-table-exists-and-is-kept] g.IgnoreVarMap != nil && (old(g.IgnoreVarMap) != nil ==> g.IgnoreVarMap == old(g.IgnoreVarMap))
//@   ensures[master-switch] len(checkFlagList) >= 1 ==> g.showWarnFlag == checkFlagList[0]
//@   ensures[master-off-ignores-all] len(checkFlagList) >= 1 && !checkFlagList[0] ==> forall(t, 1, 30, has(g.IgnoreErrorTypeMap, t))
//@   ensures[type-ignored-iff-switch-off] len(checkFlagList) >= 1 && checkFlagList[0] ==>
//@        forall(t, 1, 30, has(g.IgnoreErrorTypeMap, t) <==> (t > len(checkFlagList) - 1 || !checkFlagList[t]))
//@   ensures[every-valid-error-rule-compiled] forall(k, 0, len(ignoreFileOrDirErr), regexp_compiles(ignoreFileOrDirErr[k]) ==> has(g.IgnoreErrorFileOrFloderRegexp, ignoreFileOrDirErr[k]))
//@   loop 2 invariant rangeindex >= -1 && g.IgnoreErrorFileOrFloderRegexp != nil
//@          && forall(k, 0, rangeindex + 1, regexp_compiles(ignoreFileOrDirErr[k]) ==> has(g.IgnoreErrorFileOrFloderRegexp, ignoreFileOrDirErr[k]))
//@   loop 3 invariant 1 <= i && i <= 30 && g.IgnoreErrorTypeMap != nil && g.IgnoreErrorTypeMap == old(g.IgnoreErrorTypeMap) && forall(t, 1, i, has(g.IgnoreErrorTypeMap, t))
//@          && forall(k, 0, len(ignoreFileOrDirErr), regexp_compiles(ignoreFileOrDirErr[k]) ==> has(g.IgnoreErrorFileOrFloderRegexp, ignoreFileOrDirErr[k]))
//@   loop 4 invariant 1 <= i && i <= 30 && g.IgnoreErrorTypeMap != nil && g.showWarnFlag
//@          && forall(t, 1, i, has(g.IgnoreErrorTypeMap, t) <==> (t > len(checkFlagList) - 1 || !checkFlagList[t]))
//@          && forall(t, i, 30, !has(g.IgnoreErrorTypeMap, t))
//@          && forall(k, 0, len(ignoreFileOrDirErr), regexp_compiles(ignoreFileOrDirErr[k]) ==> has(g.IgnoreErrorFileOrFloderRegexp, ignoreFileOrDirErr[k]))
//@ end

// IsIgnoreErrorFile is the single choke point every diagnostic passes (FileResult.InsertRelateError).
//@ func (*GlobalConfig).IsIgnoreErrorFile
//@   props C17
//@   sweep C01
//@   ensures[master-switch-off] !g.showWarnFlag ==> result
//@   ensures[ignored-type] has(g.IgnoreErrorTypeMap, errType) ==> result
//@   ensures[nothing-else-ignores] g.showWarnFlag && !has(g.IgnoreErrorTypeMap, errType) && len(g.IgnoreErrorFloderVec) == 0 && len(g.IgnoreErrorFileVec) == 0
//@        && len(g.IgnoreFileErrTypesMap) == 0 ==> !result
//@ end

// each rule is matched as a regular expression with ITS OWN compiled pattern, taken from the table of its rule kind
// (folder and file rules share one table, per-file type rules have their own); a rule that has a compiled pattern and
// did not already decide by substring is always consulted
//@ func (*GlobalConfig).IsIgnoreErrorFile
//@   props C17
//@   at call (*regexp.Regexp).MatchString#0 before assert[folder-rule-uses-its-own-pattern] has(g.IgnoreErrorFileOrFloderRegexp, floderStr) && arg0 == g.IgnoreErrorFileOrFloderRegexp[floderStr] && arg1 == strFile
//@   at call (*regexp.Regexp).MatchString#1 before assert[file-rule-uses-its-own-pattern] has(g.IgnoreErrorFileOrFloderRegexp, fileStr) && arg0 == g.IgnoreErrorFileOrFloderRegexp[fileStr] && arg1 == strFile
//@   at call (*regexp.Regexp).MatchString#2 before assert[type-rule-uses-its-own-pattern] has(g.IgnoreFileErrTypesRegexp, fileStr) && arg0 == g.IgnoreFileErrTypesRegexp[fileStr] && arg1 == strFile
//@   loop range:g.IgnoreFileErrTypesMap step [compiled-type-rule-is-consulted] has(g.IgnoreFileErrTypesRegexp, fileStr) ==> hits("(*regexp.Regexp).MatchString#2") == prev(hits("(*regexp.Regexp).MatchString#2")) + 1
//@   loop range:g.IgnoreErrorFileVec step [compiled-file-rule-is-consulted] has(g.IgnoreErrorFileOrFloderRegexp, fileStr) ==> hits("(*regexp.Regexp).MatchString#1") == prev(hits("(*regexp.Regexp).MatchString#1")) + 1
//@   loop range:g.IgnoreErrorFloderVec step [compiled-folder-rule-is-consulted] has(g.IgnoreErrorFileOrFloderRegexp, floderStr) ==> hits("(*regexp.Regexp).MatchString#0") == prev(hits("(*regexp.Regexp).MatchString#0")) + 1
//@ end

// the error-ignore rules are written relative to the workspace (like the rules IsIgnoreCompleteFile applies): the directories
// above the workspace root take no part in the match (fix: the absolute path was matched, so a folder rule "tests/"
// silenced a whole workspace that merely lies below a directory tests/)
//@ func (*GlobalConfig).IsIgnoreErrorFile
//@   props C17
//@   at call strings.TrimPrefix#0 before assert[workspace-root-is-what-is-cut-off] arg0 == old(strFile) && arg1 == lastresult("(*DirManager).GetMainDir#0")
//@   at call strings.Contains#0 before assert[folder-rules-see-the-path-below-the-workspace-root] hits("(*DirManager).GetMainDir#0") == 1 && (len(lastresult("(*DirManager).GetMainDir#0")) > 0 && hasPrefix(old(strFile), lastresult("(*DirManager).GetMainDir#0")) ==> hits("strings.TrimPrefix#0") == 1 && arg0 == lastresult("strings.TrimPrefix#0"))
//@   at call strings.Contains#1 before assert[file-rules-see-the-path-below-the-workspace-root] hits("(*DirManager).GetMainDir#0") == 1 && (len(lastresult("(*DirManager).GetMainDir#0")) > 0 && hasPrefix(old(strFile), lastresult("(*DirManager).GetMainDir#0")) ==> hits("strings.TrimPrefix#0") == 1 && arg0 == lastresult("strings.TrimPrefix#0"))
//@   at call strings.Contains#2 before assert[type-rules-see-the-path-below-the-workspace-root] hits("(*DirManager).GetMainDir#0") == 1 && (len(lastresult("(*DirManager).GetMainDir#0")) > 0 && hasPrefix(old(strFile), lastresult("(*DirManager).GetMainDir#0")) ==> hits("strings.TrimPrefix#0") == 1 && arg0 == lastresult("strings.TrimPrefix#0"))
//@ end

// ignore rules for whole files / folders: a path is declared NOT ignored only after every rule has been tried - a rule
// that is not a valid regular expression acts as a plain substring rule and does not hide the rules after it
//@ func (*GlobalConfig).isIgnoreFloder
//@   props C17
//@   ensures[not-ignored-only-after-every-folder-rule-was-tried] !result ==> hits("strings.Contains#0") == len(g.IgnoreHandleFolderVec)
//@   loop 0 invariant rangeindex >= -1 && hits("strings.Contains#0") == rangeindex + 1 && rangeindex + 1 <= len(g.IgnoreHandleFolderVec)
//@ end
//@ func (*GlobalConfig).isIgnoreFile
//@   props C17
//@   ensures[not-ignored-only-after-every-file-rule-was-tried] !result ==> hits("strings.Contains#0") == len(g.IgnoreHandleFileVec)
//@   loop 0 invariant rangeindex >= -1 && hits("strings.Contains#0") == rangeindex + 1 && rangeindex + 1 <= len(g.IgnoreHandleFileVec)
//@ end

//@ func (*GlobalConfig).IsSpecialCheck
//@   props C17
//@   sweep C01
// (the goto-label check, type 9, is made in the same analysis round: it keeps the round alive too - fix 5060e5d)
//@   ensures[gate] result <==> (g.showWarnFlag && (!has(g.IgnoreErrorTypeMap, 2) || !has(g.IgnoreErrorTypeMap, 3) || !has(g.IgnoreErrorTypeMap, 10)
//@        || !has(g.IgnoreErrorTypeMap, 11) || !has(g.IgnoreErrorTypeMap, 12) || !has(g.IgnoreErrorTypeMap, 9)))
//@   loop 0 invariant rangeindex >= -1 && g.showWarnFlag && len(errTypeList) == 6 && errTypeList[0] == 2 && errTypeList[1] == 3 && errTypeList[2] == 10 && errTypeList[3] == 11 && errTypeList[4] == 12 && errTypeList[5] == 9
//@          && forall(k, 0, rangeindex + 1, has(g.IgnoreErrorTypeMap, errTypeList[k]))
//@ end

// luahelper.json path: the same rule must act the same as through client settings - every valid
// IgnoreFileErr / IgnoreFileErrTypes pattern gets its compiled entry (IsIgnoreErrorFile silently
// skips a rule that has none).
//@ func (*GlobalConfig).ReadConfig
//@   props C17
//@   requires g.IgnoreErrorTypeMap != nil
//@   requires[globals-initialised] jsonConfig != nil && GConfig != nil && GConfig.ReferOtherFileMap != nil && GConfig.LuaInMap != nil
//@   ensures[json-error-rules-compiled] result == nil && g.ReadJSONFlag ==>
//@        forall(k, 0, len(jsonConfig.IgnoreFileErr), regexp_compiles(jsonConfig.IgnoreFileErr[k]) ==> has(g.IgnoreErrorFileOrFloderRegexp, jsonConfig.IgnoreFileErr[k]))
//@   loop range:jsonConfig.IgnoreFileErr invariant rangeindex >= -1 && g.IgnoreErrorFileOrFloderRegexp != nil && g.ReadJSONFlag
//@        && forall(k, 0, rangeindex + 1, regexp_compiles(jsonConfig.IgnoreFileErr[k]) ==> has(g.IgnoreErrorFileOrFloderRegexp, jsonConfig.IgnoreFileErr[k]))
//@   loop range:jsonConfig.IgnoreLocalNoUseVars invariant g.ReadJSONFlag
//@        && forall(k, 0, len(jsonConfig.IgnoreFileErr), regexp_compiles(jsonConfig.IgnoreFileErr[k]) ==> has(g.IgnoreErrorFileOrFloderRegexp, jsonConfig.IgnoreFileErr[k]))
//@   loop range:jsonConfig.ReferFrameFiles invariant g.ReadJSONFlag
//@        && forall(k, 0, len(jsonConfig.IgnoreFileErr), regexp_compiles(jsonConfig.IgnoreFileErr[k]) ==> has(g.IgnoreErrorFileOrFloderRegexp, jsonConfig.IgnoreFileErr[k]))
//@ end

// ---- C05 / C14: the innermost scope that contains the cursor ----
// line from 1, column from 0. A position is inside a range when it is between its two end points (inclusive).
//@ spec inLoc(sl int, sc int, el int, ec int, line int, col int) bool =
//@      sl <= line && line <= el && (line == sl ==> col >= sc) && (line == el ==> col <= ec)
// Scope tree shape relied on by FindMinScope's early exits: children are non-nil and ordered by start line
// (the scope builder appends them in source order). ASSUMED for the tree handed in (requires), used recursively.
//@ rec wfScope(s *ScopeInfo) bool
//@ axiom wfScope_unfold: forall s *ScopeInfo :: wfScope(s) :: wfScope(s) && s != nil ==>
//@      forall(k, 0, len(s.SubScopes), s.SubScopes[k] != nil && wfScope(s.SubScopes[k]))
//@      && forall(i, 0, len(s.SubScopes), forall(j, i, len(s.SubScopes), s.SubScopes[i].Loc.StartLine <= s.SubScopes[j].Loc.StartLine))

//@ func isInLocation
//@   props C05 C14 C06 C11 C13
//@   sweep C01
//@   pure
//@   requires loc != nil
//@   ensures[is-containment] result <==> inLoc(loc.StartLine, loc.StartColumn, loc.EndLine, loc.EndColumn, line, column)
//@ end

// (find-references, rename and hover map the request position to its scope through the same function: C06, C11, C13)
//@ func (*ScopeInfo).FindMinScope
//@   props C05 C14 C06 C11 C13
//@   sweep C01
//@   requires[scope-tree-shape] wfScope(scope)
//@   ensures[nil-iff-outside] minScope == nil <==> !inLoc(scope.Loc.StartLine, scope.Loc.StartColumn, scope.Loc.EndLine, scope.Loc.EndColumn, line, column)
//@   ensures[result-contains-cursor] minScope != nil ==> inLoc(minScope.Loc.StartLine, minScope.Loc.StartColumn, minScope.Loc.EndLine, minScope.Loc.EndColumn, line, column)
//@   ensures[result-is-innermost] minScope != nil ==> forall(k, 0, len(minScope.SubScopes),
//@        !inLoc(minScope.SubScopes[k].Loc.StartLine, minScope.SubScopes[k].Loc.StartColumn, minScope.SubScopes[k].Loc.EndLine, minScope.SubScopes[k].Loc.EndColumn, line, column))
//@   ensures[result-shape] minScope != nil ==> wfScope(minScope)
//@   loop 0 invariant rangeindex >= -1 && minScope == scope && forall(k, 0, rangeindex + 1,
//@        !inLoc(scope.SubScopes[k].Loc.StartLine, scope.SubScopes[k].Loc.StartColumn, scope.SubScopes[k].Loc.EndLine, scope.SubScopes[k].Loc.EndColumn, line, column))
//@   loop 0 decreases len(scope.SubScopes) - rangeindex
// the scan of the children stops early only at a child that contains the cursor - not at a child that merely starts
// below the line: children are not always registered in source order (fix 640e307)
//@   loop 0 exits-early-only-if [scan-stops-only-at-a-child-containing-the-cursor] inLoc(subScope.Loc.StartLine, subScope.Loc.StartColumn, subScope.Loc.EndLine, subScope.Loc.EndColumn, line, column)
//@ end

//@ typeinv VarInfoList: len(self.VarVec) >= 1 && forall(k, 0, len(self.VarVec), self.VarVec[k] != nil)
//@ typeinv ScopeInfo: nonnilvals(self.LocVarMap)
//@ typeinv ScopeInfo: forall(k, 0, len(self.SubScopes), self.SubScopes[k] != nil)
//@ typeinv VarInfo: nonnilvals(self.SubMaps)
//@ typeinv CreateTypeList: forall(k, 0, len(self.List), self.List[k] != nil)
//@ typeinv OneAliasInfo: self.AliasState != nil
//@ typeinv AnnotateFile: forallvals(v, self.CreateTypeMap, forall(k, 0, len(v.List), v.List[k] != nil))

// ---- C05: visibility of a local declaration at a use position ----
// Lua: a local is visible after its declaration, not inside its own initialiser; "local function f" sees itself.
// The declaration range of a "local function" lies inside the function expression's range.
//@ spec selfFunc(v *VarInfo) bool = typeis(v.ReferExp, "*ast.FuncDefExp")
//@      && locContains(as(v.ReferExp, "*ast.FuncDefExp").Loc.StartLine, as(v.ReferExp, "*ast.FuncDefExp").Loc.StartColumn,
//@                     as(v.ReferExp, "*ast.FuncDefExp").Loc.EndLine, as(v.ReferExp, "*ast.FuncDefExp").Loc.EndColumn,
//@                     v.Loc.StartLine, v.Loc.StartColumn, v.Loc.EndLine, v.Loc.EndColumn)
//@ spec inInitFunc(v *VarInfo, sl int, sc int, el int, ec int) bool = typeis(v.ReferExp, "*ast.FuncDefExp")
//@      && locContains(as(v.ReferExp, "*ast.FuncDefExp").Loc.StartLine, as(v.ReferExp, "*ast.FuncDefExp").Loc.StartColumn,
//@                     as(v.ReferExp, "*ast.FuncDefExp").Loc.EndLine, as(v.ReferExp, "*ast.FuncDefExp").Loc.EndColumn, sl, sc, el, ec)
//@ spec inInitName(v *VarInfo, sl int, sc int, el int, ec int) bool = typeis(v.ReferExp, "*ast.NameExp")
//@      && locContains(as(v.ReferExp, "*ast.NameExp").Loc.StartLine, as(v.ReferExp, "*ast.NameExp").Loc.StartColumn,
//@                     as(v.ReferExp, "*ast.NameExp").Loc.EndLine, as(v.ReferExp, "*ast.NameExp").Loc.EndColumn, sl, sc, el, ec)
//@ spec inInitCall(v *VarInfo, sl int, sc int, el int, ec int) bool = typeis(v.ReferExp, "*ast.FuncCallExp")
//@      && locContains(as(v.ReferExp, "*ast.FuncCallExp").Loc.StartLine, as(v.ReferExp, "*ast.FuncCallExp").Loc.StartColumn,
//@                     as(v.ReferExp, "*ast.FuncCallExp").Loc.EndLine, as(v.ReferExp, "*ast.FuncCallExp").Loc.EndColumn, sl, sc, el, ec)
// The control variables of a for loop are visible in the loop body only - not in the expressions of the loop header
// (`for i = i, n do`: the header i is the outer one); a lookup at the declaration itself still finds it. ForBodyLoc is
// the body's range for a control variable and the zero range for every other local.
//@ spec inForBody(v *VarInfo, sl int, sc int, el int, ec int) bool =
//@      (v.ForBodyLoc.StartLine == 0 && v.ForBodyLoc.StartColumn == 0 && v.ForBodyLoc.EndLine == 0 && v.ForBodyLoc.EndColumn == 0)
//@      || locContains(v.ForBodyLoc.StartLine, v.ForBodyLoc.StartColumn, v.ForBodyLoc.EndLine, v.ForBodyLoc.EndColumn, sl, sc, el, ec)
//@      || locContains(v.Loc.StartLine, v.Loc.StartColumn, v.Loc.EndLine, v.Loc.EndColumn, sl, sc, el, ec)
// A local declared by a `local` statement is not visible inside that statement (`local x = x + 1`, `local a, b = b, a`:
// the names on the right are the outer ones); a lookup at the declared name itself still finds it. DeclStatLoc is the
// statement's range for such a local and the zero range for every other binding. One exception is kept by the code on
// purpose: inside the TABLE CONSTRUCTOR that initialises it the variable stays findable (key completion / hover /
// definition on `local t = { k = 1 }` look t up at the cursor) - there the own-initialiser rule is still broken.
//@ spec inDeclStat(v *VarInfo, sl int, sc int, el int, ec int) bool =
//@      !(v.DeclStatLoc.StartLine == 0 && v.DeclStatLoc.StartColumn == 0 && v.DeclStatLoc.EndLine == 0 && v.DeclStatLoc.EndColumn == 0)
//@      && locContains(v.DeclStatLoc.StartLine, v.DeclStatLoc.StartColumn, v.DeclStatLoc.EndLine, v.DeclStatLoc.EndColumn, sl, sc, el, ec)
//@      && !locContains(v.Loc.StartLine, v.Loc.StartColumn, v.Loc.EndLine, v.Loc.EndColumn, sl, sc, el, ec)
//@ spec inInitTable(v *VarInfo, sl int, sc int, el int, ec int) bool = typeis(v.ReferExp, "*ast.TableConstructorExp")
//@      && locContains(as(v.ReferExp, "*ast.TableConstructorExp").Loc.StartLine, as(v.ReferExp, "*ast.TableConstructorExp").Loc.StartColumn,
//@                     as(v.ReferExp, "*ast.TableConstructorExp").Loc.EndLine, as(v.ReferExp, "*ast.TableConstructorExp").Loc.EndColumn, sl, sc, el, ec)
//@ spec visible(v *VarInfo, sl int, sc int, el int, ec int) bool = locBefore(v.Loc.StartLine, v.Loc.StartColumn, sl, sc)
//@      && inForBody(v, sl, sc, el, ec)
//@      && (!inDeclStat(v, sl, sc, el, ec) || inInitTable(v, sl, sc, el, ec))
// (the expression a local was LAST ASSIGNED - ReferExp is re-pointed by a later assignment - plays no part: `local f;
// f = function() return f() end` sees f; until fix cbb7602 a cursor inside that expression did not)

//@ func (*VarInfo).IsCorrectPosition
//@   props C05 C06 C07 C11 C13 C14
//@   sweep C01
//@   ensures[is-lua-visibility] result <==> visible(varInfo, loc.StartLine, loc.StartColumn, loc.EndLine, loc.EndColumn)
// from the property statement: "a local is not visible inside its own initialiser" - for every kind of initialiser and
// every name of the statement; fails for table-constructor initialisers (known finding, see the exception above)
//@   ensures[C05,not-visible-inside-its-own-declaring-statement] inDeclStat(varInfo, loc.StartLine, loc.StartColumn, loc.EndLine, loc.EndColumn) ==> !result
// what does hold: everywhere in the declaring statement outside such a table constructor
//@   ensures[C05,not-visible-inside-its-own-declaring-statement-outside-a-table-constructor] inDeclStat(varInfo, loc.StartLine, loc.StartColumn, loc.EndLine, loc.EndColumn)
//@        && !inInitTable(varInfo, loc.StartLine, loc.StartColumn, loc.EndLine, loc.EndColumn) ==> !result
//@ end

// FindLocVar: the nearest enclosing scope that has a visible declaration of the name wins; inside it the LAST one (shadowing).
//@ func (*ScopeInfo).FindLocVar
//@   props C05 C06 C07 C11 C13
//@   sweep C01
//@   ensures[found-is-visible] result1 ==> result0 != nil && visible(result0, loc.StartLine, loc.StartColumn, loc.EndLine, loc.EndColumn)
//@   ensures[last-visible-in-nearest-scope-wins] scope.LocVarMap[name] != nil ==>
//@        forall(k, 0, len(scope.LocVarMap[name].VarVec),
//@            visible(scope.LocVarMap[name].VarVec[k], loc.StartLine, loc.StartColumn, loc.EndLine, loc.EndColumn)
//@            && forall(j, k + 1, len(scope.LocVarMap[name].VarVec), !visible(scope.LocVarMap[name].VarVec[j], loc.StartLine, loc.StartColumn, loc.EndLine, loc.EndColumn))
//@            ==> result1 && result0 == scope.LocVarMap[name].VarVec[k])
//@   ensures[nothing-visible-and-no-parent] scope.Parent == nil && (scope.LocVarMap[name] == nil ||
//@        forall(k, 0, len(scope.LocVarMap[name].VarVec), !visible(scope.LocVarMap[name].VarVec[k], loc.StartLine, loc.StartColumn, loc.EndLine, loc.EndColumn)))
//@        ==> !result1
//@   loop 0 invariant i >= -1 && i < len(locInfoList.VarVec) && locInfoList == scope.LocVarMap[name] && locInfoList != nil
//@        && forall(j, i + 1, len(locInfoList.VarVec), !visible(locInfoList.VarVec[j], loc.StartLine, loc.StartColumn, loc.EndLine, loc.EndColumn))
//@   loop 0 decreases i + 1
//@ end

// ---- C14: completion of local names ----
//@ func (*CompleteCache).ExistStr
//@   props C14
//@   sweep C01
//@   pure
//@ end

// GetCompleteVar offers, for each name, the LAST declaration of the nearest enclosing scope that is
// declared at or before the cursor, and never a declaration that comes later; an inner scope's name is
// not overwritten by an outer one (the cache is consulted first).
//@ func (*ScopeInfo).GetCompleteVar
//@   props C14
//@   sweep C01
//@   requires cache != nil && cache.existMap != nil && completeVar != nil
//@   at call InsertCompleteVar#0 before assert[not-declared-after-cursor] locBefore(locVar.Loc.StartLine, locVar.Loc.StartColumn, loc.StartLine, loc.StartColumn)
// from the property: "visible at the cursor under Lua's scoping" - the same visibility as go-to-definition (not inside
// the declaring statement, not in the header of its for loop)
//@   at call InsertCompleteVar#0 before assert[offered-local-is-visible-at-the-cursor] visible(locVar, loc.StartLine, loc.StartColumn, loc.EndLine, loc.EndColumn)
//@   at call InsertCompleteVar#0 before assert[last-visible-declaration] forall(j, index + 1, len(locInfoList.VarVec),
//@        !visible(locInfoList.VarVec[j], loc.StartLine, loc.StartColumn, loc.EndLine, loc.EndColumn))
//@   at call InsertCompleteVar#0 before assert[inner-scope-shadows-outer] !has(cache.existMap, strName)
//@   at call InsertCompleteVar#0 before assert[offers-the-declaration-itself] locVar == locInfoList.VarVec[index]
//@   loop for:index>=0 invariant index >= -1 && index < len(locInfoList.VarVec) && !has(cache.existMap, strName)
//@        && forall(j, index + 1, len(locInfoList.VarVec),
//@            !visible(locInfoList.VarVec[j], loc.StartLine, loc.StartColumn, loc.EndLine, loc.EndColumn))
//@   loop for:index>=0 decreases index + 1
// the enclosing scopes are searched next, for the same request at the same cursor: what precedes the cursor in an outer
// scope -- also after the start of this scope -- is offered, what follows it is not
//@   at call GetCompleteVar#0 before assert[outer-scopes-are-searched-at-the-cursor] arg0 == scope.Parent && arg1 == completeVar && streq(arg2, fileName)
//@        && arg3.StartLine == loc.StartLine && arg3.StartColumn == loc.StartColumn && arg3.EndLine == loc.EndLine && arg3.EndColumn == loc.EndColumn && arg4 == cache
//@   ensures[outer-scopes-are-searched] scope.Parent != nil ==> hits("GetCompleteVar#0") == 1
// completeness over one scope: every name of the scope is considered; a name that passes the prefix filter, is not
// already offered by an inner scope and has a declaration at or before the cursor IS offered (exactly once); the
// search for the declaration stops early only when one was offered
//@   loop range:scope.LocVarMap exits-early-only-if [every-name-of-the-scope-is-considered] false
//@   loop for:index>=0 exits-early-only-if [search-stops-only-at-a-visible-declaration] visible(locVar, loc.StartLine, loc.StartColumn, loc.EndLine, loc.EndColumn)
//@   loop for:index>=0 invariant hits("InsertCompleteVar#0") == atentry(hits("InsertCompleteVar#0"))
//@   loop range:scope.LocVarMap step [visible-unshadowed-name-is-offered] IsCompleteNeedShow(strName, completeVar) && !prev(has(cache.existMap, strName))
//@        && exists(j, 0, len(locInfoList.VarVec), visible(locInfoList.VarVec[j], loc.StartLine, loc.StartColumn, loc.EndLine, loc.EndColumn))
//@        ==> hits("InsertCompleteVar#0") == prev(hits("InsertCompleteVar#0")) + 1
//@ end
// the prefix filter: a function of the name and the request (it reads nothing else)
//@ func IsCompleteNeedShow
//@   props C14
//@   functional
//@   assigns nothing
//@ end

// The functions that build the scope tree establish the declared type invariants of ScopeInfo / VarInfoList.
//@ func CreateScopeInfo
//@   sweep C01
//@ end

//@ func (*ScopeInfo).InsertLocalVar
//@   sweep C01
//@   requires locVar != nil
//@ end

// C07: a new binding starts unread and without any exemption from the unused-local report
//@ func (*ScopeInfo).AddLocVar
//@   sweep C01
//@   props C07 C05
//@   ensures[C07,new-binding-starts-unread-and-not-exempt] result != nil && !result.IsClose && !result.IsUse && !result.IsParam && !result.IsForParam && result.ReferFunc == nil && result.Loc == loc
//@   ensures[C05,new-binding-has-no-statement-or-loop-range-yet] result.DeclStatLoc.StartLine == 0 && result.DeclStatLoc.StartColumn == 0 && result.DeclStatLoc.EndLine == 0 && result.DeclStatLoc.EndColumn == 0
//@        && result.ForBodyLoc.StartLine == 0 && result.ForBodyLoc.StartColumn == 0 && result.ForBodyLoc.EndLine == 0 && result.ForBodyLoc.EndColumn == 0
//@ end

// ---- C19: document-symbol outline of local declarations ----
//@ func (*ScopeInfo).FindAllLocalVal
//@   props C19
//@   sweep C01
//@   at call append#2 before assert[variable-range-starts-at-its-declaration] oneLocInfo.ReferFunc == nil ==>
//@        oneSymbol.Loc.StartLine == oneLocInfo.Loc.StartLine && oneSymbol.Loc.StartColumn == oneLocInfo.Loc.StartColumn
//@   at call append#0 before assert[plain-variable-range-is-its-declaration] oneSymbol.Loc == oneLocInfo.Loc
// a function-valued local: the range starts no later than the declaring identifier (`local g = function() end`: until
// the fix the range was the function expression alone and left g out)
//@   at call append#2 before assert[function-range-starts-no-later-than-the-identifier] oneLocInfo.ReferFunc != nil ==>
//@        oneSymbol.Loc.StartLine < oneLocInfo.Loc.StartLine || (oneSymbol.Loc.StartLine == oneLocInfo.Loc.StartLine && oneSymbol.Loc.StartColumn <= oneLocInfo.Loc.StartColumn)
// a name declared several times in one scope is described by its LAST declaration there - the one that is in force
// at the end of the scope and that members and function values are attached to
//@   at call append#0 before assert[entry-describes-the-last-declaration-of-the-name] oneLocInfo == locVarinfoList.VarVec[len(locVarinfoList.VarVec) - 1]
//@   at call append#2 before assert[entry-describes-the-last-declaration-of-the-name] oneLocInfo == locVarinfoList.VarVec[len(locVarinfoList.VarVec) - 1]
//@   ensures[nested-blocks-are-visited] old(len(scope.LocVarMap)) == 0 && len(gScopes) == 0 && old(len(scope.SubScopes)) >= 1 ==> hits("FindAllLocalVal#0") >= 1
//@   loop range:scope.SubScopes invariant rangeindex >= -1 && scopeInfos != nil && (rangeindex >= 0 ==> len(scopeInfos) >= 1) && hits("FindAllLocalVal#0") == 0 && !has(scopeInfos, 0)
//@   loop range:gScopes invariant hits("FindAllLocalVal#0") == 0 && scopeInfos != nil && !has(scopeInfos, 0) && (len(gScopes) == 0 && old(len(scope.SubScopes)) >= 1 ==> len(scopeInfos) >= 1)
//@   loop range:scope.LocVarMap invariant hits("FindAllLocalVal#0") == 0 && scopeInfos != nil && !has(scopeInfos, 0)
//@        && (old(len(scope.LocVarMap)) == 0 && len(gScopes) == 0 && old(len(scope.SubScopes)) >= 1 ==> len(scopeInfos) >= 1 && iterpos() == 0)
//@   loop range:oneLocInfo.SubMaps invariant !has(scopeInfos, 0) && scopeInfos != nil && oneLocInfo != nil && oneLocInfo.ReferFunc == nil
//@        && oneSymbol.Loc.StartLine == oneLocInfo.Loc.StartLine && oneSymbol.Loc.StartColumn == oneLocInfo.Loc.StartColumn
//@   loop range:scopeInfos invariant !has(scopeInfos, 0) && hits("FindAllLocalVal#0") >= 0 && (hits("FindAllLocalVal#0") == 0 ==> iterpos() == 0)
//@        && (old(len(scope.LocVarMap)) == 0 && len(gScopes) == 0 && old(len(scope.SubScopes)) >= 1 && iterpos() == 0 ==> len(scopeInfos) >= 1)
//@ end

// ---- C20: syntactic equality of expressions (used by the duplicate-condition and self-assignment checks) ----
// AST nodes are immutable once parsed, so CompExp is a function of its two arguments ("functional").
// CompExp is structural equality of the two trees: it answers true only for nodes of the same kind with equal
// immediate attributes whose components are pairwise CompExp-equal (calls: same callee, same method name or none, the
// SAME NUMBER of arguments, all pairwise equal); function literals and table constructors never compare equal.
//@ func CompExp
//@   props C20
//@   functional
//@   assigns nothing
//@   ensures[equal-only-to-the-same-leaf-kind] result && (typeis(node1, "*ast.NilExp") || typeis(node1, "*ast.TrueExp") || typeis(node1, "*ast.FalseExp") || typeis(node1, "*ast.VarargExp"))
//@        ==> (typeis(node1, "*ast.NilExp") <==> typeis(node2, "*ast.NilExp")) && (typeis(node1, "*ast.TrueExp") <==> typeis(node2, "*ast.TrueExp"))
//@            && (typeis(node1, "*ast.FalseExp") <==> typeis(node2, "*ast.FalseExp")) && (typeis(node1, "*ast.VarargExp") <==> typeis(node2, "*ast.VarargExp"))
//@   ensures[names-equal-iff-same-spelling] typeis(node1, "*ast.NameExp") ==> (result <==> typeis(node2, "*ast.NameExp") && streq(as(node1, "*ast.NameExp").Name, as(node2, "*ast.NameExp").Name))
// (two float literals are the same when they denote the same number - no tolerance: fix 0c359c8)
//@   ensures[floats-by-value] typeis(node1, "*ast.FloatExp") ==> (result <==> typeis(node2, "*ast.FloatExp") && as(node1, "*ast.FloatExp").Val == as(node2, "*ast.FloatExp").Val)
//@   ensures[integers-and-strings-by-value] (typeis(node1, "*ast.IntegerExp") ==> (result <==> typeis(node2, "*ast.IntegerExp") && as(node1, "*ast.IntegerExp").Val == as(node2, "*ast.IntegerExp").Val))
//@        && (typeis(node1, "*ast.StringExp") ==> (result <==> typeis(node2, "*ast.StringExp") && streq(as(node1, "*ast.StringExp").Str, as(node2, "*ast.StringExp").Str)))
//@   ensures[operators-componentwise] (typeis(node1, "*ast.BinopExp") ==> (result <==> typeis(node2, "*ast.BinopExp") && as(node1, "*ast.BinopExp").Op == as(node2, "*ast.BinopExp").Op
//@            && CompExp(as(node1, "*ast.BinopExp").Exp1, as(node2, "*ast.BinopExp").Exp1) && CompExp(as(node1, "*ast.BinopExp").Exp2, as(node2, "*ast.BinopExp").Exp2)))
//@        && (typeis(node1, "*ast.UnopExp") ==> (result <==> typeis(node2, "*ast.UnopExp") && as(node1, "*ast.UnopExp").Op == as(node2, "*ast.UnopExp").Op
//@            && CompExp(as(node1, "*ast.UnopExp").Exp, as(node2, "*ast.UnopExp").Exp)))
//@   ensures[table-access-componentwise] typeis(node1, "*ast.TableAccessExp") ==> (result <==> typeis(node2, "*ast.TableAccessExp")
//@        && CompExp(as(node1, "*ast.TableAccessExp").PrefixExp, as(node2, "*ast.TableAccessExp").PrefixExp) && CompExp(as(node1, "*ast.TableAccessExp").KeyExp, as(node2, "*ast.TableAccessExp").KeyExp))
//@   ensures[calls-need-the-same-callee-and-the-same-number-of-equal-arguments] result && typeis(node1, "*ast.FuncCallExp") ==> typeis(node2, "*ast.FuncCallExp")
//@        && CompExp(as(node1, "*ast.FuncCallExp").PrefixExp, as(node2, "*ast.FuncCallExp").PrefixExp)
//@        && len(as(node1, "*ast.FuncCallExp").Args) == len(as(node2, "*ast.FuncCallExp").Args)
//@        && forall(k, 0, len(as(node1, "*ast.FuncCallExp").Args), CompExp(as(node1, "*ast.FuncCallExp").Args[k], as(node2, "*ast.FuncCallExp").Args[k]))
//@        && (isnil(as(node1, "*ast.FuncCallExp").NameExp) <==> isnil(as(node2, "*ast.FuncCallExp").NameExp))
//@   ensures[function-literals-and-table-constructors-never-equal] typeis(node1, "*ast.FuncDefExp") || typeis(node1, "*ast.TableConstructorExp") ==> !result
//@   loop 0 invariant 0 <= i && i <= len(exp1.Args) && len(exp1.Args) == len(exp2.Args) && forall(k, 0, i, CompExp(exp1.Args[k], exp2.Args[k]))
//@ end

// single-valued expression kinds (a name or a literal): exactly these, by node type
//@ func IsOneValueType
//@   props C20
//@   functional
//@   assigns nothing
//@   ensures[single-valued-iff-name-or-literal] result <==> (typeis(exp, "*ast.NameExp") || typeis(exp, "*ast.StringExp") || typeis(exp, "*ast.LuajitNum") || typeis(exp, "*ast.FloatExp")
//@        || typeis(exp, "*ast.IntegerExp") || typeis(exp, "*ast.FalseExp") || typeis(exp, "*ast.TrueExp") || typeis(exp, "*ast.NilExp"))
//@ end

// GetExpName renders an expression to its canonical name string (AST immutable => functional).
//@ func GetExpName
//@   props C20
//@   functional
//@   assigns nothing
//@ end

// ---- C18: which workspace files are candidates for a require/dofile argument ----
// A candidate must end with "/" + the module path: the leading "/" anchors the match at a directory
// boundary ("ui/panel" must not match ".../gui/panel.lua"). The file index supplies the paths whose
// base name (with suffix) or stem (without) equals the last path component.
//@ func GetBestMatchReferFile
//@   props C18
//@   requires fileIndexInfo != nil
//@   at call append#0 before assert[candidate-ends-at-a-directory-boundary]
//@        (suffixFlag ==> hasSuffix(strFile, concat("/", referFile))) && (!suffixFlag ==> hasSuffix(pathToPreStr, concat("/", referFile)))
//@ end

// C09 (and C18): with several candidates the answer is the minimum of the total order proved for resultSorterMatch.Less,
// which is independent of the map-iteration order the candidates were collected in ONLY IF every candidate takes part:
// each candidate is scored and appended to the list that is sorted, none is filtered out beforehand.
//@ func GetBestMatchReferFile
//@   props C09 C18
//@   loop range:candidateVec step [every-candidate-is-ranked] len(matchResults.results) == prev(len(matchResults.results)) + 1
//@   loop range:candidateVec exits-early-only-if [every-candidate-is-ranked] false
//@   at call sort.Sort#0 before assert[the-list-of-all-candidates-is-what-is-sorted] typeis(arg0, "*common.resultSorterMatch") && as(arg0, "*common.resultSorterMatch") == matchResults
//@ end

// ---- C15: a file's own type table keeps EVERY declaration of a name ----
// a class (or alias) may be declared several times in one file, its fields split over the blocks; each declaration is
// appended to the list stored under the name (the map holds list VALUES, so the grown list has to be stored back)
//@ func (*AnnotateFile).insertNewType
//@   props C15
//@   requires af.CreateTypeMap != nil && oneTypeInfo != nil
//@   ensures[declaration-is-added-to-the-list-stored-under-its-name] has(af.CreateTypeMap, name)
//@        && len(af.CreateTypeMap[name].List) == old(has(af.CreateTypeMap, name) ? len(af.CreateTypeMap[name].List) : 0) + 1
//@        && af.CreateTypeMap[name].List[len(af.CreateTypeMap[name].List) - 1] == oneTypeInfo
//@ end

// one comment block may declare several classes back to back; each gets its OWN field table, so that a ---@field line
// is recorded for the class it follows and for no other
//@ func (*AnnotateFile).analysisAnnotateFragement
//@   props C15
//@   loop range:annotateFragment.Stats step [a-further-class-of-the-block-starts-with-its-own-field-table]
//@        typeis(oneState, "*annotateast.AnnotateClassState") && prev(oneClassInfo.ClassState != nil)
//@        ==> oneClassInfo != prev(oneClassInfo) && oneClassInfo.FieldMap != nil && oneClassInfo.FieldMap != prev(oneClassInfo.FieldMap)
//@            && oneClassInfo.ClassState == as(oneState, "*annotateast.AnnotateClassState")
//@ end

// ---- C08 / C18: the file-name index follows file creation and deletion ----
// Paths are indexed under their base name (last "/" component) and, when it has a ".", under the stem before the first ".".
// Every bucket of the two indexes is a real (non-nil) map: buckets are only ever created by InsertOneFile.
// the configuration object is built in one place (createDefaultGlobalConfig: a composite literal stored in the package
// variable GConfig, with dirManager: createDirManager()), and the unexported field is never written again. ASSUMED at that
// construction site (the engine re-proves type invariants for pointer parameters, not for a literal stored in a global);
// re-proved at the exits of the methods that write GlobalConfig fields (ReadConfig, ...)
//@ typeinv GlobalConfig [C01]: self.dirManager != nil
//@ typeinv FileIndexInfo: self.fileNameMap != nil && self.freFileNameMap != nil
//@ typeinv FileIndexInfo: nonnilvals(self.fileNameMap)
//@ typeinv FileIndexInfo: nonnilvals(self.freFileNameMap)
//@ func (*FileIndexInfo).InsertOneFile
//@   props C08 C18
//@   sweep C01
//@   ensures[inserted-under-base-name] has(f.fileNameMap[splitLast(strFile, "/")], strFile)
//@   ensures[inserted-under-stem] strIndex(splitLast(strFile, "/"), ".") >= 0 ==>
//@        has(f.freFileNameMap[splitLast(strFile, "/")[0:strIndex(splitLast(strFile, "/"), ".")]], strFile)
// the value filed under the path is the path without its suffix in BOTH indexes and on both branches (bucket exists / is
// created): GetBestMatchReferFile matches a suffix-less require against it (seed C08-reinserted-file-indexed-under-bare-name)
//@   ensures[value-is-the-path-without-suffix] streq(f.fileNameMap[splitLast(strFile, "/")][strFile], lastresult("CompleteFilePathToPreStr#0"))
//@   ensures[stem-value-is-the-path-without-suffix] strIndex(splitLast(strFile, "/"), ".") >= 0 ==>
//@        streq(f.freFileNameMap[splitLast(strFile, "/")[0:strIndex(splitLast(strFile, "/"), ".")]][strFile], lastresult("CompleteFilePathToPreStr#0"))
//@ end

//@ func (*FileIndexInfo).RemoveOneFile
//@   props C08 C18
//@   sweep C01
//@   ensures[removed-from-base-name] !has(f.fileNameMap[splitLast(strFile, "/")], strFile)
//@   ensures[removed-from-stem] strIndex(splitLast(strFile, "/"), ".") >= 0 ==>
//@        !has(f.freFileNameMap[splitLast(strFile, "/")[0:strIndex(splitLast(strFile, "/"), ".")]], strFile)
//@ end

// Configured ignore lists, used by the global lookup: functions of their arguments (the configuration is
// not modified while an analysis pass runs - assumed, listed in the evidence).
//@ func (*GlobalConfig).IsIgnoreNameVar
//@   props C06 C07 C11
//@   functional
//@   assigns nothing
//@ end
//@ func (*GlobalConfig).IsIgnoreFileDefineVar
//@   props C06 C07 C11
//@   functional
//@   assigns nothing
//@ end

//@ func (*GlobalConfig).IsGlobalIgnoreErrType
//@   pure
//@ end

// ---- C20: canonical key of a table-constructor field (duplicate-key check, type 5) ----
// integer keys are spelled "#int<decimal>", string keys "#str<text>", a variable key k "!k" (fmt.Sprintf: outside the
// model, not stated): the three kinds differ in their first two bytes, so [1], ["1"] and ["#int1"] are different keys.
// Injectivity WITHIN a kind (strconv.FormatInt, the text itself) is not stated.
//@ func GetTableConstuctorKeyStr
//@   props C20
//@   ensures[integer-key-is-located-at-the-key] typeis(node, "*ast.IntegerExp") ==> loc == as(node, "*ast.IntegerExp").Loc
//@   ensures[integer-keys-have-their-own-spelling] typeis(node, "*ast.IntegerExp") ==> len(strKey) > 4 && strKey[0] == 35 && strKey[1] == 105 && strKey[2] == 110 && strKey[3] == 116
//@   ensures[string-keys-have-their-own-spelling] typeis(node, "*ast.StringExp") ==> len(strKey) == 4 + len(as(node, "*ast.StringExp").Str) && strKey[0] == 35 && strKey[1] == 115 && strKey[2] == 116 && strKey[3] == 114
//@        && loc == as(node, "*ast.StringExp").Loc
//@   ensures[other-expressions-have-no-canonical-key] !typeis(node, "*ast.IntegerExp") && !typeis(node, "*ast.StringExp") && !typeis(node, "*ast.NameExp") ==> len(strKey) == 0
//@ end

// ---- C18: tie-break score of a fuzzy module match ----
// the directories counted are those in front of the LAST occurrence of the module path in the candidate (the file name
// sits at the end of the candidate; a directory of the same name further left must not be mistaken for it), the same
// occurrence whether the module string was given with or without suffix; a candidate without occurrence ranks last
//@ func calcMatchStrScore
//@   props C18
//@   at call strings.Split#0 before assert[directories-in-front-of-the-last-occurrence-are-counted] sametext(arg0, condidateStr) && off(arg0) == off(condidateStr)
//@        && len(arg0) == strLastIndex(condidateStr, referFileName) && streq(arg1, "/")
//@   ensures[candidate-without-occurrence-ranks-last] strLastIndex(condidateStr, referFileName) == -1 ==> score == -1000000
//@   ensures[candidate-with-occurrence-ranks-above-those-without] strLastIndex(condidateStr, referFileName) != -1 ==> hits("strings.Split#0") == 1
//@ end

// ---- C15: the visited set of the walk over parent classes / alias targets ----
// "already visited" means THIS definition (the same object) is in the list - not another definition that merely sits in
// the same file or comment block: one comment block may declare several classes, and each of them must be walked
//@ func (*CreateTypeList).IsRepeateTypeInfo
//@   props C15
//@   requires cl != nil
//@   ensures[visited-only-if-this-very-definition-is-listed] result ==> exists(k, 0, len(cl.List), cl.List[k] == createTypeInfo)
//@   ensures[a-listed-definition-is-visited] forall(k, 0, len(cl.List), cl.List[k] == createTypeInfo ==> result)
//@   loop range:cl.List invariant forall(k, 0, rangeindex + 1, cl.List[k] != createTypeInfo)
//@   assigns nothing
//@ end

// ---- C05: is the cursor on a key of a table constructor? ----
// A request on `k` in `local t = { k = 1 }` is answered as `t.k`. The cursor counts as "on the key" only when it lies
// within the key's own columns (both ends included): one column further right is, in `{x=x}`, already the VALUE x, and
// one column further left is, in `{y=x,x=1}`, still the value before the comma.
//@ func (*ScopeInfo).IsExistLocVarTableStrKey
//@   props C05 C06 C11
//@   loop range:locInfo.VarVec exits-early-only-if [cursor-is-within-the-columns-of-the-key] findLoc.StartLine == line && findLoc.EndLine == line && findLoc.StartColumn <= charactor && charactor <= findLoc.EndColumn
//@ end
//@ func GetSubMapStrKey
//@   props C05 C06 C11
//@   loop range:subMaps exits-early-only-if [cursor-is-within-the-columns-of-the-key-that-matched] findLoc.StartLine == line && findLoc.EndLine == line && (findLoc.StartColumn <= charactor || findLoc.StartColumn < 1) && charactor <= findLoc.EndColumn
//@   loop range:tableVec exits-early-only-if [cursor-is-within-the-columns-of-the-nested-key] findLoc.StartLine == line && findLoc.EndLine == line && (findLoc.StartColumn <= charactor || findLoc.StartColumn < 1) && charactor <= findLoc.EndColumn
//@   ensures[a-match-names-the-table-asked-about] !streq(firstStr, "") ==> streq(firstStr, strName)
//@ end

// ---- C18: a file's path without its extension (what a module name is matched against) ----
// the cut is at a '.' of the FILE NAME: never inside a directory name (fix: /home/john.doe/proj broke every require)
//@ func CompleteFilePathToPreStr
//@   props C18
//@   ensures[cut-is-inside-the-file-name] len(preStr) == 0 || (len(preStr) >= strLastIndex(pathFile, "/") + 1 && len(preStr) < len(pathFile) && pathFile[len(preStr)] == 46)
//@   ensures[prefix-of-the-path] len(preStr) > 0 ==> sametext(preStr, pathFile) && off(preStr) == off(pathFile)
//@ end

// ---- C08 / C18: which files belong to the workspace (only for those does a create / delete event re-resolve the module strings of the other files) ----
// a file below ANY workspace folder is in (fix 17afbda: the prefix test for the additional folders was reversed)
//@ func (*DirManager).IsInDir
//@   props C08 C18
//@   ensures[file-below-an-additional-workspace-folder-is-in] len(d.mainDir) > 0 && exists(k, 0, len(d.subDirVec), hasPrefix(strFile, d.subDirVec[k])) ==> result
//@   ensures[file-below-the-root-folder-is-in] len(d.mainDir) > 0 && hasPrefix(strFile, d.mainDir) ==> result
//@   ensures[nothing-is-in-without-a-root] len(d.mainDir) == 0 ==> !result
//@   loop range:d.subDirVec invariant forall(k, 0, rangeindex + 1, !hasPrefix(strFile, d.subDirVec[k]))
//@ end

// ---- C19: the range of a function-valued variable in an outline contains the identifier it names ----
//@ func FuncSymbolLoc
//@   props C19
//@   sweep C01
//@   ensures[identifier-in-front-of-the-function-is-inside-the-range] (varLoc.StartLine < funcLoc.StartLine || (varLoc.StartLine == funcLoc.StartLine && varLoc.StartColumn < funcLoc.StartColumn))
//@        ==> result.StartLine == varLoc.StartLine && result.StartColumn == varLoc.StartColumn && result.EndLine == funcLoc.EndLine && result.EndColumn == funcLoc.EndColumn
//@   ensures[otherwise-the-range-of-the-function] !(varLoc.StartLine < funcLoc.StartLine || (varLoc.StartLine == funcLoc.StartLine && varLoc.StartColumn < funcLoc.StartColumn)) ==> result == funcLoc
//@ end

// ---- C15 / C14: the completion cache remembers, per label, the slot that holds it ----
// a ---@field label inserted for the first time is indexed at the slot it was appended to (a later class of the
// inheritance list that declares the same field replaces THAT slot - not its neighbour); a known label keeps its slot
//@ func (*CompleteCache).InsertCompleteClassField
//@   props C15 C14
//@   requires cache != nil && cache.existMap != nil && field != nil
//@   requires[known-labels-are-indexed-inside-the-list] has(cache.existMap, label) ==> 0 <= cache.existMap[label] && cache.existMap[label] < len(cache.dataList)
//@   ensures[a-new-label-is-indexed-at-the-slot-it-was-appended-to] !old(has(cache.existMap, label)) ==> has(cache.existMap, label) && cache.existMap[label] == len(cache.dataList) - 1
//@        && len(cache.dataList) == old(len(cache.dataList)) + 1 && streq(cache.dataList[len(cache.dataList) - 1].Label, label)
//@   ensures[a-known-label-is-replaced-in-its-own-slot] old(has(cache.existMap, label)) ==> len(cache.dataList) == old(len(cache.dataList)) && cache.existMap[label] == old(cache.existMap[label])
//@        && streq(cache.dataList[cache.existMap[label]].Label, label)
//@ end

// ---- C05 / C06 / C11: which `self` stands for the table of a colon method ----
// only the implicit first parameter of that method: the first `self` of the method's own parameter scope, and a parameter
//@ func (*FuncInfo).IsImplicitSelf
//@   props C05 C06 C11
//@   ensures[only-the-first-self-parameter-of-a-colon-function] result ==> fun != nil && fun.IsColon && varInfo != nil && varInfo.IsParam && fun.MainScope != nil
//@        && has(fun.MainScope.LocVarMap, "self") && fun.MainScope.LocVarMap["self"].VarVec[0] == varInfo
//@ end

// ---- C14: a bare prefix "self" is completed as a name, not as the method's table ----
//@ func ChangeSelfToVarComplete
//@   props C14
//@   requires completeVar != nil && len(completeVar.StrVec) >= 1
//@   ensures[a-bare-self-prefix-is-left-as-it-is] old(len(completeVar.StrVec) == 1 && !completeVar.LastEmptyFlag) ==> len(completeVar.StrVec) == 1 && completeVar.StrVec == old(completeVar.StrVec) && hits("strings.Split#0") == 0
//@ end

// ---- C04: one location per name component of an assignment target ----
// handleNotNeedDefine indexes this list in parallel with the name components (a.b.c -> 3 locations): a parenthesised
// prefix contributes the locations of what it encloses (not one location for the whole parenthesis), an access the
// locations of its prefix followed by those of its key, a name or a string exactly its own
//@ func GetTableLocList
//@   props C04
//@   at call GetTableLocList#0 before assert[a-parenthesised-prefix-is-looked-into] typeis(node, "*ast.ParensExp") && arg0 == as(node, "*ast.ParensExp").Exp
//@   at call GetTableLocList#1 before assert[an-access-contributes-its-prefix-first] typeis(node, "*ast.TableAccessExp") && arg0 == as(node, "*ast.TableAccessExp").PrefixExp
//@   at call GetTableLocList#2 before assert[then-its-key] typeis(node, "*ast.TableAccessExp") && arg0 == as(node, "*ast.TableAccessExp").KeyExp
//@   ensures[a-parenthesised-prefix-contributes-the-locations-of-what-it-encloses] typeis(node, "*ast.ParensExp") ==> hits("GetTableLocList#0") == 1 && len(locList) == len(lastresult("GetTableLocList#0"))
//@   ensures[an-access-contributes-prefix-then-key] typeis(node, "*ast.TableAccessExp") ==> hits("GetTableLocList#1") == 1 && hits("GetTableLocList#2") == 1 && len(locList) == len(lastresult("GetTableLocList#1")) + len(lastresult("GetTableLocList#2"))
//@   ensures[a-name-or-a-string-contributes-exactly-one-location] typeis(node, "*ast.NameExp") || typeis(node, "*ast.StringExp") ==> len(locList) == 1
//@ end

// ---- C15: the type table of a file ----
// a comment block can hold classes AND aliases (an ---@alias line directly below a class's ---@field lines): every class
// and every alias of every block is registered under its own name - the two kinds do not exclude each other
//@ func (*AnnotateFile).generateNewType
//@   props C15
//@   requires[type-table-is-created-with-the-file] af.CreateTypeMap != nil
//@   loop range:fragment.ClassInfo.ClassList invariant hits("insertNewType#0") == atentry(hits("insertNewType#0")) + rangeindex + 1 && rangeindex + 1 <= len(fragment.ClassInfo.ClassList) && hits("insertNewType#1") == atentry(hits("insertNewType#1"))
//@   loop range:fragment.AliasInfo.AliasList invariant hits("insertNewType#1") == atentry(hits("insertNewType#1")) + rangeindex + 1 && rangeindex + 1 <= len(fragment.AliasInfo.AliasList) && hits("insertNewType#0") == atentry(hits("insertNewType#0"))
//@   loop range:af.sortFragement.results step [every-class-and-every-alias-of-a-block-is-registered] (fragment.ClassInfo != nil ==> hits("insertNewType#0") == prev(hits("insertNewType#0")) + len(fragment.ClassInfo.ClassList))
//@        && (fragment.AliasInfo != nil ==> hits("insertNewType#1") == prev(hits("insertNewType#1")) + len(fragment.AliasInfo.AliasList))
//@   loop range:af.sortFragement.results exits-early-only-if [every-block-is-visited] false
//@   at call insertNewType#0 before assert[class-registered-under-its-own-name] streq(arg1, oneClass.ClassState.Name) && arg2.ClassInfo == oneClass && arg2.LastLine == fragment.LastLine
//@   at call insertNewType#1 before assert[alias-registered-under-its-own-name] streq(arg1, oneAlias.AliasState.Name) && arg2.AliasInfo == oneAlias && arg2.LastLine == fragment.LastLine
//@ end

// ---- C17: what the type-18 (annotation) switches gate ----
// They gate the recording of annotation warnings and nothing else: every head comment block is parsed and analysed, and
// its ---@enum start / end markers are collected (the enum check, type 29, needs them) BEFORE either switch is asked -
// switching type 18 off, globally or for the file, must not remove the diagnostics of another type
//@ func (*AnnotateFile).AnalysisAllComment
//@   props C17
//@   at call IsGlobalIgnoreErrType#0 before assert[the-global-switch-asked-is-type-18] arg1 == CheckErrorAnnotate
//@   at call IsIgnoreErrorFile#0 before assert[the-file-rule-asked-is-type-18-for-this-file] streq(arg1, af.LuaFile) && arg2 == CheckErrorAnnotate
//@   at call IsGlobalIgnoreErrType#0 before assert[block-is-analysed-and-its-enum-markers-collected-before-the-switch-is-asked] hits("analysisAnnotateFragement#0") == hits("ParseCommentFragment#0") && rangeindex + 1 >= len(annotateFragment.Stats)
//@   loop range:commentMap step [every-head-comment-block-is-analysed-whatever-the-switches-say] commentInfo.HeadFlag ==> hits("ParseCommentFragment#0") == prev(hits("ParseCommentFragment#0")) + 1 && hits("analysisAnnotateFragement#0") == prev(hits("analysisAnnotateFragement#0")) + 1
//@   loop range:commentMap invariant hits("analysisAnnotateFragement#0") == hits("ParseCommentFragment#0")
//@   loop range:commentMap exits-early-only-if [every-comment-block-is-visited] false
//@   unchecked typeinv:AnnotateFile.0(af)#0 entries of the file's type table are added by insertNewType only, each a non-nil declaration (its requires, proved in generateNewType); here the table is havocked by the summaries of the callees, so the quantified invariant is assumed at exit
//@ end

// ---- C20 / C04: the location of an expression ----
// The reports of checks 14, 15, 16 and 19 are placed by - and, for 15 / 16, made only when - both operands have a
// location: every kind of expression the parser produces has one, its own (fix 949a855 added the literals; a kind that
// falls out of the switch silently drops the reports whose operand it is)
//@ func GetExpLoc
//@   props C20 C04
//@   ensures[stringexp-has-its-own-location] typeis(node, "*ast.StringExp") ==> loc == as(node, "*ast.StringExp").Loc
//@   ensures[nameexp-has-its-own-location] typeis(node, "*ast.NameExp") ==> loc == as(node, "*ast.NameExp").Loc
//@   ensures[parensexp-has-its-own-location] typeis(node, "*ast.ParensExp") ==> loc == as(node, "*ast.ParensExp").Loc
//@   ensures[funcdefexp-has-its-own-location] typeis(node, "*ast.FuncDefExp") ==> loc == as(node, "*ast.FuncDefExp").Loc
//@   ensures[tableconstructorexp-has-its-own-location] typeis(node, "*ast.TableConstructorExp") ==> loc == as(node, "*ast.TableConstructorExp").Loc
//@   ensures[binopexp-has-its-own-location] typeis(node, "*ast.BinopExp") ==> loc == as(node, "*ast.BinopExp").Loc
//@   ensures[unopexp-has-its-own-location] typeis(node, "*ast.UnopExp") ==> loc == as(node, "*ast.UnopExp").Loc
//@   ensures[varargexp-has-its-own-location] typeis(node, "*ast.VarargExp") ==> loc == as(node, "*ast.VarargExp").Loc
//@   ensures[tableaccessexp-has-its-own-location] typeis(node, "*ast.TableAccessExp") ==> loc == as(node, "*ast.TableAccessExp").Loc
//@   ensures[funccallexp-has-its-own-location] typeis(node, "*ast.FuncCallExp") ==> loc == as(node, "*ast.FuncCallExp").Loc
//@   ensures[nilexp-has-its-own-location] typeis(node, "*ast.NilExp") ==> loc == as(node, "*ast.NilExp").Loc
//@   ensures[trueexp-has-its-own-location] typeis(node, "*ast.TrueExp") ==> loc == as(node, "*ast.TrueExp").Loc
//@   ensures[falseexp-has-its-own-location] typeis(node, "*ast.FalseExp") ==> loc == as(node, "*ast.FalseExp").Loc
//@   ensures[floatexp-has-its-own-location] typeis(node, "*ast.FloatExp") ==> loc == as(node, "*ast.FloatExp").Loc
//@   ensures[integerexp-has-its-own-location] typeis(node, "*ast.IntegerExp") ==> loc == as(node, "*ast.IntegerExp").Loc
//@ end
