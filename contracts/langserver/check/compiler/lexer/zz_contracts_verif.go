//go:build verif

// Contracts for package lexer (comment-only; read by /verif lhv).
// C01: no-panic sweep (bounds, nil, type assertions, division) over every function; helper
// preconditions are checked at each call site. "pure" = loop-free helper whose body is its contract.
package lexer

//@ typeinv Lexer: self.commentMap != nil
//@ typeinv Lexer [C13,C01]: self.nowToken.valid ==> self.line >= self.nowToken.line
//@ typeinv Lexer [C13,C01]: self.line >= 1
//@ typeinv Lexer [C13,C01]: self.aheadToken.valid ==> self.line >= self.aheadToken.line

// ---- C05: order predicates on source ranges (lines from 1, columns from 0) ----
//@ spec locBefore(sl int, sc int, ol int, oc int) bool = sl < ol || (sl == ol && sc <= oc)
//@ spec locContains(sl int, sc int, el int, ec int, osl int, osc int, oel int, oec int) bool =
//@      !(sl > osl || el < oel) && !(sl == osl && sc > osc) && !(el == oel && ec < oec)

//@ func GetRangeLoc
//@   sweep C01
//@   requires beginLoc != nil && endLoc != nil
//@   ensures[C19,C04,from-the-start-of-the-first-to-the-end-of-the-second] result.StartLine == beginLoc.StartLine && result.StartColumn == beginLoc.StartColumn && result.EndLine == endLoc.EndLine && result.EndColumn == endLoc.EndColumn
//@   assigns nothing
//@ end

//@ func GetRangeLocExcludeEnd
//@   sweep C01
//@   requires beginLoc != nil && endLoc != nil
//@ end

//@ func CompareTwoLoc
//@   sweep C01
//@   props C06 C11
//@   requires oneLoc != nil && twoLoc != nil
//@   ensures[C06,C11,is-location-equality] result <==> (oneLoc.StartLine == twoLoc.StartLine && oneLoc.EndLine == twoLoc.EndLine
//@        && oneLoc.StartColumn == twoLoc.StartColumn && oneLoc.EndColumn == twoLoc.EndColumn)
//@   assigns nothing
//@ end

//@ func (*Location).IsInitialLoc
//@   sweep C01
//@   props C05
//@   pure
//@   ensures[is-the-zero-range] result <==> (loc.StartLine == 0 && loc.StartColumn == 0 && loc.EndLine == 0 && loc.EndColumn == 0)
//@ end

//@ func (*Location).IsInLocStruct
//@   sweep C01
//@ end

//@ func (Location).IsContainLoc
//@   sweep C01
//@   props C05
//@   pure
//@   ensures[is-range-containment] result <==> locContains(loc.StartLine, loc.StartColumn, loc.EndLine, loc.EndColumn, locOne.StartLine, locOne.StartColumn, locOne.EndLine, locOne.EndColumn)
//@ end

//@ func (Location).IsBeforeLoc
//@   sweep C01
//@   props C05
//@   pure
//@   ensures[is-start-order] result <==> locBefore(loc.StartLine, loc.StartColumn, locOne.StartLine, locOne.StartColumn)
//@ end

//@ func (*Token).GetLine
//@   sweep C01
//@ end

//@ func NewLexer
//@   sweep C01
//@   ensures[C01] result != nil
//@ end

//@ func (*Lexer).SetErrHandler
//@   sweep C01
//@ end

//@ func (*Lexer).GetCommentMap
//@   sweep C01
//@ end

//@ func (*Lexer).SkipFirstLineComment
//@   sweep C01
//@   loop 0 decreases len(l.chunk)
//@ end

//@ func (*Lexer).lookAheardToken
//@   sweep C01
//@   ensures[C01,lookahead-restores-tokens] l.nowToken == old(l.nowToken) && l.preToken == old(l.preToken) && l.line >= old(l.line) && l.aheadToken.valid
//@   ensures[C01,chunk-only-shrinks] len(l.chunk) <= old(len(l.chunk))
//@ end

//@ func (*Lexer).LookAheadKind
//@   sweep C01
//@   ensures[C01,C03,returns-the-pending-token-kind] l.aheadToken.valid && result == l.aheadToken.tokenKind
//@   ensures[C01,chunk-only-shrinks] len(l.chunk) <= old(len(l.chunk))
//@ end

//@ func (*Lexer).GetPreTokenLoc
//@   sweep C01
//@   ensures[C01,chunk-only-shrinks] len(l.chunk) <= old(len(l.chunk))
//@ end

//@ func (*Lexer).GetNowToken
//@   sweep C01
//@ end

//@ func (*Lexer).GetNowTokenLoc
//@   sweep C01
//@   ensures[C01,C13,loc-ends-on-the-token-line] old(l.nowToken.valid) ==> result.EndLine == l.nowToken.line
//@   ensures[C01,keeps-tokens] l.nowToken == old(l.nowToken) && l.preToken == old(l.preToken)
//@   ensures[C01,line-only-grows] l.line >= old(l.line)
//@   ensures[C01,chunk-only-shrinks] len(l.chunk) <= old(len(l.chunk))
//@   ensures[C01,frame-when-valid] old(l.nowToken.valid) ==> l.chunk == old(l.chunk) && l.currentPos == old(l.currentPos) && l.line == old(l.line) && l.lineStartPos == old(l.lineStartPos) && l.commentMap == old(l.commentMap) && l.nowToken == old(l.nowToken)
//@ end

//@ func (*Lexer).GetHeardTokenLoc
//@   sweep C01
//@   ensures[C01,lookahead-restores-tokens] l.nowToken == old(l.nowToken) && l.preToken == old(l.preToken) && l.line >= old(l.line) && l.aheadToken.valid
//@   ensures[C01,chunk-only-shrinks] len(l.chunk) <= old(len(l.chunk))
//@ end

//@ func (*Lexer).NextIdentifier
//@   sweep C01
//@   ensures[C01,chunk-only-shrinks] len(l.chunk) <= old(len(l.chunk))
//@ end

//@ func (*Lexer).NextTokenKind
//@   sweep C01
//@   props C03
//@   ensures[C03,error-iff-kind-mismatch] (hits("errorPrint#0") >= 1) <==> (kind != l.nowToken.tokenKind)
//@   ensures[C01,chunk-only-shrinks] len(l.chunk) <= old(len(l.chunk))
//@ end

//@ func (*Lexer).NextToken
//@   sweep C01
//@   pure
//@   ensures[C01,chunk-only-shrinks] len(l.chunk) <= old(len(l.chunk))
//@ end

//@ func (*Lexer).setNowToken
//@   sweep C01
//@   pure
//@ end

//@ func (*Lexer).NextTokenStruct
//@   sweep C01
//@   ensures[C01,line-only-grows] l.line >= old(l.line)
//@   ensures[C01,now-token-valid] l.nowToken.valid
//@   ensures[C01,chunk-only-shrinks] len(l.chunk) <= old(len(l.chunk))
//@ end

//@ func (*Lexer).scanIllegalToken
//@   sweep C01
//@   ensures[C01,keeps-now-token] l.nowToken == old(l.nowToken)
//@   ensures[C01,line-only-grows] l.line >= old(l.line)
//@   loop 0 decreases len(l.chunk) - i
//@   ensures len(l.chunk) < old(len(l.chunk))
//@   requires len(l.chunk) >= 1
//@ end

//@ func (*Lexer).next
//@   sweep C01
//@   pure
//@   requires 0 <= n && n <= len(l.chunk)
//@ end

//@ func (*Lexer).test
//@   sweep C01
//@   loop 0 decreases len(s) - i
//@   ensures result ==> len(l.chunk) >= len(s)
//@   ensures len(s) == 1 ==> (result <==> len(l.chunk) >= 1 && l.chunk[0] == s[0])
//@   ensures len(s) == 2 ==> (result <==> len(l.chunk) >= 2 && l.chunk[0] == s[0] && l.chunk[1] == s[1])
//@   loop 0 invariant 0 <= i && i <= sLen && sLen == len(s) && sLen <= len(l.chunk) && forall(k, 0, i, l.chunk[k] == s[k])
//@ end
// C03: a multi-character symbol ("...", "::", "==", "//", ...) is recognised exactly when the remaining text starts
// with it - also when the symbol is ALL that remains (a chunk may end in "..." or in a label's "::")
//@ func (*Lexer).test
//@   props C03
//@   ensures[symbol-recognised-iff-the-remaining-text-starts-with-it] result <==> (len(l.chunk) >= len(s) && forall(k, 0, len(s), l.chunk[k] == s[k]))
//@   loop 0 invariant [C03] 0 <= i && i <= sLen && sLen == len(s) && sLen <= len(l.chunk) && forall(k, 0, i, l.chunk[k] == s[k])
//@ end

// errorPrint calls the installed handler (a function value). The only handler ever installed is
// (*parser.Parser).insertErr (CreateParser), which appends to Parser.parseErrs or panics with *TooManyErr.
// The assigns clause is checked against the write summary of every module function whose signature fits.
//@ func (*Lexer).errorPrint
//@   sweep C01
//@   assigns parser.Parser.parseErrs
//@ end

// C04: a carriage return followed by a line feed is ONE line break wherever it stands - also as the last two bytes of the
// text (seed C04-crlf-at-end-of-text-counts-twice: a length guard `<= 2` made the final \r\n two breaks, the EOF token one line too low)
//@ func (*Lexer).isEnterWrap
//@   sweep C01
//@   props C04
//@   pure
//@   ensures[C04,crlf-pair-is-recognised-wherever-it-stands] result <==> (len(l.chunk) >= 2 && l.chunk[0] == 13 && l.chunk[1] == 10)
//@ end

//@ func (*Lexer).isPreComment
//@   sweep C01
//@   pure
//@ end

//@ func (*Lexer).skipWhiteSpaces
//@   sweep C01
//@   opt infer
//@   ensures[C01,line-only-grows] l.line >= old(l.line)
//@   props C13
//@   loop 0 invariant [C13,pending-block-is-a-head-comment] (commentInfo != nil ==> commentInfo.HeadFlag && (l.nowToken.valid ==> l.line > l.nowToken.line)) && (l.nowToken.valid ==> l.line >= l.nowToken.line) && l.nowToken == old(l.nowToken) && l.line >= 1
//@   loop 0 invariant len(l.chunk) <= old(len(l.chunk))
//@   ensures[C01,chunk-only-shrinks] len(l.chunk) <= old(len(l.chunk))
//@   loop 0 decreases len(l.chunk)
//@ end

//@ func (*Lexer).skipComment
//@   sweep C01
//@   props C03 C13
//@   ensures[C03,C04,short-comment-ends-at-first-line-break] shortFlag ==> forall(k, 0, len(strComment), strComment[k] != 10 && strComment[k] != 13) && (len(l.chunk) == 0 || l.chunk[0] == 10 || l.chunk[0] == 13)
//@   ensures[C01,line-only-grows] l.line >= old(l.line) && l.nowToken == old(l.nowToken)
//@   ensures[C13,short-comment-text-is-verbatim] shortFlag ==> len(strComment) + len(l.chunk) + 2 == old(len(l.chunk)) && forall(k, 0, len(strComment), strComment[k] == old(l.chunk)[k + 2])
//@   loop 0 invariant [C03,C04,C13] 0 <= index && index <= lenChunk && lenChunk == len(l.chunk) && len(l.chunk) + 2 == old(len(l.chunk)) && forall(k, 0, index, l.chunk[k] != 10 && l.chunk[k] != 13) && forall(k, 0, len(l.chunk), l.chunk[k] == old(l.chunk)[k + 2])
//@   loop 0 decreases len(l.chunk) - index
//@   ensures len(l.chunk) < old(len(l.chunk))
//@   requires len(l.chunk) >= 2
//@ end

//@ func (*Lexer).scanIdentifier
//@   sweep C01
//@   ensures[C01,keeps-now-token] l.nowToken == old(l.nowToken)
//@   ensures[C01,line-only-grows] l.line >= old(l.line)
//@   loop 0 decreases len(l.chunk) - i
//@   ensures len(l.chunk) < old(len(l.chunk))
//@   requires len(l.chunk) >= 1
//@ end

//@ func checkHasChar
//@   sweep C01
//@   props C03
//@   ensures[C03,is-membership-in-an-ascii-set] forall(k, 0, len(strStr), strStr[k] < 128) ==> (result <==> exists(k, 0, len(strStr), strStr[k] == ch))
//@   loop 0 invariant [C03] 0 <= iterpos() && iterpos() <= len(strStr) && (forall(k, 0, len(strStr), strStr[k] < 128) ==> forall(k, 0, iterpos(), strStr[k] != ch))
//@ end

// C03: a numeral token never swallows an operator. A sign belongs to the numeral only directly after the exponent
// marker of the numeral's base: e/E for decimal, p/P for hexadecimal (where e/E are digits). Every other byte of
// the token is a byte a numeral may contain; the token is the verbatim source slice.
//@ spec isHexNum(s string) bool = (len(s) >= 2 && s[0] == 48 && (s[1] == 120 || s[1] == 88)) || (len(s) >= 3 && s[0] == 46 && s[1] == 48 && (s[2] == 120 || s[2] == 88))
//@ spec expoMark(c int, hex bool) bool = hex ? (c == 80 || c == 112) : (c == 69 || c == 101)
//@ spec numByte(c int) bool = (c >= 48 && c <= 57) || (c >= 97 && c <= 102) || (c >= 65 && c <= 70) || c == 117 || c == 85 || c == 108 || c == 76 || c == 46 || c == 120 || c == 88 || c == 112 || c == 80
//@ func (*Lexer).scanNumber
//@   sweep C01
//@   props C03
//@   ensures[C03,token-is-the-verbatim-source-slice] len(result) >= 1 && len(result) + len(l.chunk) == old(len(l.chunk)) && forall(k, 0, len(result), result[k] == old(l.chunk)[k])
//@   ensures[C03,sign-only-after-the-exponent-marker-of-the-base] forall(k, 1, len(result), (result[k] == 43 || result[k] == 45) ==> expoMark(result[k - 1], isHexNum(result)))
//@   ensures[C03,no-other-operator-byte-inside] forall(k, 1, len(result), result[k] == 43 || result[k] == 45 || numByte(result[k]))
//@   loop 0 invariant [C03] 1 <= i && i <= len(l.chunk) && l.chunk == old(l.chunk)
//@        && (streq(strExpo, "Pp") || streq(strExpo, "Ee")) && (streq(strExpo, "Pp") <==> isHexNum(l.chunk))
//@        && forall(k, 1, i, (l.chunk[k] == 43 || l.chunk[k] == 45) ==> expoMark(l.chunk[k - 1], isHexNum(l.chunk)))
//@        && forall(k, 1, i, l.chunk[k] == 43 || l.chunk[k] == 45 || numByte(l.chunk[k]))
//@   ensures[C01,keeps-now-token] l.nowToken == old(l.nowToken)
//@   ensures[C01,line-only-grows] l.line >= old(l.line)
//@   loop 0 decreases len(l.chunk) - i
//@   ensures len(l.chunk) < old(len(l.chunk))
//@   requires len(l.chunk) >= 1 && (l.chunk[0] == 46 ==> len(l.chunk) >= 2)
//@   requires[C03,starts-like-a-numeral] (l.chunk[0] >= 48 && l.chunk[0] <= 57) || (l.chunk[0] == 46 && l.chunk[1] >= 48 && l.chunk[1] <= 57)
//@ end

//@ func (*Lexer).scanLongString
//@   sweep C01
//@   ensures[C01,line-only-grows] l.line >= old(l.line) && l.nowToken == old(l.nowToken)
//@   ensures len(l.chunk) <= old(len(l.chunk))
//@   requires len(l.chunk) >= 2 && l.chunk[0] == 91
//@   unchecked bounds:slice#0 the first occurrence of the closing bracket lies after the opening one (needs strings.Replace/Index content contracts; argument: no byte of the opening bracket is ']')
//@ end

//@ func (*Lexer).matchLongStringBacket
//@   sweep C01
//@   loop 0 decreases len(l.chunk) - index
//@   ensures[C01] result0 != "" ==> len(result0) >= 2 && len(result0) <= len(l.chunk)
//@   ensures[C01] l.chunk == old(l.chunk)
//@   ensures[C01] result1 >= 0
//@ end

//@ func (*Lexer).isNewWhiteSpace
//@   sweep C01
//@   pure
//@ end

//@ func (*Lexer).getIndexChar
//@   sweep C01
//@   pure
//@   requires i >= 0
//@ end

//@ func (*Lexer).consumeEOL
//@   sweep C01
//@   ensures[C01,keeps-now-token] l.nowToken == old(l.nowToken)
//@   ensures[C01,line-only-grows] l.line >= old(l.line)
//@   requires i != nil && 0 <= deref(i) && deref(i) < len(l.chunk)
//@   ensures deref(i) >= old(deref(i)) && deref(i) <= len(l.chunk) && l.chunk == old(l.chunk) && (result ==> deref(i) > old(deref(i))) && (!result ==> deref(i) == old(deref(i)))
//@ end

//@ func (*Lexer).escapeLoc
//@   sweep C01
//@   pure
//@ end

//@ func (*Lexer).readEscapeSequence
//@   sweep C01
//@   loop 0 invariant [C01] l.line >= old(l.line) && l.nowToken == old(l.nowToken)
//@   loop 1 invariant [C01] l.line >= old(l.line) && l.nowToken == old(l.nowToken)
//@   ensures[C01,keeps-now-token] l.nowToken == old(l.nowToken)
//@   ensures[C01,line-only-grows] l.line >= old(l.line)
//@   loop 0 decreases len(l.chunk) - deref(i)
//@   loop 1 decreases len(l.chunk) - deref(i)
//@   requires i != nil && 0 <= deref(i) && deref(i) <= len(l.chunk)
//@   ensures deref(i) >= old(deref(i)) && deref(i) <= len(l.chunk) && l.chunk == old(l.chunk)
//@ end

// C03: a short string may not contain an unescaped line break - LF, CR (a lone one too) - : the scan goes round again only past a
// byte that is not one (seed C03-lone-cr-inside-a-short-string-accepted)
//@ func (*Lexer).scanShortString
//@   sweep C01
//@   props C03
//@   loop 0 step [C03,unescaped-line-break-never-continues-a-short-string] !nlb(ch)
//@   loop 0 invariant [C01] l.line >= old(l.line) && l.nowToken == old(l.nowToken)
//@   ensures[C01,keeps-now-token] l.nowToken == old(l.nowToken)
//@   ensures[C01,line-only-grows] l.line >= old(l.line)
//@   loop 0 decreases len(l.chunk) - i
//@   ensures len(l.chunk) < old(len(l.chunk))
//@   requires len(l.chunk) >= 1
//@ end

//@ func (*Lexer).SetEnd
//@   sweep C01
//@ end

//@ func isWhiteSpace
//@   sweep C01
//@   pure
//@ end

//@ func isNewLine
//@   sweep C01
//@   pure
//@ end

//@ func isDigit
//@   sweep C01
//@   pure
//@ end

//@ func isLetter
//@   sweep C01
//@   pure
//@ end

//@ func isHexDigit
//@   sweep C01
//@   pure
//@ end

//@ func (TkKind).String
//@   sweep C01
//@ end
