//go:build verif

// C04 contracts for the lexer's position counters (comment-only; read by /verif lhv).
//
// Every column the server reports is  rangePos - lineStartPos  of some token, so C04 rests on two counters:
// currentPos (advanced by the width of whatever is consumed) and lineStartPos (the value currentPos had right
// after the last line break). The contracts below pin both, function by function, as RELATIONS between the
// state before and after a call, over the text actually consumed. Positions are absolute offsets into the
// source text (byteat / off), so consecutive steps compose by concatenating intervals; the induction over the
// token sequence (columns = offsets within the line) is the paper step, see DESIGN.md C04.
//
// Scope: stated for consumed text that is ASCII (one byte = one UTF-16 code unit = one column). For non-ASCII
// text the width is columnWidth(), whose agreement with UTF-16 is not proved (rune decoding is outside the model).
package lexer

//@ spec nlb(c int) bool = c == 10 || c == 13
//@ spec noNLa(s string, a int, b int) bool = forall(p, a, b, !nlb(byteat(s, p)))
//@ spec asciiA(s string, a int, b int) bool = forall(p, a, b, byteat(s, p) < 128)
// the remaining text is a suffix of the text before the call
//@ spec isSuffix(now string, before string) bool = sametext(now, before) && off(now) >= off(before) && off(now) + len(now) == off(before) + len(before)
// consumed [o0,o1) has no line break and is ASCII: same line, same line start, counter advanced by the byte count
//@ spec sameLineStep(s string, o0 int, o1 int, line0 int, ls0 int, cp0 int, line1 int, ls1 int, cp1 int) bool =
//@      noNLa(s, o0, o1) && asciiA(s, o0, o1) ==> line1 == line0 && ls1 == ls0 && cp1 == cp0 + (o1 - o0)
// consumed [o0,o1) contains a line break, the last one ending at j, the rest ASCII: the column counter restarts there
//@ spec newLineStep(s string, o0 int, o1 int, ls1 int, cp1 int) bool =
//@      forall(j, o0 + 1, o1 + 1, nlb(byteat(s, j - 1)) && noNLa(s, j, o1) && asciiA(s, j, o1) ==> cp1 - ls1 == o1 - j)

//@ func columnWidth
//@   sweep C01
//@   props C04
//@   ensures[C04,ascii-width-is-byte-count] forall(k, 0, len(s), s[k] < 128) ==> result == len(s)
//@   ensures[C04,width-is-not-negative] result >= 0
//@   loop 0 invariant [C04] n >= 0 && (forall(k, 0, len(s), s[k] < 128) ==> n == iterpos() && 0 <= iterpos() && iterpos() <= len(s))
//@   assigns nothing
//@ end

//@ func (*Lexer).next
//@   props C04
//@   ensures[C04,consumes-n-bytes] l.chunk == old(l.chunk)[n:len(old(l.chunk))] && l.currentPos == old(l.currentPos) + n
//@        && l.line == old(l.line) && l.lineStartPos == old(l.lineStartPos) && l.nowToken == old(l.nowToken) && l.preToken == old(l.preToken) && l.aheadToken == old(l.aheadToken)
//@ end

// identifiers: verbatim ASCII slice without line breaks, counter advanced by its length
//@ func (*Lexer).scanIdentifier
//@   props C04
//@   ensures[C04,token-is-the-verbatim-source-slice] len(result) >= 1 && result == old(l.chunk)[0:len(result)] && l.chunk == old(l.chunk)[len(result):len(old(l.chunk))]
//@   ensures[C04,identifier-is-ascii-on-one-line] forall(k, 1, len(result), result[k] < 128 && !nlb(result[k]))
//@   ensures[C04,counter-advances-by-the-token-length] l.currentPos == old(l.currentPos) + len(result) && l.line == old(l.line) && l.lineStartPos == old(l.lineStartPos)
//@   loop 0 invariant [C04] 1 <= i && i <= len(l.chunk) && l.chunk == old(l.chunk) && forall(k, 1, i, l.chunk[k] < 128 && !nlb(l.chunk[k]))
//@ end

//@ func (*Lexer).scanNumber
//@   props C04
//@   ensures[C04,counter-advances-by-the-token-length] l.currentPos == old(l.currentPos) + len(result) && l.line == old(l.line) && l.lineStartPos == old(l.lineStartPos)
//@        && l.chunk == old(l.chunk)[len(result):len(old(l.chunk))]
//@ end

// an unexpected character sequence: ends before the blank or line break, which stays in the text
//@ func (*Lexer).scanIllegalToken
//@   props C04
//@   ensures[C04,token-is-the-verbatim-source-slice] len(str) >= 1 && str == old(l.chunk)[0:len(str)] && l.chunk == old(l.chunk)[len(str):len(old(l.chunk))] && !lineFlag
//@   ensures[C04,no-line-break-inside] l.line == old(l.line) && l.lineStartPos == old(l.lineStartPos) && forall(k, 1, len(str), !nlb(str[k]))
//@   ensures[C04,ascii-token-advances-by-its-length] forall(k, 0, len(str), str[k] < 128) ==> l.currentPos == old(l.currentPos) + len(str)
//@   loop 0 invariant [C04] 0 <= i && i <= len(l.chunk) && l.chunk == old(l.chunk) && forall(k, 0, i, !nlb(l.chunk[k]) && l.chunk[k] != 32)
//@ end

// consumeEOL (inside a short string, *i is an index into the token): a counted line break restarts the line at the byte after it
//@ func (*Lexer).consumeEOL
//@   props C04
// (the line start is kept in COLUMNS like the position counter: currentPos + the column width of the token text up to and
// including the break - the literal may hold non-ASCII text in front of it; for ASCII text that is the byte count)
//@   at call columnWidth#0 before assert[C04,width-of-the-token-text-up-to-and-including-the-break] sametext(arg0, l.chunk) && off(arg0) == off(l.chunk) && len(arg0) == deref(i)
//@   ensures[C04,a-counted-break-is-a-line-break] result ==> nlb(l.chunk[old(deref(i))]) && nlb(l.chunk[deref(i) - 1])
//@   ensures[C04,line-break-restarts-the-line-after-it] result ==> hits("columnWidth#0") == 1 && l.lineStartPos == l.currentPos + lastresult("columnWidth#0")
//@   ensures[C04,ascii-text-before-the-break-counts-in-bytes] result && forall(k, 0, deref(i), l.chunk[k] < 128) ==> l.lineStartPos == l.currentPos + deref(i)
//@   ensures[C04,no-effect-otherwise] !result ==> l.line == old(l.line) && l.lineStartPos == old(l.lineStartPos)
//@   ensures[C04,position-counter-untouched] l.currentPos == old(l.currentPos)
//@   ensures[C04,a-counted-line-break-is-one-line] (result ==> l.line == old(l.line) + 1)
//@        && (nlb(l.chunk[old(deref(i))]) && old(deref(i)) + 1 < len(l.chunk) ==> result)
//@ end

// a backslash followed by a line break - LF, CR or CRLF - continues the string on the next line: the break is
// counted as exactly one line (unless the text ends there, which is reported as an unfinished string)
//@ func (*Lexer).readEscapeSequence
//@   props C04
//@   ensures[C04,escaped-line-break-counts-one-line] old(deref(i)) + 1 < len(l.chunk) && nlb(l.chunk[old(deref(i))]) ==> l.line == old(l.line) + 1
//@   ensures[C04,line-start-moves-only-at-a-line-break] l.currentPos == old(l.currentPos)
//@        && (forall(k, old(deref(i)), deref(i), !nlb(l.chunk[k])) ==> l.line == old(l.line) && l.lineStartPos == old(l.lineStartPos))
//@   loop 0 invariant [C04] l.currentPos == old(l.currentPos) && l.chunk == old(l.chunk) && deref(i) >= old(deref(i)) && deref(i) <= len(l.chunk)
//@        && (forall(k, old(deref(i)), deref(i), !nlb(l.chunk[k])) ==> l.line == old(l.line) && l.lineStartPos == old(l.lineStartPos))
//@   loop 1 invariant [C04] l.currentPos == old(l.currentPos) && l.chunk == old(l.chunk) && l.line == old(l.line) && l.lineStartPos == old(l.lineStartPos)
//@ end

// short strings: the counter advances by the width of the literal AS WRITTEN (quotes and escapes included)
//@ func (*Lexer).scanShortString
//@   props C04
// (for a literal that is not the first token of the file and does not run to the end of the file: there the error
//  paths look ahead for a location and the counters are moot)
//@   ensures[C04,remaining-text-is-a-suffix] old(l.nowToken.valid) && len(l.chunk) > 0 ==> isSuffix(l.chunk, old(l.chunk))
//@   ensures[C04,same-line-ascii-literal-advances-by-its-source-length] old(l.nowToken.valid) && len(l.chunk) > 0 ==> sameLineStep(old(l.chunk), off(old(l.chunk)), off(l.chunk),
//@        old(l.line), old(l.lineStartPos), old(l.currentPos), l.line, l.lineStartPos, l.currentPos)
//@   loop 0 invariant [C04] 1 <= i && i <= len(l.chunk) && 1 <= stringStart && stringStart <= i && l.chunk == old(l.chunk) && l.currentPos == old(l.currentPos)
//@        && (forall(k, 0, i, !nlb(l.chunk[k])) ==> l.line == old(l.line) && l.lineStartPos == old(l.lineStartPos))
// whatever the literal contains (escapes before multi-byte characters included): a closed literal moves the counter by
// columnWidth() of exactly the bytes it consumed - there is no second way of counting
//@   at call columnWidth#0 before assert[C04,width-is-taken-of-the-literal-as-written] sametext(arg0, l.chunk) && off(arg0) == off(l.chunk) && len(arg0) == i
//@   ensures[C04,closed-literal-advances-by-the-column-width-of-the-bytes-consumed] hits("errorPrint#0") == 0 && hits("errorPrint#1") == 0 ==>
//@        hits("columnWidth#0") == 1 && l.currentPos == old(l.currentPos) + lastresult("columnWidth#0")
//@        && off(l.chunk) == off(old(l.chunk)) + snapshot("columnWidth#0", i) && isSuffix(l.chunk, old(l.chunk))
//@ end

// short comment: up to, not including, the line break
//@ func (*Lexer).skipComment
//@   props C04
//@   requires[C04,at-a-comment] l.chunk[0] == 45 && l.chunk[1] == 45
//@   loop 0 invariant [C04] 0 <= index && index <= lenChunk && lenChunk == len(l.chunk) && forall(k, 0, index, !nlb(l.chunk[k]))
//@   ensures[C04,remaining-text-is-a-suffix] len(l.chunk) > 0 ==> isSuffix(l.chunk, old(l.chunk))
//@   ensures[C04,same-line-step] len(l.chunk) > 0 ==> sameLineStep(old(l.chunk), off(old(l.chunk)), off(l.chunk), old(l.line), old(l.lineStartPos), old(l.currentPos), l.line, l.lineStartPos, l.currentPos)
//@   ensures[C04,new-line-step] len(l.chunk) > 0 ==> newLineStep(old(l.chunk), off(old(l.chunk)), off(l.chunk), l.lineStartPos, l.currentPos)
//@ end

// the opening-bracket matcher: "[" "="* "[" is a bracket; otherwise the second result is 2 + the length of the "=" run
//@ func (*Lexer).matchLongStringBacket
//@   props C04
//@   ensures[C04,failed-match-at-a-bracket-counts-at-least-two] result0 == "" && len(l.chunk) >= 1 && l.chunk[0] == 91 ==> result1 >= 2
//@   ensures[C04,failed-match-counts-the-equals-run] result0 == "" && result1 >= 2 ==> result1 - 1 <= len(l.chunk) && l.chunk[0] == 91 && forall(k, 1, result1 - 1, l.chunk[k] == 61)
//@   ensures[C04,bracket-is-the-verbatim-prefix] result0 != "" ==> len(result0) >= 2 && len(result0) <= len(l.chunk) && forall(k, 0, len(result0), result0[k] == l.chunk[k] && (result0[k] == 91 || result0[k] == 61))
//@   loop 0 invariant [C04] 1 <= index && index <= len(l.chunk) && count == index - 1 && l.chunk[0] == 91 && forall(k, 1, index, l.chunk[k] == 61)
//@ end

// long brackets: one-line => the line start is untouched; multi-line => it moves to the byte after the last line break inside
//@ func (*Lexer).scanLongString
//@   props C04
// (closed brackets with text after them; an unterminated string consumes the rest of the file)
//@   ensures[C04,remaining-text-is-a-suffix] len(l.chunk) > 0 ==> isSuffix(l.chunk, old(l.chunk))
//@   ensures[C04,same-line-step] len(l.chunk) > 0 ==> sameLineStep(old(l.chunk), off(old(l.chunk)), off(l.chunk), old(l.line), old(l.lineStartPos), old(l.currentPos), l.line, l.lineStartPos, l.currentPos)
//@   ensures[C04,new-line-step] len(l.chunk) > 0 ==> newLineStep(old(l.chunk), off(old(l.chunk)), off(l.chunk), l.lineStartPos, l.currentPos)
//@   at call errorPrint#0 before assert[C04,delimiter-error-range-is-relative-to-its-line] arg1.StartLine == l.line && arg1.EndLine == l.line
//@        && arg1.StartColumn == l.currentPos - l.lineStartPos && arg1.EndColumn >= arg1.StartColumn
// library contracts assumed here: the closing bracket cannot overlap the opening one; Count(Replace(s), "\n") is 0 iff s has no CR/LF
//@   at call strings.Index#0 assume result < 0 || result >= len(longBracket)
//@   at call strings.Count#2 before assert[C04,lines-are-counted-on-the-normalised-text] hits("Replace#2") == 1
//@   at call strings.Count#0 before assert[C04,lines-are-counted-on-the-normalised-text] hits("Replace#1") == 1
//@   at call strings.Count#2 assume (result == 0) <==> forall(k, len(longBracket), longBracketIdx, !nlb(old(l.chunk)[k]))
//@ end

// a first line that starts with '#' (shebang) is skipped up to, NOT including, its line break: the break is left for
// the whitespace scan, which is what counts the line and restarts the column count
//@ func (*Lexer).SkipFirstLineComment
//@   props C04
//@   ensures[C04,first-line-comment-stops-at-its-line-break] hits("next#0") == 1 && len(l.chunk) > 0 ==> l.chunk[0] == 10 || l.chunk[0] == 13
//@   ensures[C04,no-line-is-counted-or-skipped-here] l.line == old(l.line) && l.lineStartPos == old(l.lineStartPos)
//@   loop 0 invariant [C04] l.line == old(l.line) && l.lineStartPos == old(l.lineStartPos) && hits("next#0") == 1
//@ end

// blanks, line breaks and comments between tokens
//@ func (*Lexer).skipWhiteSpaces
//@   props C04
//@   ensures[C04,remaining-text-is-a-suffix] len(l.chunk) > 0 ==> isSuffix(l.chunk, old(l.chunk))
//@   ensures[C04,same-line-step] len(l.chunk) > 0 ==> sameLineStep(old(l.chunk), off(old(l.chunk)), off(l.chunk), old(l.line), old(l.lineStartPos), old(l.currentPos), l.line, l.lineStartPos, l.currentPos)
//@   ensures[C04,new-line-step] len(l.chunk) > 0 ==> newLineStep(old(l.chunk), off(old(l.chunk)), off(l.chunk), l.lineStartPos, l.currentPos)
//@   loop 0 invariant [C04] len(l.chunk) > 0 ==> isSuffix(l.chunk, old(l.chunk))
//@        && sameLineStep(old(l.chunk), off(old(l.chunk)), off(l.chunk), old(l.line), old(l.lineStartPos), old(l.currentPos), l.line, l.lineStartPos, l.currentPos)
//@        && newLineStep(old(l.chunk), off(old(l.chunk)), off(l.chunk), l.lineStartPos, l.currentPos)
//@ end

// the token record: starts where scanning started, ends at the counter, on the current line
//@ func (*Lexer).setNowToken
//@   props C04
//@   ensures[C04,token-record-is-the-counter-snapshot] l.nowToken.valid && l.nowToken.rangeFromPos == l.tokenStartPos && l.nowToken.rangeToPos == l.currentPos
//@        && l.nowToken.lineStartPos == l.lineStartPos && l.nowToken.line == l.line && l.nowToken.tokenKind == kind && l.nowToken.tokenStr == tokenStr
//@        && l.preToken == old(l.nowToken) && l.aheadToken == old(l.aheadToken) && l.chunk == old(l.chunk) && l.currentPos == old(l.currentPos)
//@        && l.line == old(l.line) && l.lineStartPos == old(l.lineStartPos) && l.tokenStartPos == old(l.tokenStartPos)
//@ end

// look-ahead: the pending token is scanned by the same token step; its record travels with it
//@ func (*Lexer).lookAheardToken
//@   props C04
//@   ensures[C04,pending-identifier-range-has-the-length-of-its-text] !old(l.aheadToken.valid) && l.aheadToken.tokenKind == TkIdentifier ==>
//@        l.aheadToken.rangeToPos - l.aheadToken.rangeFromPos == len(l.aheadToken.tokenStr) && len(l.aheadToken.tokenStr) >= 1
//@   ensures[C04,already-pending-token-is-kept] old(l.aheadToken.valid) ==> l.aheadToken == old(l.aheadToken) && l.chunk == old(l.chunk) && l.currentPos == old(l.currentPos)
//@ end

// one token step: either the pending look-ahead token is delivered, or a token is scanned and
//  - its record is the snapshot of the counters at its end;
//  - an identifier's range has exactly the length of its text, which is the verbatim ASCII source slice before the counter.
//@ func (*Lexer).NextTokenStruct
//@   props C04
//@   ensures[C04,pending-token-is-delivered-unchanged] old(l.aheadToken.valid) ==> l.nowToken == old(l.aheadToken) && l.preToken == old(l.nowToken) && l.chunk == old(l.chunk)
//@        && l.currentPos == old(l.currentPos) && l.line == old(l.line) && l.lineStartPos == old(l.lineStartPos)
//@   ensures[C04,scanned-token-ends-at-the-counter] !old(l.aheadToken.valid) ==> l.nowToken.rangeToPos == l.currentPos && l.nowToken.lineStartPos == l.lineStartPos
//@        && l.nowToken.line == l.line
//@   ensures[C04,identifier-range-has-the-length-of-its-text] !old(l.aheadToken.valid) && l.nowToken.tokenKind == TkIdentifier ==>
//@        l.nowToken.rangeToPos - l.nowToken.rangeFromPos == len(l.nowToken.tokenStr) && len(l.nowToken.tokenStr) >= 1
//@        && sametext(l.nowToken.tokenStr, old(l.chunk)) && off(l.nowToken.tokenStr) + len(l.nowToken.tokenStr) == off(l.chunk)
//@ end

// token -> Location: columns are range positions minus the line start recorded with the token
//@ func (*Lexer).GetNowTokenLoc
//@   props C04
//@   ensures[C04,location-is-the-token-record-relative-to-its-line] old(l.nowToken.valid) && l.nowToken.lineStartPos <= l.nowToken.rangeFromPos ==>
//@        result.StartLine == l.nowToken.line && result.EndLine == l.nowToken.line
//@        && result.StartColumn == l.nowToken.rangeFromPos - l.nowToken.lineStartPos && result.EndColumn == l.nowToken.rangeToPos - l.nowToken.lineStartPos
//@ end
