//go:build verif

// Contracts for package parser (comment-only; read by /verif lhv).
// C01: no-panic sweep: the only panic that may reach the recover() in BeginAnalyze is the *TooManyErr sentinel raised by insertErr.
package parser

// the token the lexer will deliver next (after any look-ahead has been taken)
//@ spec l_ahead_is_assign_or_comma(l *lexer.Lexer) bool = l.aheadToken.valid && (l.aheadToken.tokenKind == lexer.TkOpAssign || l.aheadToken.tokenKind == lexer.TkSepComma)

//@ typeinv Parser: self.l != nil
//@ default-nonnil beginLoc

//@ func (*Parser).parseBlock
//@   sweep C01
//@   ensures[C01,returns-a-node] result != nil
//@ end

//@ func (*Parser).parseStats
//@   sweep C01
//@ end

//@ func (*Parser).parseRetExps
//@   sweep C01
//@ end

//@ func isReturnOrBlockEnd
//@   sweep C01
//@ end

//@ func (*Parser).parseExpList
//@   sweep C01
//@ end

//@ func (*Parser).parseExp
//@   sweep C01
//@ end

//@ func getPriority
//@   sweep C01
//@ end

//@ func (*Parser).parseSubExp
//@   sweep C01
//@ end

//@ func (*Parser).parseExp0
//@   sweep C01
//@ end

//@ func (*Parser).parseNumberExp
//@   sweep C01
//@ end

//@ func (*Parser).parseFuncDefExp
//@   sweep C01
//@   ensures[C01,returns-a-node] result != nil
//@ end

// C03: parlist ::= namelist [',' '...'] | '...' - the vararg marker is the last entry: once it has been consumed the
// list is over (no further ', Name' is accepted after it; seed C03-parameter-after-vararg-accepted)
//@ func (*Parser).parseParList
//@   sweep C01
//@   props C03
// (stated as: every round of the loop that goes round again has added a name - the round that consumes the marker leaves;
// `isVararg` itself cannot be named at the loop head, where it is a constant in the SSA of the correct code)
//@   loop 0 step [C03,vararg-marker-ends-the-parameter-list] len(names) == prev(len(names)) + 1
//@ end

//@ func (*Parser).parseTableConstructorExp
//@   sweep C01
//@   ensures[C01,returns-a-node] result != nil
//@ end

//@ func (*Parser).parseFieldList
//@   sweep C01
//@ end

//@ func _isFieldSep
//@   sweep C01
//@ end

//@ func (*Parser).parseField
//@   sweep C01
//@ end

//@ func (*Parser).parsePrefixExp
//@   sweep C01
//@ end

//@ func (*Parser).parseParensExp
//@   sweep C01
//@ end
// C03: parentheses change the grammar around a call, a vararg, a name and an index expression - `(f())` is an
// expression, not a call statement, and `(a)` is not an assignment target. The statement parser tells these apart by
// node type only (a bare FuncCallExp is a call statement, a bare NameExp / TableAccessExp is assignable), so the
// parentheses of exactly these four kinds must survive as a ParensExp node around the very expression parsed.
//@ func (*Parser).parseParensExp
//@   props C03
//@   ensures[parentheses-kept-where-they-change-the-grammar] typeis(exp, "*ast.FuncCallExp") || typeis(exp, "*ast.VarargExp") || typeis(exp, "*ast.NameExp") || typeis(exp, "*ast.TableAccessExp")
//@        ==> typeis(result, "*ast.ParensExp") && as(result, "*ast.ParensExp").Exp == exp
//@   ensures[other-expressions-pass-through] !(typeis(exp, "*ast.FuncCallExp") || typeis(exp, "*ast.VarargExp") || typeis(exp, "*ast.NameExp") || typeis(exp, "*ast.TableAccessExp")) ==> result == exp
//@ end

//@ func (*Parser).finishPrefixExp
//@   sweep C01
//@ end

//@ func (*Parser).finishFuncCallExp
//@   sweep C01
//@   ensures[C01,returns-a-node] result != nil
//@ end

//@ func (*Parser).parseNameExp
//@   sweep C01
//@ end

//@ func (*Parser).parseArgs
//@   sweep C01
//@ end

//@ func (*Parser).parseStat
//@   sweep C01
//@ end

//@ func (*Parser).parseEmptyStat
//@   sweep C01
//@   ensures[C01,returns-a-node] result != nil
//@ end

//@ func (*Parser).parseBreakStat
//@   sweep C01
//@   ensures[C01,returns-a-node] result != nil
//@ end

//@ func (*Parser).parseLabelStat
//@   sweep C01
//@   ensures[C01,returns-a-node] result != nil
//@ end

//@ func (*Parser).parseGotoStat
//@   sweep C01
//@   ensures[C01,returns-a-node] result != nil
//@ end

//@ func (*Parser).parseDoStat
//@   sweep C01
//@   ensures[C01,returns-a-node] result != nil
//@ end

//@ func (*Parser).parseWhileStat
//@   sweep C01
//@   ensures[C01,returns-a-node] result != nil
//@ end

//@ func (*Parser).parseRepeatStat
//@   sweep C01
//@   ensures[C01,returns-a-node] result != nil
//@ end

//@ func (*Parser).parseIfStat
//@   sweep C01
//@   ensures[C01,returns-a-node] result != nil
//@ end

//@ func (*Parser).parseForStat
//@   sweep C01
//@ end

//@ func (*Parser).finishForNumStat
//@   sweep C01
//@   ensures[C01,returns-a-node] result != nil
//@ end

//@ func (*Parser).finishForInStat
//@   sweep C01
//@   ensures[C01,returns-a-node] result != nil
//@ end

//@ func (*Parser).finishNameList
//@   sweep C01
//@ end

//@ func (*Parser).getLocalAttribute
//@   sweep C01
//@ end

//@ func (*Parser).finishLocalNameList
//@   sweep C01
//@   props C04
//@   at call getLocalAttribute#0 before assert[C04,name-location-captured-before-more-tokens-are-read] hits("GetNowTokenLoc#0") == hits("NextIdentifier#0")
//@   at call append#0 before assert[C04,one-location-per-name] hits("GetNowTokenLoc#0") == hits("NextIdentifier#0")
// (C01 too: the analysis indexes the attribute and location lists with the index of the name - cgLocalVarDeclStat -, outside the parser's recover)
//@   ensures[C04,C01,lists-aligned] len(result0) == len(result1) && len(result1) == len(result2)
//@   loop 0 invariant [C04,C01] hits("GetNowTokenLoc#0") == hits("NextIdentifier#0") && len(names) == len(locs) && len(locs) == len(kinds)
//@ end

//@ func (*Parser).parseLocalAssignOrFuncDefStat
//@   sweep C01
//@ end

//@ func (*Parser).finishLocalFuncDefStat
//@   sweep C01
//@   ensures[C01,returns-a-node] result != nil
//@ end

//@ func (*Parser).finishLocalVarDeclStat
//@   sweep C01
//@   ensures[C01,returns-a-node] result != nil
//@ end

//@ func (*Parser).parseAssignOrFuncCallStat
//@   sweep C01
//@ end

//@ func (*Parser).parseAssignStat
//@   sweep C01
//@ end

//@ func (*Parser).finishVarList
//@   sweep C01
//@ end

//@ func (*Parser).checkVar
//@   sweep C01
//@   props C03
//@   ensures[C03,placeholder-for-an-assignment-target-implies-error] typeis(result, "*ast.BadExpr") && !typeis(exp, "*ast.BadExpr")
//@        && (l_ahead_is_assign_or_comma(p.l)) ==> hits("insertParserErr#0") >= 1
//@   ensures[C03,valid-targets-pass-unchanged] typeis(exp, "*ast.NameExp") || typeis(exp, "*ast.TableAccessExp") ==> result == exp && hits("insertParserErr#0") == 0
//@ end

//@ func (*Parser).parseFuncDefStat
//@   sweep C01
//@   ensures[C01,returns-a-node] result != nil
//@ end

//@ func (*Parser).parseFuncName
//@   sweep C01
//@ end

//@ func (*Parser).parseIKIllegalStat
//@   sweep C01
//@   ensures[C01,returns-a-node] result != nil
//@ end

//@ func CreateParser
//@   sweep C01
//@ end

//@ func (*Parser).BeginAnalyze
//@   sweep C01
//@ end

//@ func (*Parser).BeginAnalyzeExp
//@   sweep C01
//@ end

//@ func (*Parser).GetErrList
//@   sweep C01
//@ end

//@ func (*Parser).insertParserErr
//@   sweep C01
//@   props C03
//@   ensures[C03,error-is-recorded] len(p.parseErrs) == old(len(p.parseErrs)) + 1
//@ end

//@ func (*Parser).insertErr
//@   sweep C01
//@   props C03
//@   panics *lexer.TooManyErr
//@   ensures[C03,error-is-recorded] len(p.parseErrs) == old(len(p.parseErrs)) + 1
//@ end

//@ func isSimpleInteger
//@   sweep C01
//@   requires[non-empty-numeral] len(str) >= 1
//@ end

//@ func isLuajitSimpleInterger
//@   sweep C01
//@   requires[non-empty-numeral] len(str) >= 1
//@ end

//@ func isHexInteger
//@   sweep C01
//@   requires[non-empty-numeral] len(str) >= 1
//@ end

//@ func isLuajitHexInteger
//@   sweep C01
//@   requires[non-empty-numeral] len(str) >= 1
//@ end

//@ func parseInteger
//@   sweep C01
//@   unchecked bounds:index#1 numeral shape facts come from regexp/strconv/strings.Contains results that are outside the modelled subset (bounded stand-in planned, see DESIGN.md C01)
//@   unchecked bounds:slice#1 numeral shape facts come from regexp/strconv/strings.Contains results that are outside the modelled subset (bounded stand-in planned, see DESIGN.md C01)
//@   unchecked bounds:slice#2 numeral shape facts come from regexp/strconv/strings.Contains results that are outside the modelled subset (bounded stand-in planned, see DESIGN.md C01)
//@ end

//@ func parseFloat
//@   sweep C01
//@ end

//@ func parseLuajitNum
//@   sweep C01
//@   unchecked bounds:index#1 numeral shape facts come from regexp/strconv/strings.Contains results that are outside the modelled subset (bounded stand-in planned, see DESIGN.md C01)
//@   unchecked bounds:index#2 numeral shape facts come from regexp/strconv/strings.Contains results that are outside the modelled subset (bounded stand-in planned, see DESIGN.md C01)
//@   unchecked bounds:slice#3 numeral shape facts come from regexp/strconv/strings.Contains results that are outside the modelled subset (bounded stand-in planned, see DESIGN.md C01)
//@   unchecked bounds:slice#4 numeral shape facts come from regexp/strconv/strings.Contains results that are outside the modelled subset (bounded stand-in planned, see DESIGN.md C01)
//@ end

// C03 (numeral acceptance): a hexadecimal mantissa - lower-case hex digits with at most one "." and at least one digit,
// no exponent - that the regular expression lets through is accepted, whether the digits stand before the ".", after it,
// or both (0xA.8, 0xA., 0x.8). Only the regular expression (outside the model) may reject such a literal.
//@ spec hexd(c int) bool = (c >= 48 && c <= 57) || (c >= 97 && c <= 102)
// "at most one dot" is stated through an uninterpreted position dotpos(s): every dot of s stands at dotpos(s). The
// contract is proved for every interpretation of dotpos, hence for every s with at most one dot.
//@ rec dotpos(s string) int
//@ spec hexMantissa(s string) bool = len(s) >= 1 && forall(k, 0, len(s), hexd(s[k]) || (s[k] == 46 && k == dotpos(s)))
//@      && exists(k, 0, len(s), hexd(s[k]))
//@ func parseHexFloat
//@   sweep C01
//@   props C03
//@   ensures[C03,well-formed-hex-mantissa-is-accepted] hexMantissa(old(str)) && hits("strings.Index#0") == 1 ==> result1
//@   loop for:i>=0 invariant [C03] i >= -1 && i < len(digits)
//@   loop for:i<len(str) invariant [C03] i >= 0
//@   unchecked bounds:index#0 numeral shape facts come from regexp/strconv/strings.Contains results that are outside the modelled subset (bounded stand-in planned, see DESIGN.md C01)
//@ end

//@ func parseDigit
//@   sweep C01
//@   props C03
//@   ensures[C03,hex-digit-is-a-digit-in-base-16] base == 16 && hexd(digit) ==> result1
//@   ensures[C03,decimal-digit-is-a-digit-in-base-10] base == 10 && digit >= 48 && digit <= 57 ==> result1
//@ end


// C03: retstat ::= return [explist] [';'] closes a block, so the token after a bare `return` is one of the block
// terminators end / else / elseif / until / end of file (or ';'). A value list is parsed only when none of these
// follows; `repeat return until c` is valid Lua.
//@ func (*Parser).parseRetExps
//@   props C03
//@   at call parseExpList#0 before assert[values-are-parsed-only-when-no-block-terminator-follows-the-return]
//@        lastresult("LookAheadKind#1") != lexer.TkEOF && lastresult("LookAheadKind#1") != lexer.TkKwEnd && lastresult("LookAheadKind#1") != lexer.TkKwElse
//@        && lastresult("LookAheadKind#1") != lexer.TkKwElseif && lastresult("LookAheadKind#1") != lexer.TkKwUntil && lastresult("LookAheadKind#1") != lexer.TkSepSemi
//@   ensures[no-return-statement-no-values] hits("NextToken#0") == 0 ==> result == nil
//@ end
