//go:build verif

// Contracts for package check (comment-only; read by /verif lhv).
package check

// GetVarStruct extracts the expression under the cursor by byte arithmetic on the document text.
//@ func GetVarStruct
//@   sweep C01
//@   requires[cursor-in-text] len(contents) > 0 && 0 <= offset && offset <= len(contents)
//@ end
