//go:build verif

// Contracts for package check (comment-only; read by /verif lhv).
package check

// GetVarStruct extracts the expression under the cursor by byte arithmetic on the document text.
//@ func GetVarStruct
//@   sweep C01
//@   requires[cursor-in-text] len(contents) > 0 && 0 <= offset && offset <= len(contents)
//@ end

// ---- C09: workspace/symbol answers must not depend on map order or goroutine completion order ----
//@ spec lessSym(si int, fi int, li int, ci int, ni int, sj int, fj int, lj int, cj int, nj int) bool =
//@      si > sj || (si == sj && (fi < fj || (fi == fj && (li < lj || (li == lj && (ci < cj || (ci == cj && ni < nj)))))))
//@ lemma lessSym_total [C09]: forall si int, fi int, li int, ci int, ni int, sj int, fj int, lj int, cj int, nj int ::
//@      (fi != fj || li != lj || ci != cj || ni != nj) ==> (lessSym(si, fi, li, ci, ni, sj, fj, lj, cj, nj) != lessSym(sj, fj, lj, cj, nj, si, fi, li, ci, ni))
//@ lemma lessSym_transitive [C09]: forall s1 int, f1 int, l1 int, c1 int, n1 int, s2 int, f2 int, l2 int, c2 int, n2 int, s3 int, f3 int, l3 int, c3 int, n3 int ::
//@      lessSym(s1, f1, l1, c1, n1, s2, f2, l2, c2, n2) && lessSym(s2, f2, l2, c2, n2, s3, f3, l3, c3, n3) ==> lessSym(s1, f1, l1, c1, n1, s3, f3, l3, c3, n3)

//@ func (*resultSorter).Less
//@   props C09
//@   sweep C01
//@   requires 0 <= i && i < len(rs.results) && 0 <= j && j < len(rs.results) && rs.results[i].fileSymbol != nil && rs.results[j].fileSymbol != nil
//@   ensures[less-is-total-order] result <==> (rs.results[i].score > rs.results[j].score || (rs.results[i].score == rs.results[j].score &&
//@        lessSym(0, strord(rs.results[i].fileSymbol.FileName), rs.results[i].fileSymbol.Loc.StartLine, rs.results[i].fileSymbol.Loc.StartColumn, strord(rs.results[i].fileSymbol.Name),
//@                0, strord(rs.results[j].fileSymbol.FileName), rs.results[j].fileSymbol.Loc.StartLine, rs.results[j].fileSymbol.Loc.StartColumn, strord(rs.results[j].fileSymbol.Name))))
//@ end

//@ typeinv AllProject: forallvals(v, self.createTypeMap, forall(k, 0, len(v.List), v.List[k] != nil))

// ---- C15 (and C01): looking through T[] / table<K,V> / ---@alias to the element type ----
// tsize: size of an annotation type tree. ASSUMED (finite trees built by the annotation parser): every
// alternative of a union is smaller than the union.
//@ rec tsize(t annotateast.Type) int
//@ axiom tsize_nonneg: forall t annotateast.Type :: tsize(t) :: tsize(t) >= 0
//@ axiom tsize_union: forall t annotateast.Type :: tsize(t) :: typeis(t, "*annotateast.MultiType") ==>
//@      forall(k, 0, len(as(t, "*annotateast.MultiType").TypeList), tsize(as(t, "*annotateast.MultiType").TypeList[k]) < tsize(t))

// The value accessor: table<K,V> gives V; unions are searched in order; an alias is looked through with the
// SAME accessor (never the key or array one); the recursion terminates: (aliases still allowed, type size) decreases.
//@ func (*AllProject).getAllTableType
//@   props C15 C01
//@   sweep C01
//@   measure 33 - aliasDepth, tsize(astType)
//@   requires aliasDepth >= 0
//@   ensures[table-gives-its-value-type] aliasDepth <= 32 && typeis(astType, "*annotateast.TableType") && !as(astType, "*annotateast.TableType").EmptyFlag ==> arrayType == as(astType, "*annotateast.TableType").ValueType
//@   ensures[bare-table-gives-nothing] typeis(astType, "*annotateast.TableType") && as(astType, "*annotateast.TableType").EmptyFlag ==> arrayType == nil
//@   ensures[alias-keeps-the-accessor] hits("getAllTableKeyType#0") == 0 && hits("getAllArrayType#0") == 0 && hits("GetAllTableKeyType#0") == 0 && hits("GetAllArrayType#0") == 0
//@ end

//@ func (*AllProject).getAllTableKeyType
//@   props C15 C01
//@   sweep C01
//@   measure 33 - aliasDepth, tsize(astType)
//@   requires aliasDepth >= 0
//@   ensures[table-gives-its-key-type] aliasDepth <= 32 && typeis(astType, "*annotateast.TableType") && !as(astType, "*annotateast.TableType").EmptyFlag ==> arrayType == as(astType, "*annotateast.TableType").KeyType
//@   ensures[alias-keeps-the-accessor] hits("getAllTableType#0") == 0 && hits("getAllArrayType#0") == 0 && hits("GetAllTableType#0") == 0 && hits("GetAllArrayType#0") == 0
//@ end

//@ func (*AllProject).getAllArrayType
//@   props C15 C01
//@   sweep C01
//@   measure 33 - aliasDepth, tsize(astType)
//@   requires aliasDepth >= 0
//@   ensures[array-gives-its-item-type] aliasDepth <= 32 && typeis(astType, "*annotateast.ArrayType") ==> arrayType == as(astType, "*annotateast.ArrayType").ItemType
//@   ensures[alias-keeps-the-accessor] hits("getAllTableType#0") == 0 && hits("getAllTableKeyType#0") == 0 && hits("GetAllTableType#0") == 0 && hits("GetAllTableKeyType#0") == 0
// a union is an array type if ANY of its alternatives is (`nil|Foo[]` as much as `Foo[]|nil`): the alternatives are tried in turn and
// the search stops only at one that yields an item type (seed C15-array-alternative-of-a-union-only-when-first)
//@   loop range:subAst.TypeList exits-early-only-if [every-alternative-of-a-union-is-tried-until-one-is-an-array] getType != nil
//@   at call getAllArrayType#* before assert[alternative-is-looked-through-at-the-same-depth] typeis(astType, "*annotateast.MultiType") ==> arg3 == aliasDepth
//@ end

//@ func (*AllProject).GetAllTableType
//@   props C15
//@   ensures[delegates-to-the-value-accessor] hits("getAllTableType#0") == 1
//@ end
//@ func (*AllProject).GetAllTableKeyType
//@   props C15
//@   ensures[delegates-to-the-key-accessor] hits("getAllTableKeyType#0") == 1
//@ end
//@ func (*AllProject).GetAllArrayType
//@   props C15
//@   ensures[delegates-to-the-array-accessor] hits("getAllArrayType#0") == 1
//@ end

// ---- C08: incremental re-analysis after file events ----
// The result of an event batch equals a fresh start only if every step a fresh start would do for the
// affected files is scheduled. Each scheduling decision is a per-event obligation (loop step clauses,
// prev(e) = value at the start of the iteration) and the pass selection after the loop is a decision table.

// RemoveFile: the file leaves every per-file table of the first pass (the index removal is the C18 contract).
//@ typeinv AllProject [C08,C18,C01]: self.fileIndexInfo != nil
//@ func (*AllProject).RemoveFile
//@   props C08
//@   at call RemoveOneFile#0 before assert[index-removal-uses-the-file-path] streq(arg1, strFile) && arg0 == a.fileIndexInfo && !has(a.allFilesMap, strFile)
//@   at call RemoveCacheContent#0 before assert[first-pass-result-dropped-before-cache] !has(a.fileStructMap, strFile) && streq(arg1, strFile)
//@   ensures[removes-all-three] hits("RemoveOneFile#0") == 1 && hits("RemoveCacheContent#0") == 1
//@ end

//@ func (*AllProject).HandleFileEventChanges
//@   props C08
//@   unchecked pre:ReanalyseReferInfo.r0#0 the file index is created with the project and the reference list of a first-pass result holds the records CreateReferenceFileResult made (non-nil); neither fact is available here (the result comes out of the file table) - the same entry assumption the C18 run lists
//@   loop range:fileEventVec step [created-or-changed-file-is-reparsed] (fileEvents.Type == FileEventCreated || fileEvents.Type == FileEventChanged)
//@        ==> len(needAgainFileVec) == prev(len(needAgainFileVec)) + 1 && streq(needAgainFileVec[len(needAgainFileVec) - 1], strFile)
//@   loop range:fileEventVec step [created-file-enters-file-table-and-index] fileEvents.Type == FileEventCreated
//@        ==> hits("InsertOneFile#0") == prev(hits("InsertOneFile#0")) + 1
//@   loop range:fileEventVec step [deleted-file-leaves-all-tables] fileEvents.Type == FileEventDeleted
//@        ==> hits("RemoveFile#0") == prev(hits("RemoveFile#0")) + 1
//@   loop range:fileEventVec step [deleted-file-is-recorded] fileEvents.Type == FileEventDeleted ==> has(deleteFileMap, strFile)
//@   loop range:fileEventVec step [file-of-the-workspace-pass-schedules-it] (a.thirdStruct != nil && has(a.thirdStruct.AllIncludeFile, strFile)) ==> thirdFlag
//@   loop range:fileEventVec step [scheduling-flags-are-never-cleared] (prev(thirdFlag) ==> thirdFlag) && (prev(handleAllFlag) ==> handleAllFlag)
//@   loop range:fileEventVec step [every-event-file-gets-its-enum-check] has(enumFileMap, strFile)
//@   at call InsertOneFile#0 before assert[index-insertion-uses-the-file-path] streq(arg1, strFile) && arg0 == a.fileIndexInfo && has(a.allFilesMap, strFile)
//@   at call RemoveFile#0 before assert[removal-uses-the-file-path] streq(arg1, strFile)
//@   at call HandleAllThirdFile#0 before assert[workspace-pass-only-when-scheduled] thirdFlag
//@   at call HandleNotCheckThirdFile#0 before assert[workspace-pass-only-when-scheduled] thirdFlag
//@   at call firstCreateAndTraverseAst#0 before assert[reparse-gets-the-whole-queue] arg1 == needAgainFileVec
//@   at call handleProjectEntryFileVec#0 before assert[file-set-change-reruns-every-project] handleAllFlag && arg1 == a.entryFilesList
//@   ensures[scheduled-workspace-pass-runs-when-anything-changed] (changeFlag || handleAllFlag) && thirdFlag
//@        ==> hits("HandleAllThirdFile#0") + hits("HandleNotCheckThirdFile#0") == 1
//@   ensures[reference-resolution-change-republishes] len(needReferFileMap) > 0 ==> changeDiagnostic
//@   ensures[any-analysis-change-republishes] (changeFlag || handleAllFlag) ==> changeDiagnostic
//@ end

// ---- C06 / C11: the per-file worker of the cross-file reference search ----
// Every file is analysed into a result buffer of its own: empty when the analysis starts, bound to that file
// and to the target of the request, and what is sent back is exactly that buffer under that file's name.
//@ func GoRoutineFourFile
//@   props C06 C11
//@   at call handleFindferences#0 before assert[each-file-gets-an-empty-result-buffer] arg1 != nil && len(arg1.FindLocVec) == 0 && streq(arg1.StrFile, request.strFile)
//@   at call handleFindferences#0 before assert[buffer-is-bound-to-the-request-target] arg0 == request.allProject && hits("SetFindReferenceInfo#0") == hits("CreateReferenceFileResult#0")
//@   loop 0 invariant hits("SetFindReferenceInfo#0") == hits("CreateReferenceFileResult#0")
//@   unchecked pre:SetFindReferenceInfo.a-target-comes-with-its-name#0 the request arrives over a channel (not modelled) from handleAllFilesReference, which copies the name list of a valid cursor expression (GetVarStruct, ValidFlag) into it
//@ end

// recvFourFile: the locations a worker found are attributed to the file the worker names; only the
// declaration to be ignored is filtered out.
//@ func recvFourFile
//@   props C06 C11
//@   at call append#0 before assert[location-is-attributed-to-the-workers-file] streq(arg1[0].StrFile, fourFileChan.strFile) && arg1[0].Loc == oneLoc
// a location is left out only in the file that declares the variable (another file may use it at the very same line and
// column) and only when it lies inside the declaration to be ignored
//@   loop range:fourFileChan.findLocVec step [only-the-declaration-in-its-own-file-is-left-out] hits("append#0") == prev(hits("append#0")) ==>
//@        streq(fourFileChan.strFile, ignoreDefineFile) && hits("IsInLocStruct#0") > prev(hits("IsInLocStruct#0"))
//@   loop range:fourFileChan.findLocVec exits-early-only-if [every-location-found-is-examined] false
//@ end

// which declaration a reference search starts from: the walk through `a.b.c` goes on only through KNOWN members - for
// an unknown one there is no declaration of the thing asked about, and the variable in front of it is not offered in
// its place (rename of q.y rewrote `local q` until the fix)
//@ func (*AllProject).FindReferenceVarDefine
//@   props C06 C11 C04
//@   loop for:i<len(varStruct.StrVec) step [walk-continues-only-through-known-members] prev(oldVar) != nil && has(prev(oldVar).SubMaps, strTemp) && oldVar == prev(oldVar).SubMaps[strTemp]
//@   loop for:i<len(varStruct.StrVec) invariant oldVar != nil
//@ end

// the single-file path (locals, highlight): the declaration is left out only when the file searched is the declaring one
// (highlight searches the file of the cursor, which may use a global at the very position of its declaration elsewhere)
//@ func (*AllProject).FindReferences
//@   props C06 C11
//@   loop range:analysisFour.FindLocVec exits-early-only-if [every-location-found-is-examined] false
//@   loop range:analysisFour.FindLocVec step [only-the-declaration-in-its-own-file-is-left-out] hits("append#2") == prev(hits("append#2")) ==> streq(inFile, luaInFile)
//@   unchecked pre:SetFindReferenceInfo.a-target-comes-with-its-name#0 the name list is that of a valid cursor expression (GetVarStruct, ValidFlag), checked by the request handlers before they call FindReferences
//@ end

// the collector is told which file declares the variable (the declaration is filtered there and nowhere else)
//@ func handleAllFilesReference
//@   props C06 C11
//@   at call recvFourFile#* before assert[declaration-is-ignored-in-its-own-file-only] streq(arg3, referenceParam.fileName) && arg2 == referenceParam.ignoreDefineLoc && arg0 == defineVecs
//@ end

// ---- C15 / C01: the parent walk of the class-field and assign-type checks terminates on cyclic inheritance ----
// a class already looked at is not entered again, and a class is marked before its parents are walked: every
// activation marks a class that was unmarked, so the recursion depth is bounded by the number of classes
// (until fix: `---@class A : B` / `---@class B : A` overflowed the stack - an unrecoverable crash of the server)
//@ func (*AllProject).isFieldOfClassVisit
//@   props C15 C01
//@   requires visited != nil
//@   ensures[a-class-already-visited-is-not-entered-again] old(has(visited, className) && visited[className]) ==> !result && hits("isFieldOfClassVisit#0") == 0
//@   at call isFieldOfClassVisit#0 before assert[parents-are-walked-with-the-same-visited-set] arg3 == visited && streq(arg1, fieldName)
// (the marking is the first thing an activation does; it is stated on the path of an unknown class name, which reaches no loop -
//  at a loop head the map of marks is havocked by the write summary of the recursive call, so "still marked" is not derivable there)
//@   ensures[own-class-is-marked] !has(a.createTypeMap, className) ==> visited[className]
//@ end
//@ func (*AllProject).getFieldTypeOfClassVisit
//@   props C15 C01
//@   requires visited != nil
//@   ensures[a-class-already-visited-is-not-entered-again] old(has(visited, className) && visited[className]) ==> hits("getFieldTypeOfClassVisit#0") == 0
//@   at call getFieldTypeOfClassVisit#0 before assert[parents-are-walked-with-the-same-visited-set] arg3 == visited && arg2 == retFieldType
//@   ensures[own-class-is-marked] !has(a.createTypeMap, className) ==> visited[className]
//@ end

// ---- C15: members of a class come from EVERY definition of the class name ----
// A class may be declared in several files; when it is not declared in the current file all its definitions are
// examined (already visited ones are skipped, the scan goes on).
//@ func (*AllProject).getClassTypeInfoList
//@   props C15 C01
//@   requires repeatTypeList != nil && strMap != nil
//@   loop range:createTypeList.List exits-early-only-if [every-definition-of-the-class-is-examined] false
// ... also when the current file declares the class itself: a class may be split over several blocks and files, and
// every block contributes its fields (until the fix the walk stopped at the current file's best definition)
//@   ensures[the-other-definitions-of-the-name-are-examined-wherever-the-first-was-found] lastresult("getAnnotateFile#0") != nil
//@        && !(hits("IsRepeateTypeInfo#0") == 1 && lastresult("IsRepeateTypeInfo#0")) && has(a.createTypeMap, strName) && len(a.createTypeMap[strName].List) > 0
//@        ==> hits("IsRepeateTypeInfo#1") >= 1
//@   loop range:createTypeList.List invariant hits("IsRepeateTypeInfo#1") >= rangeindex + 1
// the visited list is what stops the walk on inheritance cycles: it must record exactly the definition just examined
//@   at call append#0 before assert[C15,C01,visited-list-records-the-definition-just-examined] arg0 == repeatTypeList.List && arg1[0] == createBestType && createBestType != nil
//@   at call append#4 before assert[C15,C01,visited-list-records-the-definition-just-examined] arg0 == repeatTypeList.List && arg1[0] == oneCreate
//@   unchecked typeinv:CreateTypeList.0(repeatTypeList)#0 entries of the project type table are non-nil by construction (rebuidCreateTypeMap); the element heap is havocked by the recursive calls, so the fact does not survive the loops
//@   unchecked typeinv:CreateTypeList.0(repeatTypeList)#1 as above
//@   unchecked typeinv:CreateTypeList.0(repeatTypeList)#2 as above
//@   unchecked typeinv:CreateTypeList.0(repeatTypeList)#3 as above
//@ end

// the project-wide type table is rebuilt from the per-file tables: after a file's entry for a name has been merged, the
// table holds for that name everything it held before followed by the file's declarations -- so a class declared in
// several files keeps the declarations of all of them (its fields are the union over the files)
//@ func (*AllProject).rebuidCreateTypeMap
//@   props C15
//@   loop range:fileStruct.AnnotateFile.CreateTypeMap step [file-declarations-are-merged-into-the-project-table]
//@        has(a.createTypeMap, strName) && (prev(has(a.createTypeMap, strName)) ==> len(a.createTypeMap[strName].List) == prev(len(a.createTypeMap[strName].List)) + len(createTypeList.List))
//@        && (!prev(has(a.createTypeMap, strName)) ==> len(a.createTypeMap[strName].List) == len(createTypeList.List))
//@   loop range:fileStruct.AnnotateFile.CreateTypeMap exits-early-only-if [every-type-name-of-the-file-is-merged] false
//@   loop range:a.fileStructMap exits-early-only-if [every-file-is-merged] false
//@   unchecked typeinv:AllProject.0(a)#0 the merged lists are concatenations of the per-file lists, whose entries are non-nil by the type invariant of AnnotateFile; that invariant is not available for an AnnotateFile reached through the file table (only for parameters), so "no nil entry" is not re-proved here
//@ end

// the type-level walk that calls back into getClassTypeInfoList; under contract so that the representation
// invariant of the visited list (no nil entry) is carried through the mutual recursion
//@ func (*AllProject).getInLineAllNormalAnnotateClass
//@   props C15
//@   requires repeatTypeList != nil && strMap != nil
//@ end
// every alternative of a union (`A|B`) is expanded: a name already visited on another path is skipped, the alternatives
// behind it are not (an alias diamond `Part = Motor|Rolling`, `Rolling = Engine|Wheel` must still reach Wheel); a name
// not yet visited is marked and looked up, with the caller's visited set and repeat list
//@ func (*AllProject).getInLineAllNormalAnnotateClass
//@   props C15
//@   loop range:strSimpleList exits-early-only-if [every-alternative-of-a-union-is-expanded] false
//@   loop range:strSimpleList step [an-unvisited-alternative-is-looked-up] !prev(has(strMap, strSimple)) ==> hits("getClassTypeInfoList#0") == prev(hits("getClassTypeInfoList#0")) + 1
//@   at call getClassTypeInfoList#0 before assert[alternative-looked-up-by-its-own-name-with-the-callers-visited-sets] streq(arg1, strSimple) && streq(arg2, fileName) && arg3 == lastLine && arg4 == repeatTypeList && arg5 == strMap && has(strMap, strSimple)
//@ end

// ---- C19: workspace symbols of the locals of a scope ----
// every local that is not filtered out (in nested scopes: neither a function nor a table) is collected and has its
// members searched - a table local of a nested scope still contributes its member functions.
//@ func (*resultSorter).getLocVarMapsSymbols
//@   props C19
//@   loop range:locVarMap step [unfiltered-local-is-collected-and-its-members-searched] varLen > 0 && !hasPrefix && !(onlyFunc && vars.SubMaps == nil && vars.ReferFunc == nil)
//@        ==> hits("collect#0") == prev(hits("collect#0")) + 1 && hits("getVarmapsSymbols#0") == prev(hits("getVarmapsSymbols#0")) + 1
//@   at call getVarmapsSymbols#0 before assert[members-searched-under-the-locals-name] arg1 == vars.SubMaps && streq(arg3, strName) && arg5 == onlyFunc
//@   loop range:locVarMap exits-early-only-if [every-local-of-the-scope-is-visited] false
//@ end
// the walk over one file: the main scope's locals, then level by level EVERY nested scope - also the bodies of global
// functions (they were passed over until fix: a local function declared inside a global function was not found) -:
// each scope has its locals searched and ALL its sub-scopes queued for the next level, whether or not it declares
// locals itself
//@ func (*resultSorter).getQuerySymbols
//@   props C19
//@   at call getLocVarMapsSymbols#0 before assert[main-scope-locals-are-searched] arg1 == fileResult.MainFunc.MainScope.LocVarMap && !arg4
//@   ensures[main-scope-locals-are-searched] hits("getLocVarMapsSymbols#0") == 1
//@   at call getLocVarMapsSymbols#1 before assert[nested-scope-locals-are-searched-for-functions] arg1 == scope.LocVarMap && arg4
//@   loop range:scopes exits-early-only-if [every-scope-of-the-level-is-visited] false
//@   loop range:scopes step [every-scope-is-searched-and-its-sub-scopes-queued] hits("getLocVarMapsSymbols#1") == prev(hits("getLocVarMapsSymbols#1")) + 1 && len(tempScopes) == prev(len(tempScopes)) + len(scope.SubScopes)
//@ end
// C09: every file handed to a worker comes with a matcher OF ITS OWN (a Matcher keeps scratch state - scores, roles,
// a lower-case buffer - and is "not designed for parallel use": two workers scoring on one would make scores, and what
// survives the cuts, depend on goroutine scheduling)
//@ func handleAllFilesSymbols
//@   props C09
//@   at call NewMatcher#0 before assert[first-round-matchers-are-made-for-the-query] streq(arg0, pattern)
//@   at call NewMatcher#1 before assert[later-matchers-are-made-for-the-query] streq(arg0, pattern)
//@   loop for:recvNum<handleFileLen step [a-file-handed-out-later-gets-a-fresh-matcher] hits("NewMatcher#1") == prev(hits("NewMatcher#1")) + 1 || hits("NewMatcher#1") == prev(hits("NewMatcher#1"))
//@ end

// member filter: in nested scopes only function members are offered; nothing else is dropped
//@ func (*resultSorter).getVarmapsSymbols
//@   props C19
//@   loop range:varmaps step [member-is-collected-unless-filtered] !(onlyFunc && subOneVar.ReferFunc == nil) ==> hits("collect#0") == prev(hits("collect#0")) + 1
//@   loop range:varmaps exits-early-only-if [every-member-is-visited] false
//@ end

// ---- C18: go-to-definition / hover on a module string resolve it the way the analysis does ----
// by complete path when ReferMatchPathFlag is configured (the analysis then reports 'file not found' for anything
// else), by the fuzzy best match otherwise - never the fuzzy match in complete-path mode
//@ func (*AllProject).FindOpenFileDefine
//@   props C18
//@   at call GetBestMatchReferFile#0 before assert[fuzzy-match-only-in-fuzzy-mode] !common.GConfig.ReferMatchPathFlag
//@   at call MatchAllDirReferFile#0 before assert[complete-path-match-in-complete-path-mode] common.GConfig.ReferMatchPathFlag && streq(arg1, strFile)
//@ end

// ---- C14: completion of a bare prefix offers the names in scope - also in the argument of a call whose parameter is
// annotated with an alias of constants: the constants come first, the scope walk follows unless the cursor stands right
// behind a quote or a blank (only then the constants are all there is)
//@ func (*AllProject).noPreComplete
//@   props C14
//@   requires[request-state-is-set-up] a.completeCache != nil && a.completeCache.existMap != nil && completeVar != nil && comParam != nil
//@   at call GetCompleteVar#0 before assert[scope-names-are-skipped-only-behind-a-quote-or-blank] !(lastresult("paramCandidateComplete#0") && completeVar.OnelyParamQuotesFlag)
//@        && arg1 == completeVar && arg0 == comParam.scope
//@   ensures[scope-names-follow-the-constants-of-an-alias-parameter] !completeVar.OnelyParamQuotesFlag ==> hits("GetCompleteVar#0") == 1
//@ end

// ---- C13: which comment is a declaration's documentation ----
// the trailing comment on the declaration's own line first; only if there is none, the head comment block that ends on
// the line before; a comment of the other kind stored under that line is not used.
//@ func (*AllProject).GetLineComment
//@   props C13
//@   at call getSpecialLineComment#0 before assert[trailing-comment-of-the-same-line-first] arg1 == luaFile && arg2 == line && !arg3
//@   at call getSpecialLineComment#1 before assert[else-the-block-ending-on-the-previous-line] arg1 == luaFile && arg2 == line - 1 && arg3 && len(strComment) == 0
//@   ensures[same-line-comment-wins] hits("getSpecialLineComment#0") == 1
//@ end
// the comment table consulted is that of the NEWEST analysis of the file - the one made from the open document's
// unsaved text when there is one (GetCacheFileStruct), not the start-up scan of the text on disk - because the symbol's
// line was computed in that text
//@ func (*AllProject).GetCacheFileStruct
//@   props C13
//@   ensures[the-cache-of-newest-analyses-is-consulted-first] hits("Get#0") == 1 && (hits("GetFirstFileStuct#0") == 0 ==> result1)
//@   at call GetFirstFileStuct#0 before assert[scan-result-is-only-the-fallback-for-the-same-file] streq(arg1, strFile) && hits("Get#0") == 1
//@ end
//@ func (*AllProject).getSpecialLineComment
//@   props C13
//@   ensures[comment-table-of-the-newest-analysis] hits("GetCacheFileStruct#0") == 1
//@   at call GetCacheFileStruct#0 before assert[comment-table-of-the-newest-analysis] streq(arg1, inLuaFile)
//@   at call GetFileLineComment#0 before assert[comment-table-of-the-newest-analysis] arg0 == lastresult("GetCacheFileStruct#0").FileResult
//@   at call GetFileLineComment#0 before assert[comment-is-looked-up-under-the-given-line] arg1 == lastLine
//@   ensures[comment-of-the-other-kind-is-not-used] true
//@   loop range:oneComment.LineVec exits-early-only-if [every-line-of-the-block-is-used] false
//@ end

// hover documentation: the definition chain starts at the hovered declaration; its documentation is the FIRST comment
// found along the chain (the declaration's own, when it has one) - once found it is never replaced by the comment of
// a declaration further down the chain (what the variable was initialised from)
//@ func (*AllProject).GetLspHoverVarStr
//@   props C13
//@   loop range:findList step [documentation-is-the-first-comment-along-the-definition-chain]
//@        (len(prev(strOneComment)) > 0 ==> strOneComment == prev(strOneComment)) && (len(prev(strOneComment)) == 0 && len(strDoc1) > 0 ==> strOneComment == strDoc1)
//@ end

// the hover / completion label of a function shows its parameter list as written: a vararg function's list ends with
// "..." - also when "..." is its only parameter - right before the closing parenthesis
//@ func (*AllProject).getFuncShowStr
//@   props C13
//@   ensures[vararg-marker-closes-the-parameter-list] paramTipFlag && !returnFlag && varInfo != nil && varInfo.ReferFunc != nil && varInfo.ReferFunc.IsVararg
//@        ==> len(str) >= 4 && str[len(str) - 1] == 41 && str[len(str) - 2] == 46 && str[len(str) - 3] == 46 && str[len(str) - 4] == 46
//@ end

// ---- C08: the first pass over one file (parse + first traversal), and the unchanged-content short cut ----
//@ func (*AllProject).analysisFirstLuaFile
//@   props C08
//@   requires f != nil
//@   ensures[short-cut-only-for-content-read-from-disk-and-identical-to-the-analysed-one] !changeFlag ==> content == nil && beforeStruct != nil
//@        && hits("bytes.Equal#0") == 1 && hits("CreateParser#0") == 0
//@   ensures[changed-or-given-content-is-parsed-and-traversed] changeFlag && handleResult != results.FileHandleReadErr ==>
//@        hits("CreateParser#0") == 1 && hits("BeginAnalyze#0") == 1 && hits("HandleFirstTraverseAST#0") == 1 && hits("AnalysisAllComment#0") == 1
//@   ensures[given-content-is-never-short-cut] content != nil ==> changeFlag
// the stored text is dropped (nil) when the caller does not ask to cache it - the start-up scan does not -, and a nil
// text compares equal to the text of an EMPTY file: the short cut needs a cached copy to compare with
//@   ensures[short-cut-only-against-a-cached-copy-of-the-analysed-text] !changeFlag ==> beforeStruct.Contents != nil
//@   at call bytes.Equal#0 before assert[short-cut-compares-the-stored-text-with-the-new-one] arg0 == beforeStruct.Contents && arg1 == f.Contents
//@   at call CreateParser#0 before assert[parser-gets-the-text-under-analysis] arg0 == f.Contents && streq(arg1, luaFile)
//@   at call InsertError#0 before assert[every-syntax-error-becomes-a-type-1-diagnostic] arg1 == common.CheckErrorSyntax && arg2 == oneErr.ErrStr && arg3 == oneErr.Loc
//@   loop range:errList exits-early-only-if [every-syntax-error-is-recorded] false
//@   loop range:errList step [every-syntax-error-is-recorded] hits("InsertError#0") == prev(hits("InsertError#0")) + 1
//@ end

// C05: the cursor of a definition / hover / reference request reaches the scope lookup as a zero-width POINT on its
// one-based line (token ranges end one column behind the last character: a point just behind an identifier is still
// inside it, a one-column-wide range is not), and the lookup starts from the innermost scope and function at that point
//@ func (*AllProject).getVarCommonFuncParam
//@   props C05
//@   requires varStruct != nil
//@   at call FindASTNode#0 before assert[innermost-scope-is-looked-up-at-the-cursor] arg1 == varStruct.PosLine && arg2 == varStruct.PosCh
// `self` is rewritten to the table of the enclosing method only when the self at the cursor IS the method's implicit
// parameter: an explicit parameter or a local named self shadows it (fix: lexical lookup first)
//@   at call ChangeFuncSelfToReferVar#0 before assert[self-is-rewritten-only-when-it-is-not-shadowed] !selfShadowed
//@   at call IsImplicitSelf#0 before assert[shadowing-is-decided-by-a-scope-lookup-at-the-cursor] arg1 == selfVar && hits("FindLocVar#0") == 1
//@   ensures[cursor-is-handed-on-as-a-point-on-its-one-based-line] comParam != nil ==> comParam.loc.StartLine == varStruct.PosLine + 1 && comParam.loc.EndLine == varStruct.PosLine + 1
//@        && comParam.loc.StartColumn == varStruct.PosCh && comParam.loc.EndColumn == varStruct.PosCh
//@   ensures[lookup-has-a-scope-and-a-function] comParam != nil ==> comParam.scope != nil && comParam.fi != nil && comParam.fileResult != nil
//@ end

// C13: the comment is shown verbatim apart from its marker: of every line only leading blanks are stripped as a SET of
// characters; the doc marker left over from "---" / "---*" is removed as a prefix, once ("-*" then "-"), so text that
// itself starts with "*" or with further dashes keeps them
//@ func GetStrComment
//@   props C13
//@   at call strings.TrimLeft#* before assert[only-blanks-are-stripped-as-a-set] streq(arg1, " ")
//@   at call strings.TrimPrefix#0 before assert[marker-is-removed-as-a-prefix-once] streq(arg1, "-*")
// the marker is looked for at the very start of the line's comment text - a dash behind blanks is text ("-- -5", fix 5e50b6c)
//@   at call strings.TrimPrefix#0 before assert[marker-is-looked-for-at-the-start-of-the-raw-line] arg0 == splitStrArr[index]
//@   at call strings.TrimPrefix#1 before assert[marker-is-removed-as-a-prefix-once] streq(arg1, "-")
//@   ensures[at-most-two-marker-prefixes-are-removed-per-line] hits("strings.TrimPrefix#0") == hits("strings.TrimLeft#0") && hits("strings.TrimPrefix#1") == hits("strings.TrimLeft#0")
//@   loop range:splitStrArr exits-early-only-if [every-line-of-the-comment-is-kept] false
//@   loop range:splitStrArr invariant hits("strings.TrimPrefix#0") == hits("strings.TrimLeft#0") && hits("strings.TrimPrefix#1") == hits("strings.TrimLeft#0")
//@ end

// C02: a text handed in (the client's buffer - also an EMPTY one, which is not nil) is the text analysed; the file on disk
// is read only when no text was given
//@ func (*AllProject).analysisFirstLuaFile
//@   props C02
//@   at call ReadFile#0 before assert[a-given-text-is-never-replaced-by-the-file-on-disk] content == nil
//@   at call CreateParser#0 before assert[a-given-text-is-the-text-analysed] content != nil ==> arg0 == content
//@ end

// the result of a worker replaces the stored first-pass result exactly when something changed; the last good result of a
// file that now has syntax errors is kept in the LRU cache (once), for the requests that need an AST
//@ func (*AllProject).recvWorkChann
//@   props C08
//@   ensures[changed-result-replaces-the-stored-one] changeFlag == chanResult.returnChangeFlag && (changeFlag ==> hits("insertFirstFileStruct#0") == 1) && (!changeFlag ==> hits("insertFirstFileStruct#0") == 0)
//@   at call insertFirstFileStruct#0 before assert[stored-under-the-files-own-name] streq(arg1, chanResult.strFile) && arg2 == chanResult.returnFileStruct
//@   at call Set#0 before assert[last-good-result-cached-only-when-the-new-one-has-syntax-errors] chanResult.saveContentFlag && flag && !cacheFlag
//@ end

//@ func GoRoutineFirstWork
//@   props C08
//@   at call analysisFirstLuaFile#0 before assert[each-file-is-analysed-into-a-record-of-its-own] arg1 == fileStruct && streq(arg2, request.strFile) && arg4 == request.saveContentFlag && !arg5
//@   at call analysisFirstLuaFile#0 before assert[the-text-is-read-from-disk] len(arg3) == 0
//@   at call analysisFirstLuaFile#0 before assert[the-record-is-fresh] hits("CreateFileStruct#0") == hits("analysisFirstLuaFile#0")
//@   loop 0 invariant hits("CreateFileStruct#0") == hits("analysisFirstLuaFile#0")
//@ end

// ---- C09: the per-file cap of workspace symbols ----
// candidates are collected in map-iteration order; a per-file list longer than the cap is cut only after it has been
// put into the total order (C09 Less contract), so what survives the cut does not depend on the collection order
// (C19: the cut keeps the best-scored matches - the exact-name match of a declaration among them - only because the
// list was ordered first; cutting the collection order drops arbitrary declarations of a large file)
//@ func goroutineFindSymbols
//@   props C09 C19
//@   loop 0 step [a-candidate-list-is-cut-only-after-sorting] resultLen > maxSymbols ==> hits("sort.Sort#0") == prev(hits("sort.Sort#0")) + 1
//@   at call sort.Sort#0 before assert[the-list-that-is-cut-is-the-one-sorted] typeis(arg0, "*check.resultSorter") && as(arg0, "*check.resultSorter") == resultSorter
//@ end
//@ func (*AllProject).FindWorkspaceAllSymbol
//@   props C09 C19
//@   ensures[C09,C19,merged-list-is-sorted-before-the-cap-and-the-answer] hits("sort.Sort#0") == 1 && hits("handleAllFilesSymbols#0") == 1
//@   at call sort.Sort#0 before assert[C09,C19,everything-is-collected-before-sorting] hits("handleAllFilesSymbols#0") == 1
//@   at call sort.Sort#0 before assert[C09,C19,the-whole-collected-list-is-sorted-nothing-is-cut-before] resultSort.results == snapshot("handleAllFilesSymbols#0", resultSort.results)
//@        && typeis(arg0, "*check.resultSorter") && as(arg0, "*check.resultSorter") == resultSort
//@   loop range:a.fileStructMap exits-early-only-if [C19,every-analysed-file-is-queried] false
//@   loop range:a.fileStructMap step [C19,every-analysed-file-is-queried] fileStruct.HandleResult == results.FileHandleOk ==> len(fileList) == prev(len(fileList)) + 1
//@   loop range:resultSort.results exits-early-only-if [C19,every-surviving-symbol-is-returned] false
//@ end

// ---- C09 / C08: the workspace-wide table of globals (client mode: every file's globals) ----
// The files are visited in hash-map order; what makes the table independent of that order is that a global of a file
// enters it only through the total order JudgeShouldInsertGlobalInfo (asked for exactly this name and this definition),
// every global of every file is offered, and the table is built from the SAVED analysis of a file (fileStructMap) - not
// from the cache of unsaved buffers, whose contents no fresh server would see (C08).
//@ func (*AllProject).generateAllGlobalMaps
//@   props C09 C08
//@   at call JudgeShouldInsertGlobalInfo#0 before assert[C09,the-order-is-asked-about-this-definition] arg0 == third && arg2 == oneVar
//@   at call InsertThirdGlobalGMaps#0 before assert[C09,a-global-enters-the-table-only-through-the-total-order] arg0 == third && arg2 == oneVar && lastresult("JudgeShouldInsertGlobalInfo#0")
//@   loop range:fileResult.GlobalMaps step [C09,a-global-enters-the-table-only-through-the-total-order-of-this-iteration] hits("InsertThirdGlobalGMaps#0") > prev(hits("InsertThirdGlobalGMaps#0")) ==> hits("JudgeShouldInsertGlobalInfo#0") == prev(hits("JudgeShouldInsertGlobalInfo#0")) + 1
//@   loop range:fileResult.GlobalMaps step [C09,every-global-of-the-file-is-offered] hits("JudgeShouldInsertGlobalInfo#0") == prev(hits("JudgeShouldInsertGlobalInfo#0")) + 1
//@   loop range:fileResult.GlobalMaps exits-early-only-if [C09,every-global-of-the-file-is-offered] false
//@   loop range:third.AllIncludeFile#0 exits-early-only-if [C09,every-file-is-visited] false
//@   ensures[C08,table-is-built-from-the-saved-analyses] hits("GetCacheFileStruct#0") == 0 && hits("getVailidCacheFileStruct#0") == 0
//@   unchecked pre:JudgeShouldInsertGlobalInfo.r0#0 the entries of a file's GlobalMaps are created by the first pass for global definitions, which always attaches the ExtraGlobal record (CreateVarInfo / InsertGlobalVar, not under contract here): data well-formedness of the analysis result, assumed
//@   unchecked pre:JudgeShouldInsertGlobalInfo.r1#0 as above, for the definitions already in the workspace table (they come from the same maps through InsertThirdGlobalGMaps)
//@ end

// ---- C13: the documentation of a hovered variable is the comment attached to its DECLARATION ----
// read in the file that holds the declaration (not the file of the request), at the declaration's line, and shown as
// GetStrComment renders that text
//@ func (*AllProject).getVarHoverInfo
//@   props C13
//@   at call GetLineComment#0 before assert[documentation-is-read-in-the-declaring-file-at-the-declaration-line] arg0 == a && streq(arg1, symbol.FileName) && arg2 == symbol.VarInfo.Loc.EndLine
//@   at call GetStrComment#0 before assert[shown-text-is-the-comment-found-there] arg0 == lastresult("GetLineComment#0")
//@ end

// C09: the answer to workspace/symbol is the cut of the SORTED list of all matches; that is a function of the workspace only
// if every worker's answer reaches the list - they arrive in completion order, so dropping "the ones after the first 200"
// makes the answer depend on scheduling (seed C09-results-dropped-once-the-cap-is-reached)
//@ func recvFindSymbol
//@   props C09
//@   ensures[every-received-answer-is-merged] recvData.returnResult != nil ==> len(results.results) == old(len(results.results)) + len(recvData.returnResult)
//@ end
