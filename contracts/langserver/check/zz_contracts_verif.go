//go:build verif

// Contracts for package check (comment-only; read by /verif lhv).
package check

// GetVarStruct extracts the expression under the cursor by byte arithmetic on the document text.
//@ func GetVarStruct
//@   sweep C01
//@   requires[cursor-in-text] len(contents) > 0 && 0 <= offset && offset <= len(contents)
//@ end

// ---- C09: workspace/symbol answers must not depend on map order or goroutine completion order ----
//@ spec lessSym(si int, fi int, li int, ci int, ni int, sj int, fj int, lj int, cj int, nj int) bool =
//@      si > sj || (si == sj && (fi < fj || (fi == fj && (li < lj || (li == lj && (ci < cj || (ci == cj && ni < nj)))))))
//@ lemma lessSym_total [C09]: forall si int, fi int, li int, ci int, ni int, sj int, fj int, lj int, cj int, nj int ::
//@      (fi != fj || li != lj || ci != cj || ni != nj) ==> (lessSym(si, fi, li, ci, ni, sj, fj, lj, cj, nj) != lessSym(sj, fj, lj, cj, nj, si, fi, li, ci, ni))
//@ lemma lessSym_transitive [C09]: forall s1 int, f1 int, l1 int, c1 int, n1 int, s2 int, f2 int, l2 int, c2 int, n2 int, s3 int, f3 int, l3 int, c3 int, n3 int ::
//@      lessSym(s1, f1, l1, c1, n1, s2, f2, l2, c2, n2) && lessSym(s2, f2, l2, c2, n2, s3, f3, l3, c3, n3) ==> lessSym(s1, f1, l1, c1, n1, s3, f3, l3, c3, n3)

//@ func (*resultSorter).Less
//@   props C09
//@   sweep C01
//@   requires 0 <= i && i < len(rs.results) && 0 <= j && j < len(rs.results) && rs.results[i].fileSymbol != nil && rs.results[j].fileSymbol != nil
//@   ensures[less-is-total-order] result <==> (rs.results[i].score > rs.results[j].score || (rs.results[i].score == rs.results[j].score &&
//@        lessSym(0, strord(rs.results[i].fileSymbol.FileName), rs.results[i].fileSymbol.Loc.StartLine, rs.results[i].fileSymbol.Loc.StartColumn, strord(rs.results[i].fileSymbol.Name),
//@                0, strord(rs.results[j].fileSymbol.FileName), rs.results[j].fileSymbol.Loc.StartLine, rs.results[j].fileSymbol.Loc.StartColumn, strord(rs.results[j].fileSymbol.Name))))
//@ end
