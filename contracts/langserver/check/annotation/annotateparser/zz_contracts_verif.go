//go:build verif

// Contracts for package annotateparser (comment-only; read by /verif lhv). C01: no-panic sweep.
package annotateparser

//@ default-nonnil l

//@ func ParseCommentFragment
//@   sweep C01
//@   requires commentInfo != nil
//@ end

//@ func appendAliasState
//@   sweep C01
//@   requires aliasState != nil && constType != nil
//@ end

//@ func clearEmpytAlias
//@   sweep C01
//@   requires fragment != nil
//@ end

//@ func ParserLine
//@   sweep C01
//@ end

//@ func parserOneState
//@   sweep C01
//@ end

//@ func parserTypeState
//@   sweep C01
//@ end

//@ func parserAliasState
//@   sweep C01
//@ end

//@ func parserClassState
//@   sweep C01
//@ end

//@ func parserOverloadState
//@   sweep C01
//@ end

//@ func parserFieldState
//@   sweep C01
//@ end

//@ func parserParamState
//@   sweep C01
//@ end

//@ func parserReturnState
//@   sweep C01
//@ end

//@ func parserGenericState
//@   sweep C01
//@ end

//@ func parserVarargState
//@   sweep C01
//@ end

//@ func parserEnumState
//@   sweep C01
//@ end

//@ func parserSingleType
//@   sweep C01
//@ end

//@ func parserOneType
//@   sweep C01
//@ end

//@ func parserFunType
//@   sweep C01
//@ end

//@ func parserTableType
//@   sweep C01
//@ end

//@ func parserExtraAliasLine
//@   sweep C01
//@ end

//@ func splitStrQuotes
//@   sweep C01
//@ end

