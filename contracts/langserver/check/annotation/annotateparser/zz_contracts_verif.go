//go:build verif

// Contracts for package annotateparser (comment-only; read by /verif lhv). C01: no-panic sweep.
package annotateparser

//@ default-nonnil l

//@ func ParseCommentFragment
//@   sweep C01
//@   props C16
//@   ensures[one-line-number-per-statement] len(fragment.Stats) == len(fragment.Lines)
//@   loop 0 invariant len(fragment.Stats) == len(fragment.Lines)
//@   requires commentInfo != nil
//@ end

//@ func appendAliasState
//@   sweep C01
//@   requires aliasState != nil && constType != nil
//@ end

//@ func clearEmpytAlias
//@   sweep C01
//@   props C16
//@   requires[stats-and-lines-aligned] len(fragment.Stats) == len(fragment.Lines)
//@   ensures[stats-and-lines-stay-aligned] len(fragment.Stats) == len(fragment.Lines)
//@   loop 0 invariant len(fragment.Stats) == len(fragment.Lines) && i >= -1
//@   requires fragment != nil
//@ end

//@ func ParserLine
//@   sweep C01
//@ end

//@ func parserOneState
//@   sweep C01
//@ end

//@ func parserTypeState
//@   sweep C01
//@   props C16
//@   ensures[C16,one-const-flag-and-one-enum-flag-per-type] typeis(result, "*annotateast.AnnotateTypeState") && len(as(result, "*annotateast.AnnotateTypeState").ListType) >= 1
//@        && len(as(result, "*annotateast.AnnotateTypeState").ListConst) == len(as(result, "*annotateast.AnnotateTypeState").ListType)
//@        && len(as(result, "*annotateast.AnnotateTypeState").ListEnum) == len(as(result, "*annotateast.AnnotateTypeState").ListType)
//@   loop 0 invariant [C16] len(typeState.ListConst) == len(typeState.ListType) && len(typeState.ListEnum) == len(typeState.ListType)
//@ end

//@ func parserAliasState
//@   sweep C01
//@ end

//@ func parserClassState
//@   sweep C01
//@   props C16
//@   ensures[C16,one-location-per-parent] typeis(result, "*annotateast.AnnotateClassState")
//@        && len(as(result, "*annotateast.AnnotateClassState").ParentNameList) == len(as(result, "*annotateast.AnnotateClassState").ParentLocList)
//@   loop 0 invariant [C16] len(classState.ParentNameList) == len(classState.ParentLocList)
//@ end

//@ func parserOverloadState
//@   sweep C01
//@ end

//@ func parserFieldState
//@   sweep C01
//@ end

//@ func parserParamState
//@   sweep C01
//@ end

//@ func parserReturnState
//@   sweep C01
//@   props C16
//@   ensures[C16,one-optional-flag-per-return-type] typeis(result, "*annotateast.AnnotateReturnState") && len(as(result, "*annotateast.AnnotateReturnState").ReturnTypeList) >= 1
//@        && len(as(result, "*annotateast.AnnotateReturnState").ReturnOptionList) == len(as(result, "*annotateast.AnnotateReturnState").ReturnTypeList)
//@   loop 0 invariant [C16] len(returnState.ReturnOptionList) == len(returnState.ReturnTypeList)
//@ end
// ---@return T1[?] [, T2[?] ...]: after each type - and after its optional marker, when there is one - the NEXT token
// decides whether the list goes on: the list ends only where that token, looked up afresh, is not a comma
//@ func parserReturnState
//@   props C16
//@   loop 0 exits-early-only-if [return-list-ends-only-where-no-comma-follows-the-type-and-its-marker]
//@        lastresult("LookAheadKind#1") != annotatelexer.ATokenSepComma && hits("LookAheadKind#1") == hits("parserOneType#0")
//@   loop 0 invariant [C16] hits("LookAheadKind#1") == hits("parserOneType#0") && hits("LookAheadKind#0") == hits("parserOneType#0")
//@   at call LookAheadKind#1 before assert[separator-is-looked-up-after-the-optional-marker-was-consumed] hits("LookAheadKind#0") == hits("parserOneType#0")
//@        && (lastresult("LookAheadKind#0") == annotatelexer.ATokenOption ==> hits("NextToken#0") >= 1)
//@ end

//@ func parserGenericState
//@   sweep C01
//@   props C16
//@   ensures[C16,one-parent-slot-per-generic-name] typeis(result, "*annotateast.AnnotateGenericState") && len(as(result, "*annotateast.AnnotateGenericState").NameList) >= 1
//@        && len(as(result, "*annotateast.AnnotateGenericState").NameLocList) == len(as(result, "*annotateast.AnnotateGenericState").NameList)
//@        && len(as(result, "*annotateast.AnnotateGenericState").ParentNameList) == len(as(result, "*annotateast.AnnotateGenericState").NameList)
//@        && len(as(result, "*annotateast.AnnotateGenericState").ParentLocList) == len(as(result, "*annotateast.AnnotateGenericState").NameList)
//@   loop 0 invariant [C16] len(genericState.NameLocList) == len(genericState.NameList) && len(genericState.ParentNameList) == len(genericState.NameList)
//@        && len(genericState.ParentLocList) == len(genericState.NameList)
//@ end

//@ func parserVarargState
//@   sweep C01
//@ end

//@ func parserEnumState
//@   sweep C01
//@ end

//@ func parserSingleType
//@   sweep C01
//@   props C16
//@   ensures[array-wraps-a-type] typeis(result, "*annotateast.ArrayType") ==> as(result, "*annotateast.ArrayType").ItemType != nil
//@ end
// the "[]" suffix is looked for after EVERY kind of single type - a parenthesised union included, "(A|B)[]" is the
// documented way to write an array of a union -, and as often as it is written: TYPE[] with TYPE itself an array,
// "string[][]", is an array of arrays (until fix d06fdf3 only the first pair was read). Every pair consumed wraps the type
// parsed so far once more; the function returns only when the next token is not "[".
//@ func parserSingleType
//@   props C16
//@   ensures[array-suffix-is-looked-for-after-every-single-type] hits("LookAheadKind#1") >= 1
//@   ensures[every-array-suffix-is-consumed] l.aheadToken.valid && l.aheadToken.tokenKind != annotatelexer.ATokenVSepLbrack
//@   ensures[suffix-consumed-iff-array] (hits("NextTokenOfKind#2") >= 1 <==> typeis(result, "*annotateast.ArrayType")) && hits("NextTokenOfKind#2") == hits("NextTokenOfKind#3")
//@   loop for:l.LookAheadKind()==annotatelexer.ATokenVSepLbrack invariant [C16,C01] subType != nil && (hits("NextTokenOfKind#2") >= 1 <==> typeis(subType, "*annotateast.ArrayType")) && hits("NextTokenOfKind#2") == hits("NextTokenOfKind#3")
//@        && (typeis(subType, "*annotateast.ArrayType") ==> as(subType, "*annotateast.ArrayType").ItemType != nil)
//@   loop for:l.LookAheadKind()==annotatelexer.ATokenVSepLbrack step [each-suffix-wraps-the-type-parsed-so-far] typeis(subType, "*annotateast.ArrayType") && as(subType, "*annotateast.ArrayType").ItemType == prev(subType)
//@ end

//@ func parserOneType
//@   sweep C01
//@   props C16
//@   ensures[union-node] typeis(result, "*annotateast.MultiType") && len(as(result, "*annotateast.MultiType").TypeList) >= 1
//@   loop 0 invariant multiType != nil
//@ end

//@ func parserFunType
//@   sweep C01
//@   props C16
//@   ensures[function-node] typeis(result, "*annotateast.FuncType")
//@   ensures[parameter-lists-aligned] len(as(result, "*annotateast.FuncType").ParamNameList) == len(as(result, "*annotateast.FuncType").ParamTypeList) && len(as(result, "*annotateast.FuncType").ParamNameList) == len(as(result, "*annotateast.FuncType").ParamOptionList)
// a ": RETURN_TYPE" clause behind the closing parenthesis is always read - with or without parameters: a function type
// that records no return type is not followed by ':'
//@   ensures[return-clause-is-never-left-unread] len(as(result, "*annotateast.FuncType").ReturnTypeList) == 0 ==> l.aheadToken.valid && l.aheadToken.tokenKind != annotatelexer.ATokenSepColon
//@   loop 1 invariant funType != nil && len(funType.ParamNameList) == len(funType.ParamTypeList) && len(funType.ParamNameList) == len(funType.ParamOptionList) && len(funType.ParamNameList) == len(funType.ParamNameLocList)
//@   loop 2 invariant funType != nil && len(funType.ParamNameList) == len(funType.ParamTypeList) && len(funType.ParamNameList) == len(funType.ParamOptionList)
//@ end

//@ func parserTableType
//@   sweep C01
//@   props C16
//@   ensures[table-node] typeis(result, "*annotateast.TableType")
//@   ensures[key-and-value-are-full-union-types] !as(result, "*annotateast.TableType").EmptyFlag ==> typeis(as(result, "*annotateast.TableType").KeyType, "*annotateast.MultiType") && typeis(as(result, "*annotateast.TableType").ValueType, "*annotateast.MultiType")
//@   ensures[bare-table-has-no-parameters] as(result, "*annotateast.TableType").EmptyFlag ==> as(result, "*annotateast.TableType").KeyType == nil && as(result, "*annotateast.TableType").ValueType == nil
//@ end

//@ func parserExtraAliasLine
//@   sweep C01
//@ end

//@ func splitStrQuotes
//@   sweep C01
//@ end


// ---@class NAME [: PARENT {, PARENT}]: every parent is read; a parent equal to the class itself is skipped (it would
// make the inheritance walk loop) but the rest of the list is still read - the list ends only where the token after a
// parent, looked up afresh, is not a comma; every other parent is recorded with its location
//@ func parserClassState
//@   props C15 C16
//@   loop 0 exits-early-only-if [parent-list-ends-only-where-no-comma-follows-a-parent] lastresult("LookAheadKind#1") != annotatelexer.ATokenSepComma && hits("LookAheadKind#1") == hits("NextFieldName#1")
//@   loop 0 invariant [C15,C16] hits("LookAheadKind#1") == hits("NextFieldName#1")
//@   loop 0 step [every-parent-other-than-the-class-itself-is-recorded] !streq(oneParentName, classState.Name) ==> len(classState.ParentNameList) == prev(len(classState.ParentNameList)) + 1
//@ end

// ---@field [public|protected|private] NAME TYPE: each of the three scope markers is consumed as a marker (and not read
// as the field's name) and gives the field its scope; no marker means public
//@ func parserFieldState
//@   props C16
//@   ensures[scope-marker-is-consumed-and-sets-the-scope] typeis(result, "*annotateast.AnnotateFieldState")
//@        && (lastresult("LookAheadKind#0") == annotatelexer.ATokenKwPrivate ==> hits("NextToken#0") == 1 && as(result, "*annotateast.AnnotateFieldState").FieldScopeType == annotateast.FieldScopePrivate)
//@        && (lastresult("LookAheadKind#0") == annotatelexer.ATokenKwProtected ==> hits("NextToken#0") == 1 && as(result, "*annotateast.AnnotateFieldState").FieldScopeType == annotateast.FieldScopeProtected)
//@        && (lastresult("LookAheadKind#0") == annotatelexer.ATokenKwPubic ==> hits("NextToken#0") == 1 && as(result, "*annotateast.AnnotateFieldState").FieldScopeType == annotateast.FieldScopePublic)
//@        && (lastresult("LookAheadKind#0") != annotatelexer.ATokenKwPrivate && lastresult("LookAheadKind#0") != annotatelexer.ATokenKwProtected && lastresult("LookAheadKind#0") != annotatelexer.ATokenKwPubic
//@            ==> hits("NextToken#0") == 0 && as(result, "*annotateast.AnnotateFieldState").FieldScopeType == annotateast.FieldScopePublic)
//@ end
