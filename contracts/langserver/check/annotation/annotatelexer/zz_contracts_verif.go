//go:build verif

// Contracts for package annotatelexer (comment-only; read by /verif lhv). C01: no-panic sweep. The same sweep runs under C16:
// ParserLine recovers only the lexer's own error value, so a run-time panic here would take the neighbouring annotation lines with it
// (per-line isolation; seed C16-lone-quote-at-line-end-panics).
package annotatelexer

//@ func (*AnnotateToken).GetTokenKind
//@   sweep C01 C16
//@ end

//@ func CreateAnnotateLexer
//@   sweep C01 C16
//@   requires chunk != nil
//@   ensures result != nil
//@ end

//@ func (*AnnotateLexer).CheckAliasHeadValid
//@   sweep C01 C16
//@ end

//@ func (*AnnotateLexer).CheckHeardValid
//@   sweep C01 C16
//@ end

//@ func (*AnnotateLexer).test
//@   sweep C01 C16
//@   ensures result ==> len(l.chunk) >= len(s)
//@   loop 0 invariant 0 <= i && i <= sLen && sLen == len(s) && sLen <= len(l.chunk)
//@   loop 0 decreases len(s) - i
//@ end

//@ func (*AnnotateLexer).next
//@   sweep C01 C16
//@   pure
//@   requires 0 <= n && n <= len(l.chunk)
//@ end

//@ func (*AnnotateLexer).setNowToken
//@   sweep C01 C16
//@ end

//@ func (*AnnotateLexer).skipWhiteSpaces
//@   sweep C01 C16
//@ end

//@ func (*AnnotateLexer).NextTokenStruct
//@   sweep C01 C16
//@ end

//@ func (*AnnotateLexer).NextToken
//@   sweep C01 C16
//@ end

//@ func (*AnnotateLexer).NextTokenOfKind
//@   sweep C01 C16
//@ end

//@ func (*AnnotateLexer).NextIdentifier
//@   sweep C01 C16
//@ end

//@ func (*AnnotateLexer).NextFieldName
//@   sweep C01 C16
//@ end
// C16: the manual lets every annotation keyword (fun, table, type, ..., const, enum) double as a field or parameter
// name.  The keyword table `keywords` is the definition of "keyword"; a name is refused only when the token is not an
// entry of that table carrying its own kind.
//@ func (*AnnotateLexer).NextFieldName
//@   props C16
//@   at call ErrorPrint#0 before assert[only-a-non-keyword-is-refused-as-field-name] kind != ATokenKwIdentifier && !(has(keywords, token) && keywords[token] == kind)
//@ end

//@ func (*AnnotateLexer).NextTypeIdentifier
//@   sweep C01 C16
//@ end

//@ func (*AnnotateLexer).NextParamName
//@   sweep C01 C16
//@ end
//@ func (*AnnotateLexer).NextParamName
//@   props C16
//@   at call ErrorPrint#0 before assert[only-a-non-keyword-is-refused-as-parameter-name] kind != ATokenKwIdentifier && kind != ATokenVararg && !(has(keywords, token) && keywords[token] == kind)
//@ end

//@ func (*AnnotateLexer).scanShortString
//@   sweep C01 C16
//@   requires len(l.chunk) >= 1
//@   ensures len(l.chunk) < old(len(l.chunk))
//@ end

//@ func (*AnnotateLexer).scanIdentifier
//@   sweep C01 C16
//@   requires len(l.chunk) >= 1
//@   ensures len(l.chunk) < old(len(l.chunk))
//@ end

//@ func (*AnnotateLexer).lookAheardToken
//@   sweep C01 C16
//@   props C16
//@   ensures[C16,a-waiting-token-is-left-as-it-is] old(l.aheadToken.valid) ==> l.aheadToken.valid && l.aheadToken.tokenKind == old(l.aheadToken.tokenKind)
//@ end

// C16: the kind returned is that of the token left waiting to be read
//@ func (*AnnotateLexer).LookAheadKind
//@   sweep C01 C16
//@   props C16
//@   ensures[C16,answer-is-the-waiting-token] l.aheadToken.valid && result == l.aheadToken.tokenKind
//@ end

//@ func (*AnnotateLexer).GetRemainComment
//@   sweep C01 C16
//@ end

//@ func (*AnnotateLexer).GetHeardTokenStr
//@   sweep C01 C16
//@ end

//@ func (*AnnotateLexer).ErrorPrint
//@   sweep C01 C16
//@   panics annotatelexer.ParseAnnotateErr
//@   ensures false
//@ end

//@ func (*AnnotateLexer).GetHeardLoc
//@   sweep C01 C16
//@   props C16
//@   ensures[C16,a-waiting-token-is-left-as-it-is] old(l.aheadToken.valid) ==> l.aheadToken.valid && l.aheadToken.tokenKind == old(l.aheadToken.tokenKind)
//@ end

//@ func (*AnnotateLexer).GetNowLoc
//@   sweep C01 C16
//@   props C16
//@   ensures[C16,a-waiting-token-is-left-as-it-is] old(l.aheadToken.valid) ==> l.aheadToken.valid && l.aheadToken.tokenKind == old(l.aheadToken.tokenKind)
//@ end

//@ func (*AnnotateLexer).GetPreLoc
//@   sweep C01 C16
//@ end

//@ func (*AnnotateLexer).SetLastNormalTypeLoc
//@   sweep C01 C16
//@ end

//@ func (*AnnotateLexer).GetLastNormalTypeLoc
//@   sweep C01 C16
//@ end

//@ func isWhiteSpace
//@   sweep C01 C16
//@   pure
//@ end

//@ func isLetter
//@   sweep C01 C16
//@   pure
//@ end

//@ func isDigit
//@   sweep C01 C16
//@   pure
//@ end

