//go:build verif

// C17 contracts for package langserver (comment-only; read by /verif lhv).
// The client's switches travel as a positional []bool whose index is the diagnostic type number
// (check/common/err_info.go). Each documented switch must sit at the index of the type it names.
package langserver

//@ func getCheckFlagList
//@   props C17
//@   sweep C01
//@   requires initOptions != nil
//@   ensures[length] len(checkFlagList) == 26
//@   ensures[master-switch] checkFlagList[0] == initOptions.AllEnable
//@   ensures[CheckSyntax] checkFlagList[common.CheckErrorSyntax] == initOptions.CheckSyntax
//@   ensures[CheckNoDefine] checkFlagList[common.CheckErrorNoDefine] == initOptions.CheckNoDefine
//@   ensures[CheckAfterDefine] checkFlagList[common.CheckErrorCycleDefine] == initOptions.CheckAfterDefine
//@   ensures[CheckLocalNoUse] checkFlagList[common.CheckErrorLocalNoUse] == initOptions.CheckLocalNoUse
//@   ensures[CheckTableDuplicateKey] checkFlagList[common.CheckErrorTableDuplicateKey] == initOptions.CheckTableDuplicateKey
//@   ensures[CheckReferNoFile] checkFlagList[common.CheckErrorNoFile] == initOptions.CheckReferNoFile
//@   ensures[CheckAssignParamNum] checkFlagList[common.CheckErrorAssignParamNum] == initOptions.CheckAssignParamNum
//@   ensures[CheckLocalDefineParamNum] checkFlagList[common.CheckErrorLocalParamNum] == initOptions.CheckLocalDefineParamNum
//@   ensures[CheckGotoLable] checkFlagList[common.CheckErrorGotoLabel] == initOptions.CheckGotoLable
//@   ensures[CheckFuncParam] checkFlagList[common.CheckErrorCallParam] == initOptions.CheckFuncParam
//@   ensures[CheckImportModuleVar] checkFlagList[common.CheckErrorImportVar] == initOptions.CheckImportModuleVar
//@   ensures[CheckIfNotVar] checkFlagList[common.CheckErrorNotIfVar] == initOptions.CheckIfNotVar
//@   ensures[CheckFunctionDuplicateParam] checkFlagList[common.CheckErrorDuplicateParam] == initOptions.CheckFunctionDuplicateParam
//@   ensures[CheckBinaryExpressionDuplicate] checkFlagList[common.CheckErrorDuplicateExp] == initOptions.CheckBinaryExpressionDuplicate
//@   ensures[CheckErrorOrAlwaysTrue] checkFlagList[common.CheckErrorOrAlwaysTrue] == initOptions.CheckErrorOrAlwaysTrue
//@   ensures[CheckErrorAndAlwaysFalse] checkFlagList[common.CheckErrorAndAlwaysFalse] == initOptions.CheckErrorAndAlwaysFalse
//@   ensures[CheckNoUseAssign] checkFlagList[common.CheckErrorNoUseAssign] == initOptions.CheckNoUseAssign
//@   ensures[CheckAnnotateType] checkFlagList[common.CheckErrorAnnotate] == initOptions.CheckAnnotateType
//@   ensures[CheckDuplicateIf] checkFlagList[common.CheckErrorDuplicateIf] == initOptions.CheckDuplicateIf
//@   ensures[CheckSelfAssign] checkFlagList[common.CheckErrorSelfAssign] == initOptions.CheckSelfAssign
//@   ensures[CheckFloatEq] checkFlagList[common.CheckErrorFloatEq] == initOptions.CheckFloatEq
//@   ensures[CheckClassField] checkFlagList[common.CheckErrorClassField] == initOptions.CheckClassField
//@   ensures[CheckConstAssign] checkFlagList[23] == initOptions.CheckConstAssign
//@   ensures[CheckFuncParamType] checkFlagList[24] == initOptions.CheckFuncParamType
//@   ensures[CheckFuncReturnType] checkFlagList[25] == initOptions.CheckFuncReturnType
//@ end

//@ func getWarnCheckList
//@   props C17
//@   sweep C01
//@   requires warnParam != nil
//@   ensures[length] len(checkFlagList) == 26
//@   ensures[master-switch] checkFlagList[0] == warnParam.AllEnable
//@   ensures[CheckSyntax] checkFlagList[common.CheckErrorSyntax] == warnParam.CheckSyntax
//@   ensures[CheckNoDefine] checkFlagList[common.CheckErrorNoDefine] == warnParam.CheckNoDefine
//@   ensures[CheckAfterDefine] checkFlagList[common.CheckErrorCycleDefine] == warnParam.CheckAfterDefine
//@   ensures[CheckLocalNoUse] checkFlagList[common.CheckErrorLocalNoUse] == warnParam.CheckLocalNoUse
//@   ensures[CheckTableDuplicateKey] checkFlagList[common.CheckErrorTableDuplicateKey] == warnParam.CheckTableDuplicateKey
//@   ensures[CheckReferNoFile] checkFlagList[common.CheckErrorNoFile] == warnParam.CheckReferNoFile
//@   ensures[CheckAssignParamNum] checkFlagList[common.CheckErrorAssignParamNum] == warnParam.CheckAssignParamNum
//@   ensures[CheckLocalDefineParamNum] checkFlagList[common.CheckErrorLocalParamNum] == warnParam.CheckLocalDefineParamNum
//@   ensures[CheckGotoLable] checkFlagList[common.CheckErrorGotoLabel] == warnParam.CheckGotoLable
//@   ensures[CheckFuncParam] checkFlagList[common.CheckErrorCallParam] == warnParam.CheckFuncParam
//@   ensures[CheckImportModuleVar] checkFlagList[common.CheckErrorImportVar] == warnParam.CheckImportModuleVar
//@   ensures[CheckIfNotVar] checkFlagList[common.CheckErrorNotIfVar] == warnParam.CheckIfNotVar
//@   ensures[CheckFunctionDuplicateParam] checkFlagList[common.CheckErrorDuplicateParam] == warnParam.CheckFunctionDuplicateParam
//@   ensures[CheckBinaryExpressionDuplicate] checkFlagList[common.CheckErrorDuplicateExp] == warnParam.CheckBinaryExpressionDuplicate
//@   ensures[CheckErrorOrAlwaysTrue] checkFlagList[common.CheckErrorOrAlwaysTrue] == warnParam.CheckErrorOrAlwaysTrue
//@   ensures[CheckErrorAndAlwaysFalse] checkFlagList[common.CheckErrorAndAlwaysFalse] == warnParam.CheckErrorAndAlwaysFalse
//@   ensures[CheckNoUseAssign] checkFlagList[common.CheckErrorNoUseAssign] == warnParam.CheckNoUseAssign
//@   ensures[CheckAnnotateType] checkFlagList[common.CheckErrorAnnotate] == warnParam.CheckAnnotateType
//@   ensures[CheckDuplicateIf] checkFlagList[common.CheckErrorDuplicateIf] == warnParam.CheckDuplicateIf
//@   ensures[CheckSelfAssign] checkFlagList[common.CheckErrorSelfAssign] == warnParam.CheckSelfAssign
//@   ensures[CheckFloatEq] checkFlagList[common.CheckErrorFloatEq] == warnParam.CheckFloatEq
//@   ensures[CheckClassField] checkFlagList[common.CheckErrorClassField] == warnParam.CheckClassField
//@   ensures[CheckConstAssign] checkFlagList[23] == warnParam.CheckConstAssign
//@   ensures[CheckFuncParamType] checkFlagList[24] == warnParam.CheckFuncParamType
//@   ensures[CheckFuncReturnType] checkFlagList[25] == warnParam.CheckFuncReturnType
//@ end

