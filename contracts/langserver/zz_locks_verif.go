//go:build verif

// Lock discipline for package langserver (comment-only; read by /verif lhv).
// C10: jrpc2 dispatches up to four requests concurrently. Every access to the shared server state
// (the guarded fields below) must happen with requestMutex held; helpers that touch the state are
// entered with the mutex held (computed bottom-up over the static call graph and checked at every
// call site); a handler never calls, with the mutex held, a function that takes it (self-deadlock);
// the mutex is in the same state at every exit as at entry. Mutual exclusion of whole handlers is
// what makes each answer equal to the answer in the order of lock acquisition.
package langserver

//@ guarded LspServer requestMutex: fileCache fileErrorMap fileChangeErrorMap project colorTime changeConfFlag
// Initialize/Initialized run before the client may send anything else (LSP ordering); Shutdown/Exit end the process.
//@ lock-exempt (*LspServer).Initialize (*LspServer).Initialized (*LspServer).Shutdown (*LspServer).Exit (*LspServer).CancelRequest (*LspServer).GetOnlineReq
// Entry points: the methods registered with the jrpc2 dispatcher in CreateServer (it calls them without any lock).
//@ lock-entry (*LspServer).TextDocumentDidChange (*LspServer).TextDocumentDidSave (*LspServer).TextDocumentDidOpen (*LspServer).TextDocumentDidClose (*LspServer).TextDocumentDefine (*LspServer).TextDocumentHover (*LspServer).TextDocumentReferences (*LspServer).TextDocumentSymbol (*LspServer).TextDocumentRename (*LspServer).TextDocumentHighlight (*LspServer).TextDocumentSignatureHelp (*LspServer).TextDocumentColor (*LspServer).TextDocumentCodeLens (*LspServer).TextDocumentdocumentLink (*LspServer).TextDocumentComplete (*LspServer).TextDocumentCompleteResolve (*LspServer).ChangeConfiguration (*LspServer).WorkspaceChangeWorkspaceFolders (*LspServer).WorkspaceChangeWatchedFiles (*LspServer).WorkspaceSymbolRequest (*LspServer).TextDocumentGetVarColor

//@ func (*LspServer).pushFileErrList
//@   props C10
//@   opt lock
//@ end

//@ func (*LspServer).GetAllDiagnostics
//@   props C10
//@   opt lock
//@ end

//@ func (*LspServer).pushAllDiagnosticsAgain
//@   props C10
//@   opt lock
//@ end

//@ func (*LspServer).ClearOneFileDiagnostic
//@   props C10
//@   opt lock
//@ end

//@ func (*LspServer).RemoveFile
//@   props C10
//@   opt lock
//@ end

//@ func (*LspServer).pushFileChangeDiagnostic
//@   props C10
//@   opt lock
//@ end

//@ func (*LspServer).pushFileDiagnostic
//@   props C10
//@   opt lock
//@ end

//@ func (*LspServer).InsertChangeFileErr
//@   props C10
//@   opt lock
//@ end

//@ func (*LspServer).ClearChangeFileErr
//@   props C10
//@   opt lock
//@ end

//@ func (*LspServer).SaveOneFilePushAgain
//@   props C10
//@   opt lock
//@ end

//@ func (*LspServer).ClearFileSyntaxErr
//@   props C10
//@   opt lock
//@ end

//@ func (*LspServer).pushAllChangeFileDiagnosticErr
//@   props C10
//@   opt lock
//@ end

//@ func (*LspServer).UDPReportOnline
//@   props C10
//@   opt lock
//@ end

//@ func (*LspServer).initialCheckProject
//@   props C10
//@   opt lock
//@ end

//@ func (*LspServer).RunLocalDiagnostices
//@   props C10
//@   opt lock
//@ end

//@ func (*LspServer).getAllProject
//@   props C10
//@   opt lock
//@ end

//@ func (*LspServer).getFileCache
//@   props C10
//@   opt lock
//@ end

//@ func (*LspServer).setColorTime
//@   props C10
//@   opt lock
//@ end

//@ func (*LspServer).isCanHighlight
//@   props C10
//@   opt lock
//@ end

//@ func (*LspServer).beginFileRequest
//@   props C10
//@   opt lock
//@ end

//@ func (*LspServer).SetOnlineReportParam
//@   props C10
//@   opt lock
//@ end

//@ func (*LspServer).SetLuaFileNumber
//@   props C10
//@   opt lock
//@ end

//@ func (*LspServer).GetOnlineReportData
//@   props C10
//@   opt lock
//@ end

//@ func (*LspServer).SetFirstReportFlag
//@   props C10
//@   opt lock
//@ end

//@ func (*LspServer).SetReportOtherInfo
//@   props C10
//@   opt lock
//@ end

//@ func (*LspServer).TextDocumentCodeLens
//@   props C10
//@   opt lock
//@ end

//@ func (*LspServer).TextDocumentdocumentLink
//@   props C10
//@   opt lock
//@ end

//@ func (*LspServer).ChangeConfiguration
//@   props C10
//@   opt lock
//@ end

//@ func (*LspServer).clearLspServer
//@   props C10
//@   opt lock
//@ end

//@ func (*LspServer).handleChange
//@   props C10
//@   opt lock
//@ end

//@ func (*LspServer).PushProgressReport
//@   props C10
//@   opt lock
//@ end

//@ func (*LspServer).sendDiagnostics
//@   props C10
//@   opt lock
//@ end

//@ func (*LspServer).TextDocumentComplete
//@   props C10
//@   opt lock
//@ end

//@ func (*LspServer).handleGenerateAnnotateType
//@   props C10
//@   opt lock
//@ end

//@ func (*LspServer).judgeCompeleteFile
//@   props C10
//@   opt lock
//@ end

//@ func (*LspServer).handleGenerateComment
//@   props C10
//@   opt lock
//@ end

//@ func (*LspServer).handleGenerateAnnotateArea
//@   props C10
//@   opt lock
//@ end

//@ func (*LspServer).convertToCompItems
//@   props C10
//@   opt lock
//@ end

//@ func (*LspServer).TextDocumentCompleteResolve
//@   props C10
//@   opt lock
//@ end

//@ func (*LspServer).TextDocumentDefine
//@   props C10
//@   opt lock
//@ end

//@ func (*LspServer).handleAnnotateTypeDefine
//@   props C10
//@   opt lock
//@ end

//@ func (*LspServer).TextDocumentDidOpen
//@   props C10
//@   opt lock
//@ end

//@ func (*LspServer).TextDocumentDidChange
//@   props C10
//@   opt lock
//@ end

//@ func (*LspServer).WorkspaceChangeWatchedFiles
//@   props C10
//@   opt lock
//@ end

//@ func (*LspServer).TextDocumentDidClose
//@   props C10
//@   opt lock
//@ end

//@ func (*LspServer).TextDocumentDidSave
//@   props C10
//@   opt lock
//@ end

//@ func (*LspServer).TextDocumentHighlight
//@   props C10
//@   opt lock
//@ end

//@ func (*LspServer).TextDocumentHover
//@   props C10
//@   opt lock
//@ end

//@ func (*LspServer).getHoverStr
//@   props C10
//@   opt lock
//@ end

//@ func (*LspServer).hoverOpenFile
//@   props C10
//@   opt lock
//@ end

//@ func (*LspServer).handleAnnotateHover
//@   props C10
//@   opt lock
//@ end

//@ func (*LspServer).TextDocumentReferences
//@   props C10
//@   opt lock
//@ end

//@ func (*LspServer).TextDocumentRename
//@   props C10
//@   opt lock
//@ end

//@ func (*LspServer).TextDocumentSignatureHelp
//@   props C10
//@   opt lock
//@ end

//@ func (*LspServer).doSignatureHelp
//@   props C10
//@   opt lock
//@ end

//@ func (*LspServer).getFuncParamCandidateType
//@   props C10
//@   opt lock
//@ end

//@ func (*LspServer).TextDocumentSymbol
//@   props C10
//@   opt lock
//@ end

//@ func (*LspServer).TextDocumentGetVarColor
//@   props C10
//@   opt lock
//@ end

//@ func (*LspServer).TextDocumentColor
//@   props C10
//@   opt lock
//@ end

//@ func (*LspServer).WorkspaceChangeWorkspaceFolders
//@   props C10
//@   opt lock
//@ end

//@ func (*LspServer).addWorkspaceFolder
//@   props C10
//@   opt lock
//@ end

//@ func (*LspServer).removeWorkspaceFolder
//@   props C10
//@   opt lock
//@ end

//@ func (*LspServer).WorkspaceSymbolRequest
//@   props C10
//@   opt lock
//@ end

