//go:build verif

// Contracts for package stringutil (comment-only; read by /verif lhv). C01: no-panic sweep.
package stringutil

//@ func IsDigit
//@   sweep C01
//@   pure
//@ end

//@ func IsLetter
//@   sweep C01
//@   pure
//@ end

//@ func GetBeforeIndex
//@   sweep C01
//@   requires[cursor-in-text] offset < len(contents)
//@   ensures 0 <= beforeIndex && (offset >= 0 ==> beforeIndex <= offset)
//@   loop 0 invariant index <= offset && (offset >= 0 ==> index >= -1 && 0 <= beforeIndex && beforeIndex <= offset)
//@   loop 0 decreases index + 1
//@ end

//@ func SplitVec
//@   sweep C01
//@ end

//@ func GetLineOffset
//@   sweep C01
//@   loop 0 invariant lineIndex < offset && (offset >= 0 ==> lineIndex >= -1)
//@   requires[cursor-in-text] 0 <= offset && offset <= len(contents)
//@   loop 0 decreases lineIndex + 1
//@ end

//@ func GetPreLineStr
//@   sweep C01
//@   loop 0 invariant lineIndex < offset && (offset >= 0 ==> lineIndex >= -1)
//@   requires[cursor-in-text] 0 <= offset && offset <= len(contents)
//@   loop 0 decreases lineIndex + 1
//@ end

//@ func GetCompeleteLineStr
//@   sweep C01
//@   loop 0 invariant index >= -1 && index < offset && 0 <= beforeLinePos && beforeLinePos <= offset && offset < conLen && conLen == len(contents) && 0 <= offset
//@   loop 1 invariant offset <= index && offset <= endLinePos && endLinePos < conLen && 0 <= beforeLinePos && beforeLinePos <= offset && conLen == len(contents)
//@   loop 0 decreases index + 1
//@   loop 1 decreases conLen - index
//@   requires[cursor-in-text] len(contents) > 0 && 0 <= offset && offset <= len(contents)
//@ end

//@ func GetOpenFileStr
//@   sweep C01
//@   requires[cursor-in-text] len(contents) > 0 && 0 <= offset && offset <= len(contents)
//@ end

// C18: go-to-definition and hover on a require / dofile / import string must lead to the file the analysis loaded. The
// analysis (CheckReferFile) turns EVERY "." of a module string into "/" - also in a string that already has a "/" -, so
// the string under the cursor is normalised the same way, unconditionally, before it is used
//@ func GetOpenFileStr
//@   props C18
//@   at call strings.Replace#0 before assert[every-dot-becomes-a-slash] streq(arg1, ".") && streq(arg2, "/") && arg3 == -1
//@   at call strings.TrimSuffix#0 before assert[string-under-the-cursor-is-normalised-before-it-is-used] hits("strings.Replace#0") == 1
//@   loop range:importVec invariant [C18] hits("strings.Replace#0") == 0 && len(strOpenFile) == 0
//@ end

// C05 / C11 / C13: the cursor is inside a quoted key only between ONE opening [" and its closing "] (fix: a quote and a
// bracket anywhere else on the line used to count). The ensures pin the shape of an accepted answer: the closing "]" is
// at or behind the cursor, the opening "[" in front of it, and nothing but key-name characters, one quote and blanks
// lie between the cursor and either of them is what the two scans establish (loop invariants below).
//@ func matchSpecialBracketsStr
//@   sweep C01
//@   props C05 C11 C13
//@   loop 0 invariant index >= offset && rightI == -1
//@   loop 0 decreases len(contents) - index
//@   loop 1 invariant next > index && next <= len(contents)
//@   loop 1 decreases len(contents) - next
//@   loop 2 invariant index <= offset - 1 && index >= -1 && leftI == -1 && offset <= rightI && rightI < len(contents)
//@   loop 2 decreases index + 1
//@   loop 3 invariant prev < index && prev >= -1
//@   loop 3 decreases prev + 1
//@   requires[cursor-in-text] 0 <= offset && offset < len(contents)
//@   ensures flag ==> offset <= endIndex && endIndex < len(contents)
//@   ensures[C05,C11,C13,an-accepted-key-is-closed-by-a-bracket-behind-the-cursor] flag ==> contents[endIndex] == 93 && 0 <= beforeIndex && beforeIndex < offset && contents[beforeIndex] == 91
//@ end

//@ func GetContentBracketsFlag
//@   sweep C01
//@   loop 0 invariant index >= offset && offset <= endIndex && endIndex < len(contents) && 0 <= beforeIndex && beforeIndex <= offset && offset < len(contents)
//@   loop 0 decreases len(contents) - index
//@   requires[cursor-in-text] 0 <= offset && offset < len(contents)
//@   ensures 0 <= beforeIndex && beforeIndex <= endIndex && endIndex < len(contents)
//@ end

