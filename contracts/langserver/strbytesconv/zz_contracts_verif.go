//go:build verif

// Contracts for package strbytesconv. Both functions reinterpret memory through unsafe.Pointer,
// which is outside the verified subset: their contracts are TRUSTED (assumed, body not checked),
// including the frame: the only stores are to a local header value.
package strbytesconv

//@ func StringToBytes
//@   trusted
//@   props C13 C01 C04
//@   ensures view(bytes) == str
//@   assigns nothing
//@ end

//@ func BytesToString
//@   trusted
//@   props C13 C01 C04
//@   ensures result == view(bytes)
//@   assigns nothing
//@ end
