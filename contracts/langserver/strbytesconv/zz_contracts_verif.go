//go:build verif

// Contracts for package strbytesconv. Both functions reinterpret memory through unsafe.Pointer,
// which is outside the verified subset: their contracts are TRUSTED (assumed, body not checked).
package strbytesconv

//@ func StringToBytes
//@   trusted
//@   props C13 C01
//@   ensures view(bytes) == str
//@ end

//@ func BytesToString
//@   trusted
//@   props C13 C01
//@   ensures result == view(bytes)
//@ end
