//go:build verif

// Contracts for package lspcommon (comment-only; read by /verif's lhv).
// C02: the position scan used for incremental edits equals the LSP position semantics.
// C04: cursor -> offset conversion and Location -> Range conversion.
package lspcommon

// ---- LSP position semantics over UTF-8 text (spec) ----
// B(s,k): k is a character boundary.  L(s,k)/C(s,k): zero-based line and UTF-16 column of boundary k.
// Lines end at LF, CRLF or a lone CR; a 4-byte sequence is two UTF-16 code units.

//@ spec lo8(b int) int = b < 128 ? 0 : (b < 192 ? 1 : (b < 224 ? 2 : (b < 240 ? 3 : (b < 248 ? 4 : (b < 252 ? 5 : (b < 254 ? 6 : (b < 255 ? 7 : 8)))))))
//@ spec cwidth(b int) int = b < 128 ? 1 : (b < 224 ? 2 : (b < 240 ? 3 : 4))
//@ spec units(b int) int = b >= 240 ? 2 : 1
//@ spec lineEnd(s []byte, k int) bool = s[k] == 10 || (s[k] == 13 && (k + 1 >= len(s) || s[k+1] != 10))
//@ spec leadOK(s []byte, k int) bool = (s[k] < 128 || (s[k] >= 194 && s[k] <= 244)) && k + cwidth(s[k]) <= len(s)
//@ rec B(s []byte, k int) bool
//@ rec L(s []byte, k int) int
//@ rec C(s []byte, k int) int
//@ rec WF(s []byte, k int) bool
//@ axiom B_zero: forall s []byte, k int :: B(s, k) :: B(s, 0) && L(s, 0) == 0 && C(s, 0) == 0
//@ axiom B_step: forall s []byte, k int :: B(s, k) :: B(s, k) && 0 <= k && k < len(s) ==>
//@        B(s, k + cwidth(s[k]))
//@        && L(s, k + cwidth(s[k])) == L(s, k) + (lineEnd(s, k) ? 1 : 0)
//@        && C(s, k + cwidth(s[k])) == (lineEnd(s, k) ? 0 : C(s, k) + units(s[k]))
//@ axiom B_range: forall s []byte, k int :: B(s, k) :: B(s, k) ==> L(s, k) >= 0 && C(s, k) >= 0
//@ axiom WF_step: forall s []byte, k int :: WF(s, k) :: WF(s, k) && 0 <= k && k < len(s) ==> leadOK(s, k) && WF(s, k + cwidth(s[k]))
//@ spec atPos(s []byte, k int, line int, ch int) bool = B(s, k) && 0 <= k && k <= len(s) && L(s, k) == line && C(s, k) == ch

//@ func offsetForStartAndEnd$1
//@   props C02
//@   ensures[leading-ones] result == lo8(b)
//@   loop 0 invariant 0 <= num && num <= 8 && (num >= 1 ==> b >= 128) && (num >= 2 ==> b >= 192) && (num >= 3 ==> b >= 224) && (num >= 4 ==> b >= 240)
//@          && (num >= 5 ==> b >= 248) && (num >= 6 ==> b >= 252) && (num >= 7 ==> b >= 254) && (num >= 8 ==> b >= 255)
//@   loop 0 decreases 9 - num
//@ end

//@ func OffsetForPosition$1
//@   props C04
//@   ensures[leading-ones] result == lo8(b)
//@   loop 0 invariant 0 <= num && num <= 8 && (num >= 1 ==> b >= 128) && (num >= 2 ==> b >= 192) && (num >= 3 ==> b >= 224) && (num >= 4 ==> b >= 240)
//@          && (num >= 5 ==> b >= 248) && (num >= 6 ==> b >= 252) && (num >= 7 ==> b >= 254) && (num >= 8 ==> b >= 255)
//@   loop 0 decreases 9 - num
//@ end

//@ func offsetForStartAndEnd
//@   props C02
//@   sweep C01
//@   opt infer
//@   requires WF(contents, 0)
//@   requires[doc-under-4GiB] len(contents) < 4294967295
//@   ensures[start-is-lsp-position] err == nil ==> atPos(contents, startOffset, startPos.Line, startPos.Character)
//@   ensures[end-is-lsp-position] err == nil ==> atPos(contents, endOffset, endPos.Line, endPos.Character)
//@   ensures[ordered] err == nil ==> 0 <= startOffset && startOffset <= endOffset && endOffset <= len(contents)
//@   loop 0 invariant 0 <= index && index <= len(contents) && index == offset && WF(contents, index)
//@          && B(contents, index) && L(contents, index) == line && C(contents, index) == col
//@          && (startFlag ==> atPos(contents, startOffset, startPos.Line, startPos.Character) && startOffset <= offset)
//@          && !endFlag
//@   loop 0 decreases len(contents) - index
//@ end

// ApplyContentChanges: every range edit is the splice old[:start] ++ text ++ old[end:] at the
// offsets offsetForStartAndEnd returned (i.e. at the LSP positions, by its contract).
// ASSUMED, not proved: the text held for a document is well-formed UTF-8 below 4 GiB (it arrives
// through encoding/json, which never yields invalid UTF-8; splicing WF text at character
// boundaries keeps it WF - an induction the SMT back ends do not do unaided).
//@ func (*FileMapCache).ApplyContentChanges
//@   props C02
//@   ensures[C02,C08,an-emptied-document-is-an-empty-text-not-no-text] result1 == nil ==> result0 != nil
//@   sweep C01
//@   opt infer
//@   requires[protocol-conformant] forall(k, 0, len(changes), changes[k].Range == nil ==> changes[k].RangeLength == 0)
//@   loop 0 assume WF(contents, 0) && len(contents) < 4294967295
//@   loop 0 decreases len(changes) - rangeindex
//@   at call (*bytes.Buffer).Bytes#0 assert[splice-length] len(result) == start + len(change.Text) + len(contents) - end
//@   at call (*bytes.Buffer).Bytes#0 assert[splice-prefix] forall(j, 0, start, result[j] == contents[j])
//@   at call (*bytes.Buffer).Bytes#0 assert[splice-text] forall(j, 0, len(change.Text), result[start + j] == change.Text[j])
//@   at call (*bytes.Buffer).Bytes#0 assert[splice-suffix] forall(j, end, len(contents), result[start + len(change.Text) + j - end] == contents[j])
//@ end

// The document table itself: a document is open exactly while it has an entry (whatever its text - an EMPTY text, even
// one stored as a nil slice after deleting everything, is still an open document); what is read back is what was stored.
//@ typeinv FileMapCache [C02]: self.m != nil
//@ func CreateFileMapCache
//@   props C02
//@   ensures result != nil
//@ end
//@ func (*FileMapCache).SetFileContent
//@   props C02
//@   ensures[stored-under-its-path] has(fileMapCache.m, strFile) && fileMapCache.m[strFile].content == contents
//@ end
//@ func (*FileMapCache).GetFileContent
//@   props C02
//@   ensures[found-iff-the-document-has-an-entry] found <==> has(fileMapCache.m, strFile)
//@   ensures[reads-back-what-was-stored] found ==> contents == fileMapCache.m[strFile].content
//@ end
//@ func (*FileMapCache).DelFileContent
//@   props C02
//@   ensures[closed-document-has-no-entry] !has(fileMapCache.m, strFile)
//@ end

// OffsetForPosition: cursor position -> byte offset (every cursor request goes through it).
//@ func OffsetForPosition
//@   props C01 C04
//@   sweep C01
//@   opt infer
//@   requires[C04] WF(contents, 0)
//@   ensures[offset-in-text] result1 == nil ==> 0 <= result0 && result0 <= len(contents)
//@   ensures[C04,offset-is-lsp-position] result1 == nil ==> atPos(contents, result0, posLine, posCh)
//@   loop 0 invariant [C04] 0 <= index && index <= len(contents) && index == offset && WF(contents, index)
//@          && B(contents, index) && L(contents, index) == line && C(contents, index) == col
//@   loop 0 decreases len(contents) - index
//@ end

// LocToRange: 1-based Loc lines become 0-based LSP lines, columns are copied; an ordered,
// in-range Loc gives start <= end (no uint32 wrap-around).
//@ spec wfLoc(sl int, sc int, el int, ec int) bool = sl >= 1 && sc >= 0 && (el > sl || (el == sl && ec >= sc)) && el < 4294967296 && sc < 4294967296 && ec >= 0 && ec < 4294967296
//@ func LocToRange
//@   props C04
//@   requires loc != nil
//@   ensures[C04,lines-shift-columns-copied] wfLoc(loc.StartLine, loc.StartColumn, loc.EndLine, loc.EndColumn) ==>
//@        result.Start.Line == loc.StartLine - 1 && result.Start.Character == loc.StartColumn
//@        && result.End.Line == loc.EndLine - 1 && result.End.Character == loc.EndColumn
//@   ensures[C04,start-not-after-end] wfLoc(loc.StartLine, loc.StartColumn, loc.EndLine, loc.EndColumn) ==>
//@        (result.Start.Line < result.End.Line || (result.Start.Line == result.End.Line && result.Start.Character <= result.End.Character))
//@ end

// ---- C08: when is a file's list of diagnostics "the same as before" (and therefore not published again)? ----
// only when every diagnostic also shows the same entry-file note and the same number of related locations (and the same
// ones: inner loop) - both are part of what the client displays (fix c6b8de8: they were not compared)
//@ func IsSameErrList
//@   props C08
//@   sweep C01
//@   ensures[same-means-the-same-length] result ==> len(oldErrList) == len(newErrList)
//@   ensures[same-means-the-same-entry-file-note-and-related-count] result ==> forall(k, 0, len(oldErrList),
//@        streq(oldErrList[k].EntryFile, newErrList[k].EntryFile) && len(oldErrList[k].RelateVec) == len(newErrList[k].RelateVec))
//@   loop for:i<oldLen invariant 0 <= i && i <= oldLen && oldLen == len(oldErrList) && oldLen == len(newErrList) && forall(k, 0, i,
//@        streq(oldErrList[k].EntryFile, newErrList[k].EntryFile) && len(oldErrList[k].RelateVec) == len(newErrList[k].RelateVec))
//@ end
