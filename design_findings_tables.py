#!/usr/bin/env python3
# Rewrites the generated tables of DESIGN.md §11 (between the markers) from known_findings.json and /repo's git log.
import json,re,subprocess
d=json.load(open('/verif/known_findings.json'))
rows=[]
for e in d['fixed']:
    m=re.match(r'fixed: property=(\S+) (\w+) (.*)',e,re.S)
    if not m: continue
    pid,h,rest=m.groups()
    if 'scout sub-agent' not in rest: continue
    msg=rest.split('. Found by an independent scout')[0]
    rows.append('| %s | %s | %s |'%(h,pid,msg.replace('|','\\|')))
fixed_tbl='| commit | property | defect (commit message) |\n|---|---|---|\n'+'\n'.join(rows)
rows=[]
for f in d['findings']:
    key=f['obligation']
    short=re.sub(r'^luahelper-lsp/langserver/','',key)
    rows.append('| %s | `%s` | %s | %s |'%(f['property'],short.replace('|','\\|'),f['what'].replace('|','\\|'),f.get('why_not_fixed','').replace('|','\\|')))
open_tbl='| property | finding (obligation / bounded case) | what fails | why it is recorded and not repaired |\n|---|---|---|---|\n'+'\n'.join(rows)
s=open('/verif/DESIGN.md').read()
def put(s,tag,body):
    a='<!-- %s:begin -->'%tag; b='<!-- %s:end -->'%tag
    i=s.index(a)+len(a); j=s.index(b)
    return s[:i]+'\n'+body+'\n'+s[j:]
s=put(s,'scout-fixed',fixed_tbl); s=put(s,'open-findings',open_tbl)
import collections
cnt=collections.Counter(f['property'] for f in d['findings'])
fixedcnt=collections.Counter(re.match(r'fixed: property=(\S+)',e).group(1) for e in d['fixed'] if re.match(r'fixed: property=(\S+)',e))
for pid in ['C%02d'%i for i in range(1,21)]:
    m=re.search(r'^### %s — .*$'%pid,s,re.M)
    if not m: continue
    line='**Findings (§7, §11).** repaired under this property: %d; open (recorded, §11.2): %d.'%(fixedcnt.get(pid,0),cnt.get(pid,0))
    n=re.search(r'^##+ ',s[m.end():],re.M)
    end=m.end()+n.start()
    sec=s[m.end():end]
    sec2=re.sub(r'^\*\*Findings \(§7, §11\)\.\*\* .*\n','',sec,flags=re.M).rstrip('\n')+'\n'+line+'\n\n'
    s=s[:m.end()]+sec2+s[end:]
open('/verif/DESIGN.md','w').write(s)
print('fixed rows',fixed_tbl.count('\n')-1,'open rows',open_tbl.count('\n')-1)
