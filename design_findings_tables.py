#!/usr/bin/env python3
# Rewrites the generated tables of DESIGN.md §11 (between the markers) from known_findings.json and /repo's git log.
import json,re,subprocess
d=json.load(open('/verif/known_findings.json'))
rows=[]
for e in d['fixed']:
    m=re.match(r'fixed: property=(\S+) (\w+) (.*)',e,re.S)
    if not m: continue
    pid,h,rest=m.groups()
    if 'scout sub-agent' not in rest: continue
    msg=rest.split('. Found by an independent scout')[0]
    rows.append('| %s | %s | %s |'%(h,pid,msg.replace('|','\\|')))
fixed_tbl='| commit | property | defect (commit message) |\n|---|---|---|\n'+'\n'.join(rows)
rows=[]
for f in d['findings']:
    key=f['obligation']
    short=re.sub(r'^luahelper-lsp/langserver/','',key)
    rows.append('| %s | `%s` | %s | %s |'%(f['property'],short.replace('|','\\|'),f['what'].replace('|','\\|'),f.get('why_not_fixed','').replace('|','\\|')))
open_tbl='| property | finding (obligation / bounded case) | what fails | why it is recorded and not repaired |\n|---|---|---|---|\n'+'\n'.join(rows)
s=open('/verif/DESIGN.md').read()
def put(s,tag,body):
    a='<!-- %s:begin -->'%tag; b='<!-- %s:end -->'%tag
    i=s.index(a)+len(a); j=s.index(b)
    return s[:i]+'\n'+body+'\n'+s[j:]
s=put(s,'scout-fixed',fixed_tbl); s=put(s,'open-findings',open_tbl)
open('/verif/DESIGN.md','w').write(s)
print('fixed rows',fixed_tbl.count('\n')-1,'open rows',open_tbl.count('\n')-1)
