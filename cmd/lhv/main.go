package main

import (
	"flag"
	"sort"
	"strings"
	"fmt"
	"os"
	"path/filepath"
	"strconv"

	"lhv/internal/engine"
)

func main() {
	if len(os.Args) < 2 {
		fmt.Fprintln(os.Stderr, "usage: lhv check --property Cxx [--tier quick|thorough] | lhv replay FILE | lhv dump --func KEY")
		os.Exit(2)
	}
	cmd := os.Args[1]
	fs := flag.NewFlagSet(cmd, flag.ExitOnError)
	prop := fs.String("property", "", "property id")
	tier := fs.String("tier", os.Getenv("VERIF_TIER"), "quick|thorough")
	repo := fs.String("repo", "/repo", "repository root")
	verif := fs.String("verif", "", "verif dir (default: directory of the binary's parent)")
	only := fs.String("only", "", "restrict to functions containing this substring")
	fn := fs.String("func", "", "function key for dump")
	obl := fs.String("obl", "", "obligation name substring for dump")
	timeout := fs.Int("timeout", 0, "per-obligation solver timeout (s)")
	jobs := fs.Int("jobs", 8, "obligations in flight")
	verbose := fs.Bool("v", false, "verbose")
	_ = fs.Parse(os.Args[2:])
	if *tier == "" {
		*tier = "quick"
	}
	vdir := *verif
	if vdir == "" {
		exe, _ := os.Executable()
		vdir = filepath.Dir(filepath.Dir(exe))
		if _, err := os.Stat(filepath.Join(vdir, "properties.jsonl")); err != nil {
			vdir, _ = os.Getwd()
		}
	}
	seed := 0
	if s := os.Getenv("VERIF_SEED"); s != "" {
		seed, _ = strconv.Atoi(s)
	}
	p, err := engine.Load(*repo, filepath.Join(vdir, "contracts"))
	if err != nil {
		fmt.Fprintln(os.Stderr, "load:", err)
		os.Exit(2)
	}
	p.BuildSummaries()
	p.BuildLockInfo()
	p.BuildFrozen()
	p.BuildFrozenFields()
	p.BuildNonNilGlobals()
	work, err := os.MkdirTemp("", "lhv-")
	if err != nil {
		fmt.Fprintln(os.Stderr, err)
		os.Exit(2)
	}
	if os.Getenv("LHV_KEEP") == "" {
		defer os.RemoveAll(work)
	} else {
		fmt.Fprintln(os.Stderr, "workdir:", work)
	}
	switch cmd {
	case "check":
		t := *timeout
		if t == 0 {
			t = 10
			if *tier == "thorough" {
				t = 60
			}
		}
		cfg := &engine.CheckConfig{Property: *prop, Tier: *tier, WorkDir: work, VerifDir: vdir, Timeout: t, Jobs: *jobs, Only: *only, Verbose: *verbose}
		code := engine.RunCheck(p, cfg, seed)
		os.RemoveAll(work)
		os.Exit(code)
	case "infer-variants":
		cfg := &engine.CheckConfig{Property: *prop, Tier: "quick", WorkDir: work, VerifDir: vdir, Timeout: 5, Jobs: *jobs}
		var keys []string
		for k := range p.Funcs {
			if strings.Contains(k, *fn) && p.Contracts.Funcs[k] != nil {
				keys = append(keys, k)
			}
		}
		sort.Strings(keys)
		for _, k := range keys {
			res := p.InferVariants(p.Funcs[k], cfg)
			var ords []int
			for o := range res {
				ords = append(ords, o)
			}
			sort.Ints(ords)
			for _, o := range ords {
				fmt.Printf("%s\tloop %d decreases %s\n", k, o, res[o])
			}
		}
	case "replay":
		rest := fs.Args()
		if len(rest) != 1 {
			fmt.Fprintln(os.Stderr, "usage: lhv replay <replay file>")
			os.Exit(2)
		}
		code := engine.Replay(p, *repo, rest[0], work)
		os.RemoveAll(work)
		os.Exit(code)
	case "allroots":
		engine.AllRoots(p, *fn)
	case "writers":
		engine.Writers(p, *fn, *obl)
	case "dumpall":
		engine.DumpAll(p, *fn)
	case "dump":
		engine.Dump(p, *fn, *obl, *prop, work)
	default:
		fmt.Fprintln(os.Stderr, "unknown command", cmd)
		os.Exit(2)
	}
}
