#!/usr/bin/env python3
# Applies every seeded change in turn to /repo, runs the property's quick check, reverts, and records which
# obligations reported it. Output: seeded/RESULTS.md and seeded/RESULTS.json. Never leaves /repo modified.
import json,os,subprocess,re,sys
rows=[]
for sid in sorted(os.listdir('/verif/seeded')):
    d='/verif/seeded/'+sid
    if sid.startswith('_') or not os.path.exists(d+'/patch.diff'): continue
    prop=json.load(open(d+'/meta.json'))['property']
    if subprocess.run(['git','-C','/repo','apply',d+'/patch.diff']).returncode!=0:
        rows.append((sid,prop,'patch does not apply',[])); continue
    import tempfile,shutil
    T=tempfile.mkdtemp(prefix='lhv-seedtab.',dir='/tmp')
    shutil.copy('/verif/known_findings.json',T); shutil.copy('/verif/properties.jsonl',T); shutil.copytree('/verif/contracts',T+'/contracts'); shutil.copytree('/verif/bounded',T+'/bounded')
    try:
        out=subprocess.run(['./bin/lhv','check','--verif',T,'--property',prop],cwd='/verif',capture_output=True,text=True).stdout
    finally:
        subprocess.run(['git','-C','/repo','apply','-R',d+'/patch.diff'])
        shutil.rmtree(T,ignore_errors=True)
    obls=re.findall(r'obligation=(\S+)',out)
    m=re.search(r'SUMMARY.*',out)
    rows.append((sid,prop,m.group(0) if m else 'no summary',obls))
json.dump([{'seed':a,'property':b,'summary':c,'failed_obligations':d} for a,b,c,d in rows],open('/verif/seeded/RESULTS.json','w'),indent=1)
with open('/verif/seeded/RESULTS.md','w') as f:
    f.write('| seeded change | property | caught | first failing obligation |\n|---|---|---|---|\n')
    for a,b,c,d in rows:
        short=d[0].split('/')[-1] if d else '-'
        f.write('| %s | %s | %s | `%s`%s |\n'%(a,b,'yes (%d)'%len(d) if d else 'NO',short,' (+%d more)'%(len(d)-1) if len(d)>1 else ''))
print(open('/verif/seeded/RESULTS.md').read())
