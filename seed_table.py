#!/usr/bin/env python3
# Applies every seeded change in turn to a SCRATCH COPY of /repo's working tree, runs the property's quick check on the
# copy, and records which obligations reported it. Output: seeded/RESULTS.md and seeded/RESULTS.json. /repo is never
# touched; three seeds run side by side; every copy is removed when its run is over. The checker binary, the contract
# mirror, the bounded checks, the findings file and /repo's tree are snapshotted once at the start, so /verif and /repo may
# be worked on while the table is being made (the table then describes the snapshot).
import json,os,subprocess,re,sys,tempfile,shutil
from concurrent.futures import ThreadPoolExecutor
SNAP=tempfile.mkdtemp(prefix='lhv-seedsnap.',dir='/tmp')
os.makedirs(SNAP+'/repo'); os.makedirs(SNAP+'/verif/bin')
subprocess.run(['rsync','-a','--exclude','.git','/repo/',SNAP+'/repo/'],check=True)
shutil.copy('/verif/bin/lhv',SNAP+'/verif/bin/lhv'); shutil.copy('/verif/known_findings.json',SNAP+'/verif'); shutil.copy('/verif/properties.jsonl',SNAP+'/verif')
shutil.copytree('/verif/contracts',SNAP+'/verif/contracts'); shutil.copytree('/verif/bounded',SNAP+'/verif/bounded')
subprocess.run(['rsync','-a','/verif/contracts/',SNAP+'/repo/luahelper-lsp/'],check=True)  # the contract files the checker reads sit next to the code
def one(sid):
    d='/verif/seeded/'+sid
    prop=json.load(open(d+'/meta.json'))['property']
    T=tempfile.mkdtemp(prefix='lhv-seedtab.',dir='/tmp')
    try:
        os.makedirs(T+'/repo'); os.makedirs(T+'/verif')
        subprocess.run(['rsync','-a',SNAP+'/repo/',T+'/repo/'],check=True)
        shutil.copy(SNAP+'/verif/known_findings.json',T+'/verif'); shutil.copy(SNAP+'/verif/properties.jsonl',T+'/verif')
        shutil.copytree(SNAP+'/verif/contracts',T+'/verif/contracts'); shutil.copytree(SNAP+'/verif/bounded',T+'/verif/bounded')
        if subprocess.run(['patch','-s','-p1','-i',d+'/patch.diff'],cwd=T+'/repo',capture_output=True).returncode!=0:
            return (sid,prop,'patch does not apply',[])
        out=subprocess.run([SNAP+'/verif/bin/lhv','check','--repo',T+'/repo','--verif',T+'/verif','--property',prop],cwd=SNAP+'/verif',capture_output=True,text=True).stdout
    finally:
        shutil.rmtree(T,ignore_errors=True)
    obls=re.findall(r'obligation=(\S+)',out)
    m=re.search(r'SUMMARY.*',out)
    print(sid,'caught' if obls else 'NOT CAUGHT',flush=True)
    return (sid,prop,m.group(0) if m else 'no summary',obls)
sids=[s for s in sorted(os.listdir('/verif/seeded')) if not s.startswith('_') and os.path.exists('/verif/seeded/'+s+'/patch.diff')]
# seed_table.py Cxx|<seed id> ...: re-run only the seeds of these properties / these seeds and merge the rows into the existing table
ONLY=set(sys.argv[1:])
old_rows={}
if ONLY:
    old_rows={r['seed']:(r['seed'],r['property'],r['summary'],r['failed_obligations']) for r in json.load(open('/verif/seeded/RESULTS.json'))}
    sids_all=sids
    sids=[s for s in sids if s in ONLY or json.load(open('/verif/seeded/'+s+'/meta.json'))['property'] in ONLY]
with ThreadPoolExecutor(max_workers=3) as ex:
    rows=list(ex.map(one,sids))
shutil.rmtree(SNAP,ignore_errors=True)
if ONLY:
    new={r[0]:r for r in rows}
    rows=[new.get(s) or old_rows[s] for s in sids_all if s in new or s in old_rows]
json.dump([{'seed':a,'property':b,'summary':c,'failed_obligations':d} for a,b,c,d in rows],open('/verif/seeded/RESULTS.json','w'),indent=1)
with open('/verif/seeded/RESULTS.md','w') as f:
    f.write('| seeded change | property | caught | first failing obligation |\n|---|---|---|---|\n')
    for a,b,c,d in rows:
        short=d[0].split('/')[-1] if d else '-'
        f.write('| %s | %s | %s | `%s`%s |\n'%(a,b,'yes (%d)'%len(d) if d else 'NO',short,' (+%d more)'%(len(d)-1) if len(d)>1 else ''))
print(open('/verif/seeded/RESULTS.md').read())
