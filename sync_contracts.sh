#!/bin/sh
# Copies the contract mirror (/verif/contracts) into /repo/luahelper-lsp (comment-only files, build tag verif).
set -e
cd "$(dirname "$0")"
rsync -a contracts/ /repo/luahelper-lsp/
