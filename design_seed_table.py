#!/usr/bin/env python3
# Rewrites the seed table of DESIGN.md section 9 from seeded/RESULTS.json (written by seed_table.py).
import json,re
rows=json.load(open('/verif/seeded/RESULTS.json'))
out=["| seeded change | property | first failing obligation |","|---|---|---|"]
for r in rows:
    d=r['failed_obligations']
    first=d[0].split('/')[-1] if d else '**not reported**'
    first=re.sub(r'^(langserver_)?','',first)
    out.append("| %s | %s | `%s` |"%(r['seed'],r['property'],first))
p='/verif/DESIGN.md'
s=open(p).read()
s=re.sub(r'\| seeded change \| property \| first failing obligation \|.*?\n\n', "\n".join(out)+"\n\n", s, count=1, flags=re.S)
open(p,'w').write(s)
print(len(rows),"seeds;",sum(1 for r in rows if r['failed_obligations']),"reported")
