#!/bin/sh
# usage: mkseedwt.sh <name>  -> creates /tmp/seed/<name>, a detached worktree of /repo at branch seedbase (no contract files)
set -e
mkdir -p /tmp/seed
git -C /repo worktree add -q --detach /tmp/seed/$1 seedbase
echo /tmp/seed/$1
