#!/usr/bin/env python3
# Regenerates MANIFEST.json from the table below (kept in one place so it stays valid).
import json
ENV = "GOFLAGS=-mod=mod GOPROXY=off GOSUMDB=off GOTOOLCHAIN=local"
import subprocess
hook_commits = subprocess.run(["git","-C","/repo","log","--format=%h","--grep=^verif hooks"],capture_output=True,text=True).stdout.split()
claimed = {
 "C01": ("No-panic sweep (bounds, nil, type-assertion, division, explicit panic, extern preconditions) with Houdini-inferred loop invariants over every function of the lexer and the document-sync code, helper preconditions checked at every call site, type invariant of Lexer re-established at every exit; each obligation holds for all inputs of any length.",
         "Partial: covers the listed packages only (evidence lists the functions); termination only where variant obligations are listed; parser recursion depth, analysis passes, goroutines and jrpc2 are outside (DESIGN.md C01).", "5.C01"),
 "C05": ("The position kernel of go-to-definition is proved against spec predicates taken from Lua's visibility rules: IsBeforeLoc/IsContainLoc equal the lexicographic order/containment on (line, column); IsCorrectPosition equals 'declared at or before the use and the use is not inside the declaration's own initialiser, except that a local function sees itself' (for the initialiser kinds the code distinguishes; the property-derived clause for other kinds is a recorded known finding); FindLocVar returns a visible declaration, the LAST visible one of the nearest scope that has one, and nothing when no scope on the chain has one; FindMinScope returns a scope containing the cursor none of whose children contains it (so the early exits are justified only by the ordering of siblings), nil iff the root does not contain it.",
         "Scope-tree shape (children non-nil, ordered by start line) is a precondition assumed for the tree handed in; that the analysis declares locals in the right scope/order (DESIGN.md C05 (D)), global fall-back tables and member/require resolution are not covered. Termination of the recursion assumes a finite tree.", "5.C05"),
 "C14": ("Completion of local names: GetCompleteVar is proved, at the call that offers a name, to offer only a declaration that starts at or before the cursor, the last such declaration of its scope, and never to overwrite a name an inner scope already offered (loop invariant over the reverse scan, any list length); the cursor -> innermost scope step (FindMinScope) is the C05 contract.",
         "Completeness over the whole scope chain ('every visible local is offered') is argued from the map-range loop visiting every key (Go semantics) and is not a discharged obligation; prefix filter (IsCompleteNeedShow), globals, members and keywords are outside.", "5.C14"),
 "C18": ("Module-path resolution kernel: every workspace file accepted as a candidate for a require/dofile argument ends with '/' + the module path (directory-boundary anchor, for both the with-suffix and the stem branch), stated at the point where the candidate is collected; the file-name index is an insert/remove inverse pair - InsertOneFile lists the path under its base name and its stem, RemoveOneFile leaves it listed under neither - so the answer follows file creation and deletion; the choice among candidates is the total order proved under C09.",
         "strings.Split/Index/HasSuffix and concatenation are uninterpreted functions of their arguments (only length facts); CheckReferFile's decision table, the dir-manager matchers, GetOpenFileStr's regular expressions and agreement of hover/definition with the analysis are not under contract.", "5.C18"),
 "C19": ("Outline of locals (FindAllLocalVal): every produced variable symbol's range starts exactly where the declaration starts (so it contains the declaring identifier; the loop that extends the range to the last member may only move the end), plain variables carry the declaration's own range, and a scope that declares nothing still descends into its nested blocks (ghost call-site counter over the map-built work list, with map-size facts).",
         "Covers the local-symbol builder only; the global builder (results/file_result.go, repaired by the same fix), transferSymbolVec, the workspace-symbol matcher and 'every declaration is listed' in general are not under contract. The descent obligation is proved for the case of a scope without own locals.", "5.C19"),
 "C20": ("Pattern checks as site guards: at every InsertError call in cgAssignStat and cgBinopExp (whatever their number or order) a report of type 20/7/14/15/16/21 is proved to be made only when the documented pattern holds (self-assignment: every target/value pair syntactically equal, by a loop invariant over the pair scan; or-true / and-false / float-equality / same-operands: operator and operand shapes), and no other type is reported there. The AST is proved immutable outside the parser by a scan of every store in the module, which is what lets facts about a node survive the recursive traversal calls.",
         "'Nowhere else' direction only (a report implies the pattern); that every pattern occurrence is reported (traversal coverage, first-term/real-time gating) is not decided. CompExp / GetExpName are modelled as functions of their arguments (AST immutable); their own definitions (structural equality, name rendering) are not yet under contract. Types 5, 8, 13, 19 not yet covered.", "5.C20"),
 "C09": ("The three places where results gathered in map-iteration / goroutine-completion order are reduced to one answer are proved to use a strict total order: JudgeShouldInsertGlobalInfo is proved equal (loop invariant, all list lengths) to 'new beats every recorded definition of another file' for the lexicographic rank (function level, scope level, line, file), and the two sort.Interface Less methods (require candidates, workspace symbols) equal to lexicographic orders ending in a unique key; totality+antisymmetry and transitivity of each order are proved as lemmas. With a total order the surviving/first element is the unique minimum for every arrival order.",
         "No scheduling semantics: worker pools, GOMAXPROCS and directory listing order are outside; sort.Sort is assumed to return a permutation sorted w.r.t. Less; the final step (unique minimum => order independence) is a paper argument; other map-order leaks are not enumerated. Strings are compared through an order embedding strord (sound for the finitely many strings of a query).", "5.C09"),
 "C10": ("Lock discipline proved for every method of LspServer: each access to the guarded server state (document cache, diagnostics maps, project, colorTime, changeConfFlag) happens with requestMutex held; helpers that touch the state are only called with it held (call-graph fixpoint, checked at each call site); no handler re-acquires the mutex (self-deadlock); the mutex state at every exit equals the state at entry. Whole-handler mutual exclusion gives atomicity, hence serialisability in lock-acquisition order.",
         "No interleaving semantics: goroutines spawned by handlers (worker pools, telemetry), the Go memory model and jrpc2's dispatcher are outside; entry points are read from the handler map in CreateServer; Initialize/Initialized/Shutdown/Exit are exempt (LSP ordering). Self-locked structures (LRUCache etc.) not yet covered.", "5.C10"),
 "C15": ("Looking through T[] / table<K,V> / ---@alias to the element type: the three accessors are proved to return the item / value / key type of an array or table node, nothing for a bare table, to look through an alias with the SAME accessor (ghost counters on the sibling call sites), and to terminate on every input including cyclic alias chains: each recursive call decreases the lexicographic measure (aliases still allowed, size of the type tree).",
         "tsize (finite annotation type trees, alternatives smaller than their union) is assumed; class/parent collection (getClassTypeInfoList: no member lost, cyclic inheritance) and member completion assembly are not under contract.", "5.C15"),
 "C16": ("Annotation parsing, necessary conditions: the type grammar builds the documented node shapes - parserOneType returns a union node with at least one alternative, parserTableType a table node whose key and value are both full union types (or neither for a bare 'table'), parserFunType aligned parameter name/type/optional lists (loop invariants), parserSingleType an array node around the single type just parsed; ParseCommentFragment keeps exactly one line number per accepted statement through every line (including dropped empty aliases); both annotation packages raise no panic other than the ParseAnnotateErr sentinel that ParserLine recovers (C01 sweep), which is what confines a malformed line to a warning on that line.",
         "No language-equivalence proof ('accepted iff documented syntax'); print/parse round trip (TypeConvertStr) and the statement parsers' component order are not under contract.", "5.C16"),
 "C17": ("Configuration plumbing proved: each documented switch sits at the index of the diagnostic type it names (52 positional conjuncts over the two list builders); handleNotJSONCheckFlag yields 'type ignored iff its switch is off / beyond the list', master switch off ignores all 29 types (loop invariants over the type map); IsIgnoreErrorFile returns true when the master switch is off or the type is ignored and false when no rule applies; IsSpecialCheck equals the documented gate over types {2,3,10,11,12}; every valid ignore pattern gets its compiled entry on both the client-settings and the luahelper.json path (ReadConfig); invalid patterns cannot panic (extern-pre).",
         "Not decided: 'changes nothing else' across the whole pipeline (the gate switches between two workspace passes); regexp/Contains matching itself is uninterpreted; globals are assumed initialised (GlobalConfigDefautInit); log package frame trusted.", "5.C17"),
 "C13": ("isUtf8/preNUm/ConvertStrToUtf8 against a structural UTF-8 spec (rec predicate V with generator-instantiated unfolding axiom): valid UTF-8 is accepted and returned unaltered; preNUm == leading-ones for all 256 bytes; unbounded in the input length.",
         "Trusted: strbytesconv (unsafe) contracts; GBK decoder library. Not decided: hover label rendering, which comment is attached (see DESIGN.md C13).", "5.C13"),
 "C02": ("offsetForStartAndEnd proved equal to the LSP position semantics (spec functions B/L/C: LF/CRLF/CR line ends, UTF-16 columns) for all well-formed UTF-8 texts of any length, by loop invariant + variant; the closure getCharBytes proved == leading-ones.",
         "Assumes text in the cache is well-formed UTF-8 (WF) and < 4 GiB. Handlers' view contracts: see DESIGN.md C02.", "5.C02"),
}
na = {
 "C12": "four-way relational property across separate request pipelines; after modular abstraction of callees nothing of the property remains in a composed obligation (DESIGN.md section C12). Shared kernel decided under C05/C06.",
}
pending = ["C01","C03","C04","C05","C06","C07","C08","C09","C10","C11","C14","C15","C16","C17","C18","C19","C20"]
checks = []
for pid,(text,note,ref) in sorted(claimed.items()):
    checks.append({
      "property_id": pid,
      "quick_cmd": f"./bin/lhv check --property {pid} --tier quick",
      "thorough_cmd": f"./bin/lhv check --property {pid} --tier thorough",
      "evidence_file": f"/verif/evidence/{pid}.json",
      "replay_cmd_template": "./bin/lhv replay {path}",
      "engine": "lhv",
      "level_claimed": {"category": "proof", "text": text, "design_ref": ref},
      "level_note": note,
      "technique": "contract-based deductive verification: weakest-precondition style VCs generated from go/ssa of /repo, contracts in //go:build verif comment files, discharged by z3 4.8.12 / z3 5.1.0 / cvc5 1.0.3",
    })
m = {
 "version": 1,
 "setup_cmd": f"cd /verif && {ENV} go build -o bin/lhv ./cmd/lhv",
 "hooks": {"guard": "verif", "enable": "go build -tags verif (adds comment-only contract files zz_contracts_verif.go; no executable code)",
           "baseline_off_cmd": f"cd /repo/luahelper-lsp && {ENV} go test -vet=off -count=1 ./...",
           "source_commits": [], "add_only": True},
 "engines": [{"name": "lhv", "path": "/verif/cmd/lhv", "serves_properties": sorted(claimed), "kind_free_text": "VC generator over go/ssa + SMT (z3, z3-new, cvc5)"}],
 "checks": checks,
 "notes": "See DESIGN.md. Exit 2 = engine/vacuity error (not a violation).",
 "not_applicable": [{"property_id": k, "reason": v} for k,v in sorted(na.items())] +
                   [{"property_id": k, "reason": "not claimed yet: contracts for this property are not built (work in progress)"} for k in pending if k not in claimed],
}
m["hooks"]["source_commits"] = hook_commits[::-1]
json.dump(m, open("MANIFEST.json","w"), indent=1)
