#!/bin/bash
# usage: seed_run.sh <seed id> [property]  -- applies the seeded patch to /repo, runs the property check, reverts.
# Evidence / replay files of this run go to a scratch verif dir, so /verif/evidence keeps describing the unchanged tree.
ID=$1; D=/verif/seeded/$ID
PROP=${2:-$(python3 -c "import json;print(json.load(open('$D/meta.json'))['property'])")}
T=$(mktemp -d /tmp/lhv-seedrun.XXXXXX); cp /verif/known_findings.json /verif/properties.jsonl $T/; cp -r /verif/contracts $T/contracts; cp -r /verif/bounded $T/bounded
cd /repo && git apply $D/patch.diff || { echo "apply failed"; rm -rf $T; exit 2; }
cd /verif && ./bin/lhv check --verif $T --property $PROP 2>&1 | grep -E "VIOLATION|KNOWN|SUMMARY|ENGINE" | cut -c1-260
cd /repo && git apply -R $D/patch.diff
rm -rf $T
