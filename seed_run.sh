#!/bin/bash
# usage: seed_run.sh <seed id> [property]  -- applies the seeded patch to /repo, runs the property check, reverts.
ID=$1; D=/verif/seeded/$ID
PROP=${2:-$(python3 -c "import json;print(json.load(open('$D/meta.json'))['property'])")}
cd /repo && git apply $D/patch.diff || { echo "apply failed"; exit 2; }
cd /verif && ./bin/lhv check --property $PROP 2>&1 | grep -E "VIOLATION|KNOWN|SUMMARY|ENGINE" | cut -c1-260
cd /repo && git apply -R $D/patch.diff
