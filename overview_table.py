#!/usr/bin/env python3
# Rewrites the overview table of DESIGN.md section 0.1 from the evidence files of the last runs.
import json,re
one = {
 "C01": "no panic / out-of-range / nil / failed type assertion / explicit panic other than the recovered sentinels; declared variants",
 "C02": "edit-position scan == LSP position semantics; splice == `old[:start]++text++old[end:]`; sync handlers store exactly the notification's text",
 "C03": "errors are never lost; expectation fails ⇔ error; numeral token never swallows an operator; hex mantissa acceptance; short comment ends at the first line break",
 "C04": "lexer position counters (column/line bookkeeping) per scanner; cursor→offset scan; Loc→Range; handler conversions",
 "C05": "visibility kernel (IsCorrectPosition, FindLocVar, FindMinScope) == Lua's rules; scope ranges; binding order of the analysis",
 "C06": "occurrence matcher sound/complete for plain names; every use/target reaches it; traversal coverage; worker buffers; handler",
 "C07": "binding order == Lua scoping; scope stack discipline of the walk; unused-local report guards; undefined-global lookups per pass",
 "C08": "per-event scheduling of re-analysis; file tables/index; first-pass short cut; publish/clear bookkeeping",
 "C09": "the three tie-breaks are strict total orders; symbol lists sorted before each cap",
 "C10": "lock discipline of every LspServer method",
 "C11": "rename edits = new name at LocToRange of the C06 occurrences, filed per document",
 "C13": "UTF-8 text passes unaltered; comment keying and lookup",
 "C14": "completion of locals: only visible ones, last declaration, no overwrite, per-scope completeness, outer scopes searched at the cursor",
 "C15": "array/table/alias look-through returns the right component and terminates on cyclic aliases; class walk; type-table merge",
 "C16": "annotation type nodes have the documented shape; parallel lists stay aligned; per-line isolation; keywords usable as names",
 "C17": "switch ↔ diagnostic-type tables; ignore predicates; recording choke point; invalid patterns cannot panic",
 "C18": "candidate anchored at a directory boundary; index insert/remove inverse; probe order on the normalised path; rescan after file events",
 "C19": "outline of locals: ranges start at the declaration; nested blocks visited; workspace-symbol walk over every scope",
 "C20": "pattern diagnostics are reported only where their pattern holds; CompExp structural; duplicate parameters/conditions complete",
}
rows=["| id | functions under contract | obligations | what is decided (one line) |","|---|---|---|---|"]
tot=0
for i in range(1,21):
    pid="C%02d"%i
    if pid=="C12":
        rows.append("| C12 | — | — | **not applicable** |"); continue
    d=json.load(open('/verif/evidence/%s.json'%pid))
    c=d['coverage']; n=c['obligations']; tot+=n
    k=c.get('known_findings_hit',0)
    rows.append("| %s | %d | %d%s | %s |"%(pid,len(c['functions_under_contract']),n," (+%d known)"%k if k else "",one[pid]))
p='/verif/DESIGN.md'
s=open(p).read()
s=re.sub(r'\| id \| functions under contract \|.*?\n\n', "\n".join(rows)+"\n\n", s, count=1, flags=re.S)
open(p,'w').write(s)
print("total obligations",tot)
