#!/bin/bash
# usage: seed_try.sh <seed id|-> <property> [extra lhv args]  -- like seed_run.sh but on a scratch copy of /repo (never touches /repo);
# the copy gets the contract files of /verif/contracts (so edited contracts can be tried before they are synced). "-" = no patch.
ID=$1; PROP=$2; shift 2
T=$(mktemp -d /tmp/lhv-seedtry.XXXXXX); mkdir -p $T/repo $T/verif
rsync -a --exclude .git /repo/ $T/repo/
cp /verif/known_findings.json /verif/properties.jsonl $T/verif/; cp -r /verif/contracts $T/verif/contracts; cp -r /verif/bounded $T/verif/bounded
(cd /verif/contracts && find . -name '*_verif.go' | while read f; do mkdir -p $T/repo/luahelper-lsp/$(dirname $f); cp $f $T/repo/luahelper-lsp/$f; done)
if [ "$ID" != "-" ]; then (cd $T/repo && patch -s -p1 < /verif/seeded/$ID/patch.diff) || { echo "apply failed"; rm -rf $T; exit 2; }; fi
cd /verif && ./bin/lhv check --repo $T/repo --verif $T/verif --property $PROP "$@" 2>&1 | grep -E "VIOLATION|KNOWN|SUMMARY|ENGINE|error|rror:" | cut -c1-300
rm -rf $T
