#!/bin/bash
# usage: seed_intake.sh <worktree name> <property> <seed id>  -- confirm a delivered seed, store it, run the check on it (scratch copy)
./seed_confirm.sh $1 $2 $3 2>&1 | tail -1
echo "$3: $(./seed_try.sh $3 $2 | tail -1 | grep -o 'violations=[0-9]*')"
