#!/usr/bin/env python3
# usage: gen_sweep.py <pkg rel dir> <prop> [file globs...]: prints //@ func NAME / sweep PROP blocks for every function in the package's non-test files
import re,sys,glob,os
d=sys.argv[1]; prop=sys.argv[2]; files=sys.argv[3:] or ['*.go']
for pat in files:
    for f in sorted(glob.glob(os.path.join('/repo/luahelper-lsp',d,pat))):
        if f.endswith('_test.go') or f.endswith('_verif.go'): continue
        for line in open(f):
            m=re.match(r'^func\s+(\(\s*\w+\s+(\*?)(\w+)\s*\)\s*)?(\w+)\s*\(',line)
            if not m: continue
            name=m.group(4)
            if m.group(1):
                name='(%s%s).%s'%(m.group(2),m.group(3),name)
            print('//@ func %s\n//@   sweep %s\n//@ end\n'%(name,prop))
