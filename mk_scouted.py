#!/usr/bin/env python3
# usage: mk_scouted.py Cxx [--keep-known]
# Turns the tests a "scout" sub-agent wrote against the UNMODIFIED code (scout/Cxx/scout_tests*.go.txt: each states what
# the property demands on one concrete input) into a bounded check of the property:
#   bounded/Cxx_scouted_cases_test.go.txt   (header "// lhv-bounded ...", one test TestBoundedScoutedCases)
# Every scout test becomes one case. The cases are first run on a scratch copy of /repo's current tree: a case that
# passes is kept as a plain regression case (its defect was repaired, or the scout was wrong about the current tree); a
# case that fails is a recorded defect: its failure lines are tagged [known:<Case>] and known_findings.json gets an open
# entry "Cxx_scouted_cases#bounded[<Case>]" (what = the scout's comment above the test). Nothing is added at check time.
import json,os,re,subprocess,sys,tempfile,shutil,glob
pid=sys.argv[1]
src_files=sorted(glob.glob('/verif/scout/%s/scout_tests*.go.txt'%pid))
assert src_files, 'no scout tests'
ENV=dict(os.environ,GOFLAGS='-mod=mod',GOPROXY='off',GOSUMDB='off',GOTOOLCHAIN='local')
out_files=[]
kf=json.load(open('/verif/known_findings.json'))
for n,sf in enumerate(src_files):
    text=open(sf).read()
    lines=text.split('\n')
    m=re.search(r'luahelper-lsp/[\w/]+',lines[0])
    pkgdir=m.group(0).rstrip('/') if m else 'luahelper-lsp/langserver'
    if pkgdir.endswith('.go'): pkgdir=os.path.dirname(pkgdir)
    body='\n'.join(lines[1:])
    # several source files concatenated: one package clause, one merged import block
    pk=re.findall(r'^package \w+\s*$',body,re.M)
    if len(pk)>1:
        imps=[]
        for blk in re.findall(r'^import \(\n(.*?)^\)\n',body,re.M|re.S):
            for l in blk.split('\n'):
                if l.strip() and l.strip() not in [i.strip() for i in imps]: imps.append(l)
        for single in re.findall(r'^import (".*?")\s*$',body,re.M):
            if single not in [i.strip() for i in imps]: imps.append('\t'+single)
        body=re.sub(r'^import \(\n.*?^\)\n','',body,flags=re.M|re.S)
        body=re.sub(r'^import ".*?"\s*$','',body,flags=re.M)
        body=re.sub(r'^package \w+\s*$','',body,flags=re.M)
        body=re.sub(r'^// package directory.*$','',body,flags=re.M)
        body=pk[0]+'\n\nimport (\n'+'\n'.join(imps)+'\n)\n'+body
    # doc comments of the tests
    docs={}
    for mm in re.finditer(r'((?:^//.*\n)+)func (Test\w+)\(t \*testing\.T\)',body,re.M):
        docs[mm.group(2)]=' '.join(l[2:].strip() for l in mm.group(1).strip().split('\n'))
    tests=re.findall(r'^func (Test\w+)\(t \*testing\.T\)',body,re.M)
    body=re.sub(r'^func Test(\w+)\(t \*testing\.T\)',r'func lhvCase\1(t *testing.T)',body,flags=re.M)
    body=re.sub(r'((?:\b\w+\.)?\b(?:t|tb|tt))\.(Errorf|Fatalf)\(',r'lhv\2(\1, ',body)
    body=re.sub(r'((?:\b\w+\.)?\b(?:t|tb|tt))\.(Error|Fatal)\(',r'lhv\2(\1, ',body)
    helpers='''
// ---- added by mk_scouted.py ----
var lhvTag string

func lhvErrorf(t testing.TB, f string, a ...interface{}) { t.Helper(); t.Errorf(lhvTag+f, a...) }
func lhvFatalf(t testing.TB, f string, a ...interface{}) { t.Helper(); t.Fatalf(lhvTag+f, a...) }
func lhvError(t testing.TB, a ...interface{}) {
	t.Helper()
	t.Error(append([]interface{}{lhvTag}, a...)...)
}
func lhvFatal(t testing.TB, a ...interface{}) {
	t.Helper()
	t.Fatal(append([]interface{}{lhvTag}, a...)...)
}
'''
    def render(tags):
        cases=''.join('\t\t{"%s", "%s", lhvCase%s},\n'%(t[4:],tags.get(t,''),t[4:]) for t in tests)
        suffix='' if len(src_files)==1 else '_%d'%n
        head='// lhv-bounded property=%s name=scouted-cases%s package=%s bound=the concrete programs, cursor positions and request sequences listed in this file: examples found by reading the code against the property statement, each stating what the property demands there (an example table, not an enumeration)\n'%(pid,suffix,pkgdir)
        head+='// Cases whose failure lines carry [known:<Case>] are recorded defects of the current tree (known_findings.json); every other case must pass.\n'
        tail='''
func TestBoundedScoutedCases(t *testing.T) {
	for _, c := range []struct {
		name, tag string
		f         func(*testing.T)
	}{
%s	} {
		lhvTag = c.tag
		t.Run(c.name, c.f)
	}
	lhvTag = ""
}
'''%cases
        return head+body+helpers+tail
    # 1) run untagged on a scratch copy to see which cases fail today
    T=tempfile.mkdtemp(prefix='lhv-scouted.',dir='/tmp')
    try:
        subprocess.run(['rsync','-a','--exclude','.git','--exclude','*_verif.go','/repo/',T+'/'],check=True)
        open(os.path.join(T,pkgdir,'zz_lhv_replay_test.go'),'w').write(render({}))
        r=subprocess.run(['go','test','-vet=off','-count=1','-timeout','300s','-run','TestBoundedScoutedCases','./'+pkgdir[len('luahelper-lsp/'):]+'/'],cwd=T+'/luahelper-lsp',env=ENV,capture_output=True,text=True)
        out=r.stdout+r.stderr
    finally:
        shutil.rmtree(T,ignore_errors=True)
    if 'build failed' in out or '[setup failed]' in out:
        print(out[-3000:]); sys.exit(1)
    failing=set(re.findall(r'^    --- FAIL: TestBoundedScoutedCases/(\w+)',out,re.M))
    tags={t:'[known:%s] '%t[4:] for t in tests if t[4:] in failing}
    base='%s_scouted_cases%s'%(pid,'' if len(src_files)==1 else '_%d'%n)
    open('/verif/bounded/%s_test.go.txt'%base,'w').write(render(tags))
    # 2) known findings: add missing open entries, report stale ones
    have={f['obligation']:f for f in kf['findings']}
    for t in tests:
        key='%s#bounded[%s]'%(base,t[4:])
        if t[4:] in failing:
            if key not in have:
                first=[l for l in out.split('\n') if 'zz_lhv_replay_test.go' in l and t[4:] in out]
                kf['findings'].append({'property':pid,'obligation':key,'what':docs.get(t,t),'witness':'bounded/%s_test.go.txt, case %s (go test -overlay on the real code: ./bin/lhv replay bounded/%s_test.go.txt)'%(base,t[4:],base),'status':'open','why_not_fixed':'TODO'})
                print('NEW known:',key)
        elif key in have and have[key].get('status')=='open':
            print('STALE (case passes now, open entry removed):',key)
            kf['findings']=[f for f in kf['findings'] if f['obligation']!=key]
    print(base,'cases',len(tests),'failing today',len(failing))
json.dump(kf,open('/verif/known_findings.json','w'),indent=1,ensure_ascii=False)
