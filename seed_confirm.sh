#!/bin/bash
# usage: seed_confirm.sh <worktree name under /tmp/seed> <property id> <seed id>
# Confirms (in the scratch worktree) that the patch compiles, the suite passes, the demo fails with it and passes without;
# then stores patch/demo/meta under /verif/seeded/<seed id>/.
set -u
WT=/tmp/seed/$1; PROP=$2; ID=$3
export GOFLAGS=-mod=mod GOPROXY=off GOSUMDB=off GOTOOLCHAIN=local
cd $WT || exit 2
DEMO=$(git ls-files --others --exclude-standard | grep '_test.go$' | head -1)
[ -z "$DEMO" ] && { echo "no demo test found"; exit 2; }
PKGDIR=$(dirname $DEMO)
git checkout -q -- . ; git apply patch.diff || { echo "patch does not apply"; exit 2; }
mv $DEMO /tmp/seed/$1.demo.go
( cd luahelper-lsp && go build ./... && go test -vet=off -count=1 ./... > /tmp/seed/$1.suite.log 2>&1 ); SUITE=$?
mv /tmp/seed/$1.demo.go $DEMO
( cd $PKGDIR && timeout 300 go test -vet=off -count=1 -timeout 120s -run 'Seed|seed|ZZ' . > /tmp/seed/$1.with.log 2>&1 ); WITH=$?
git checkout -q -- .
( cd $PKGDIR && timeout 300 go test -vet=off -count=1 -timeout 120s -run 'Seed|seed|ZZ' . > /tmp/seed/$1.without.log 2>&1 ); WITHOUT=$?
echo "suite_with_patch_exit=$SUITE demo_with_patch_exit=$WITH demo_without_patch_exit=$WITHOUT"
if [ $SUITE -eq 0 ] && [ $WITH -ne 0 ] && [ $WITHOUT -eq 0 ]; then
  mkdir -p /verif/seeded/$ID
  cp patch.diff /verif/seeded/$ID/patch.diff
  cp $DEMO /verif/seeded/$ID/demo_test.go.txt
  cp notes.md /verif/seeded/$ID/notes.md 2>/dev/null
  cat > /verif/seeded/$ID/meta.json <<EOF
{"id": "$ID", "property": "$PROP", "demo_package_dir": "$PKGDIR", "demo_file": "$(basename $DEMO)",
 "confirmed": {"suite_with_patch": "pass", "demo_with_patch": "fail", "demo_without_patch": "pass"},
 "ran": ["git apply patch.diff", "go build ./... && go test -vet=off -count=1 ./...  (demo moved aside)", "go test -run 'Seed|seed|ZZ' in $PKGDIR with patch", "same without patch"],
 "needs": "see notes.md"}
EOF
  echo CONFIRMED $ID
else
  echo NOT-CONFIRMED; tail -5 /tmp/seed/$1.suite.log /tmp/seed/$1.with.log /tmp/seed/$1.without.log
fi
