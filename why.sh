#!/bin/bash
# usage: why.sh <func substr> <property> <obligation substr>  -> status line(s) of the matching obligations
./bin/lhv dump --func "$1" --property "$2" --obl "$3" 2>&1 | grep -E "^  (failed|discharged|cover)" | grep -F "$3" | sed 's/luahelper-lsp\/langserver\///g' | cut -c1-400
